#!/venv/bin/python
"""bin/check <Cxx> [quick|thorough] [--replay file]

One check = regenerate (translator/tables) -> prove (Coq, full .vo build + Print Assumptions) ->
correspond (implementation vs. model evaluated inside Coq) -> oracle (property text on the implementation)
-> decide -> evidence.  See DESIGN.md section 2.
"""
from __future__ import annotations

import importlib
import json
import os
import re
import shutil
import subprocess
import sys
import time
from concurrent.futures import ThreadPoolExecutor
from pathlib import Path

sys.path.insert(0, str(Path(__file__).resolve().parent))
from vlib import common as C  # noqa: E402

CHUNK = 400


def log(*a):
    print(*a, flush=True)


# ----------------------------------------------------------------------------- stages
def stage_prove(mod, tier):
    """All property files of the module (PROPERTIES_V + EXTRA_PROPERTIES_V): obligations are pooled."""
    files = [mod.PROPERTIES_V] + list(getattr(mod, "EXTRA_PROPERTIES_V", []))
    total = None
    for f in files:
        r = stage_prove_one(mod, tier, f)
        if total is None:
            total = r
        else:
            for k in ("obligations", "discharged", "failed", "cmds", "forbidden"):
                total[k] += r[k]
            total["axioms"].update(r["axioms"])
            total["closure"] = sorted(set(total.get("closure", [])) | set(r.get("closure", [])))
            if r["failed"] and not total.get("broken_file"):
                total["broken_file"] = r.get("broken_file")
                total["log_tail"] = r.get("log_tail", "")
    return total


def stage_prove_one(mod, tier, target_v):
    """Build the closure of one Properties file and read back Print Assumptions. Returns dict."""
    res = {"obligations": [], "discharged": [], "failed": [], "axioms": {}, "cmds": [], "log_tail": "", "forbidden": []}
    src = (C.COQ / target_v).read_text()
    res["obligations"] = re.findall(r"^\s*(?:Theorem|Lemma|Corollary)\s+([A-Za-z0-9_']+)", src, re.M)
    closure = C.vo_closure(target_v)
    res["closure"] = closure
    res["forbidden"] = C.scan_forbidden([C.COQ / f for f in closure])
    ok, mk_log, dt = C.coq_make([target_v + "o"])
    res["cmds"].append(f"cd coq && coq_makefile -f _CoqProject -o Makefile && make -j16 {target_v}o   # full .vo, {dt:.1f}s")
    if not ok:
        res["log_tail"] = mk_log[-3000:]
        m = re.search(r'File "\./([^"]+)", line (\d+)', mk_log)
        res["broken_file"] = f"{m.group(1)}:{m.group(2)}" if m else "unknown"
        res["failed"] = list(res["obligations"])
        return res
    # re-run coqc on the Properties file to capture the Print Assumptions output (make prints nothing when cached)
    tmpvo = C.fresh_tmp(f"prove-{mod.ID}") / (Path(target_v).stem + ".vo")
    rc, out, err, dt = C._run(["timeout", "600", "coqc"] + C.COQ_Q + ["-o", str(tmpvo), target_v], cwd=C.COQ, timeout=650)
    res["cmds"].append(f"cd coq && coqc -Q theories GV -Q generated GVgen {target_v}   # Print Assumptions, {dt:.1f}s")
    shutil.rmtree(tmpvo.parent, ignore_errors=True)
    if rc != 0:
        res["log_tail"] = (out + err)[-3000:]
        res["failed"] = list(res["obligations"])
        res["broken_file"] = target_v
        return res
    blocks = C.parse_print_assumptions(out)
    printed = re.findall(r"^\s*Print\s+Assumptions\s+([A-Za-z0-9_'.]+)\s*\.", src, re.M)
    allowed = set(getattr(mod, "ALLOWED_AXIOMS", []))
    for name in res["obligations"]:
        if name not in printed:
            res["failed"].append(name)
            res["axioms"][name] = ["<no Print Assumptions in source>"]
            continue
        i = printed.index(name)
        if i >= len(blocks):
            res["failed"].append(name)
            continue
        ax = [re.split(r"\s*:", l.strip())[0] for l in blocks[i] if re.match(r"^\S", l)]
        res["axioms"][name] = ax
        if all(a in allowed for a in ax):
            res["discharged"].append(name)
        else:
            res["failed"].append(name)
    if res["forbidden"]:
        res["failed"] = list(res["obligations"])
        res["discharged"] = []
    if tier == "thorough" and not res["failed"]:
        rc, out, err, dt = C._run(
            ["timeout", "1500", "coqchk", "-silent", "-o"] + C.COQ_Q + ["GV." + target_v[len("theories/"):-2].replace("/", ".")],
            cwd=C.COQ, timeout=1550,
        )
        res["cmds"].append(f"cd coq && coqchk -silent -o -Q theories GV -Q generated GVgen GV.{target_v[9:-2].replace('/', '.')}   # rc={rc}, {dt:.1f}s")
        res["coqchk_rc"] = rc
        res["coqchk_tail"] = (out + err)[-1500:]
        if rc != 0:
            res["failed"] = list(res["obligations"])
            res["discharged"] = []
            res["broken_file"] = "coqchk"
            res["log_tail"] = res["coqchk_tail"]
    return res


def run_driver(mod, cases, tag):
    """Run mod.drive_one on all cases in parallel subprocess shards; returns observations (same order)."""
    if not cases:
        return []
    work = C.fresh_tmp(f"drive-{mod.ID}-{tag}")
    nsh = max(1, min(int(os.environ.get("VERIF_JOBS", "12")), (len(cases) + 7) // 8))
    shards = [cases[i::nsh] for i in range(nsh)]
    procs = []
    for k, sh in enumerate(shards):
        cin, cout = work / f"in{k}.json", work / f"out{k}.json"
        cin.write_text(json.dumps(sh))
        p = subprocess.Popen(
            [C.PY, "-m", "vlib.drive", mod.ID, str(cin), str(cout), str(work / f"w{k}")],
            env=C.impl_env(), cwd=str(C.VERIF / "tools"), stdout=subprocess.PIPE, stderr=subprocess.PIPE, text=True,
        )
        procs.append((p, cout, len(sh)))
    outs = []
    # a shard gets 1500 s (quick) and at least 40 s per case in the thorough tier (machine load varies a lot); a shard that
    # times out or dies without a result is re-run ONCE on its own before its cases are reported as driver crashes
    tmo = max(int(getattr(mod, "DRIVE_TIMEOUT", 1500)), 40 * max(n for _, _, n in procs))

    def collect(p, cout, limit):
        try:
            so, se = p.communicate(timeout=limit)
        except subprocess.TimeoutExpired:
            p.kill()
            so, se = p.communicate()
            se += "\nDRIVER TIMEOUT"
        if cout.exists():
            try:
                return json.loads(cout.read_text()), se
            except Exception:  # noqa: BLE001
                pass
        return None, se

    for k, (p, cout, n) in enumerate(procs):
        res, se = collect(p, cout, tmo)
        if res is None:
            log(f"[{mod.ID}] driver shard {k} gave no result ({(se or '')[-120:].strip()!r}); re-running it once")
            cin = work / f"in{k}.json"
            if cout.exists():
                cout.unlink()
            p2 = subprocess.Popen(
                [C.PY, "-m", "vlib.drive", mod.ID, str(cin), str(cout), str(work / f"w{k}r")],
                env=C.impl_env(), cwd=str(C.VERIF / "tools"), stdout=subprocess.PIPE, stderr=subprocess.PIPE, text=True,
            )
            res, se = collect(p2, cout, 2 * tmo)
        if res is not None:
            outs.append(res)
        else:
            outs.append([{"crash": "driver-died: " + (se or "")[-800:]}] * n)
    obs = [None] * len(cases)
    for k, o in enumerate(outs):
        for j, x in enumerate(o):
            obs[k + j * nsh] = x
    shutil.rmtree(work, ignore_errors=True)
    return obs


def stage_correspond(mod, cases, obs, tag):
    """Evaluate the Coq model on every case inside Coq; returns (bad indices, skipped indices, cmds, err)."""
    terms = []
    skipped = []
    for i, (c, o) in enumerate(zip(cases, obs)):
        t = None
        if not (isinstance(o, dict) and "crash" in o and not getattr(mod, "MODEL_HANDLES_CRASH", False)):
            t = mod.case_term(c, o)
        if t is None:
            skipped.append(i)
        else:
            terms.append((i, t))
    cdir = C.COQ / "cases"
    cdir.mkdir(exist_ok=True)
    for old in cdir.glob(f"Cases_{mod.ID}_{tag}_*"):
        old.unlink()
    # the modules the case files import (checkers such as Model/WsXCheck.v are not in the closure of the Properties files, so
    # the prove stage does not rebuild them after a model or generated table changed): bring them up to date first
    deps = []
    for lib, names in re.findall(r"From\s+(GV|GVgen)\s+Require\s+(?:Import\s+|Export\s+)?([A-Za-z0-9_.\s]+?)\.(?:\s|$)", mod.CASE_IMPORTS):
        for nm in names.split():
            cand = (C.COQ / "generated" / (nm + ".v")) if lib == "GVgen" else (C.COQ / "theories" / Path(*nm.split(".")).with_suffix(".v"))
            if cand.exists():
                deps.append(str(cand.relative_to(C.COQ)) + "o")
    if deps:
        okd, logd, _ = C.coq_make(sorted(set(deps)))
        if not okd:
            log(f"[{mod.ID}] building the case imports failed: {logd[-600:]}")
    files = []
    chunk = int(getattr(mod, "CHUNK", CHUNK))
    for k in range(0, len(terms), chunk):
        part = terms[k : k + chunk]
        f = cdir / f"Cases_{mod.ID}_{tag}_{k // chunk}.v"
        body = [mod.CASE_IMPORTS, "Require Import List NArith. Import ListNotations.", "Definition results : list (N * bool) := ["]
        body.append(";\n".join(f"  ({i}%N, {t})" for i, t in part))
        body.append("].")
        body.append("Definition bad : list N := map fst (filter (fun p => negb (snd p)) results).")
        body.append("Eval vm_compute in bad.")
        f.write_text("\n".join(body) + "\n")
        files.append(f)
    bad, errs = [], []
    t0 = time.time()

    def one(f):
        return f, C.coqc_file(Path("cases") / f.name, timeout=900)

    with ThreadPoolExecutor(max_workers=8) as ex:
        for f, (rc, out, err, dt) in ex.map(one, files):
            if rc != 0:
                errs.append(f"{f.name}: rc={rc} {(out + err)[-1500:]}")
                continue
            lst = C.parse_nat_list(out, "")
            if lst is None:
                errs.append(f"{f.name}: unparsable output {out[-500:]}")
            else:
                bad.extend(lst)
    for f in files:
        for ext in (".vo", ".glob", ".vok", ".vos"):
            p = f.with_suffix(ext)
            if p.exists():
                p.unlink()
        aux = f.parent / ("." + f.stem + ".aux")
        if aux.exists():
            aux.unlink()
    cmd = f"cd coq && coqc -Q theories GV -Q generated GVgen cases/Cases_{mod.ID}_{tag}_*.v   # {len(files)} files, {len(terms)} cases, vm_compute, {time.time() - t0:.1f}s"
    return sorted(bad), skipped, cmd, errs


def model_output(mod, case, obs=None):
    f = getattr(mod, "model_term", None)
    if f is None:
        return None
    try:
        t = f(case)
    except Exception:  # noqa: BLE001
        return None
    if t is None:
        return None
    cdir = C.COQ / "cases"
    cdir.mkdir(exist_ok=True)
    p = cdir / f"Show_{mod.ID}_{os.getpid()}.v"
    p.write_text(mod.CASE_IMPORTS + "\nRequire Import List NArith ZArith. Import ListNotations.\nEval vm_compute in (" + t + ").\n")
    rc, out, err, _ = C.coqc_file(Path("cases") / p.name, timeout=120)
    for ext in (".v", ".vo", ".glob", ".vok", ".vos"):
        q = p.with_suffix(ext)
        if q.exists():
            q.unlink()
    aux = p.parent / ("." + p.stem + ".aux")
    if aux.exists():
        aux.unlink()
    return " ".join(out.split())[:4000] if rc == 0 else "coqc failed: " + (out + err)[-500:]


# ----------------------------------------------------------------------------- main
def main():
    args = [a for a in sys.argv[1:]]
    if not args:
        log(__doc__)
        return 2
    prop = args[0].upper()
    replay = None
    tier = os.environ.get("VERIF_TIER", "quick")
    rest = args[1:]
    while rest:
        a = rest.pop(0)
        if a in ("quick", "thorough"):
            tier = a
        elif a == "--replay":
            replay = rest.pop(0)
    if tier not in ("quick", "thorough"):
        tier = "quick"
    # one run per property at a time: a run regenerates coq/generated/* and coq/cases/Cases_<id>_* for its property from the
    # tree it checks, so two concurrent runs of the same property (e.g. /repo and a scratch worktree) must not interleave
    import fcntl

    lockdir = C.VERIF / "build" / "locks"
    lockdir.mkdir(parents=True, exist_ok=True)
    # properties that regenerate the SAME files under coq/generated share one lock (C10/C11: Tables_IO.v; C14/C15: PyLite_*.v
    # and the ui.json tables; C01/C02/C09: one workspace model and its generated case imports)
    group = {"C10": "io", "C11": "io", "C14": "ui", "C15": "ui", "C01": "ws", "C02": "ws", "C09": "ws"}.get(prop, prop)
    lockf = open(lockdir / f"{group}.lock", "w")
    fcntl.flock(lockf, fcntl.LOCK_EX)
    t0 = time.time()
    seed = C.seed_from_env()
    mod = importlib.import_module(f"props.{prop.lower()}")
    findings = [f for f in C.load_findings() if f["property"] == prop]
    open_keys = {f["key"]: f for f in findings if f.get("status") == "open"}

    violations = []  # (replay_path, has_input)
    known_hit = {}
    notes = []

    # ---- 1. regenerate
    regen_info, regen_err = {}, None
    if hasattr(mod, "regenerate"):
        try:
            regen_info = mod.regenerate(C.REPO) or {}
        except Exception as e:  # fail-closed: the obligation that needed the generated file is broken
            regen_err = f"{type(e).__name__}: {e}"
            notes.append("regeneration refused: " + regen_err)

    # ---- 2. prove
    pr = stage_prove(mod, tier)
    log(f"[{prop}] prove: {len(pr['discharged'])}/{len(pr['obligations'])} obligations discharged"
        + (f"; BROKEN at {pr.get('broken_file')}" if pr["failed"] else ""))
    if pr["forbidden"]:
        log(f"[{prop}] forbidden constructs: {pr['forbidden'][:5]}")
    model_ok = not pr["failed"] and regen_err is None

    # ---- 3./4. correspond + oracle
    rng = C.SplitMix(seed)
    if replay:
        rp = json.loads(Path(replay).read_text())
        cases = [rp["case"]] if "case" in rp else []
        if not cases:
            log(f"[{prop}] replay file names no input: broke={rp.get('broke')}")
    else:
        cases = []
        cdir = C.VERIF / "corpus" / prop
        if cdir.exists():
            for p in sorted(cdir.glob("*.json")):
                cases.append(json.loads(p.read_text())["case"])
        n_corpus = len(cases)
        cases += mod.generate(rng, tier)
    obs = run_driver(mod, cases, "main")
    bad, skipped, corr_cmd, corr_errs = ([], [], "", [])
    if model_ok or (C.COQ / mod.PROPERTIES_V).exists():
        # the model files may still compile even when a proof broke: try anyway, errors are reported
        bad, skipped, corr_cmd, corr_errs = stage_correspond(mod, cases, obs, "main")
    if corr_errs and model_ok:
        notes.append("correspondence evaluation failed: " + "; ".join(corr_errs)[:1500])
    log(f"[{prop}] correspond: {len(cases)} cases, {len(bad)} disagreements, {len(skipped)} not expressible in the model"
        + (f", {len(corr_errs)} case files failed to evaluate" if corr_errs else ""))

    fails = []  # (idx, failure)
    for i, (c, o) in enumerate(zip(cases, obs)):
        for f in mod.oracle(c, o) or []:
            fails.append((i, f))
    new_fail_idx = []
    for i, f in fails:
        k = f.get("key")
        if k in open_keys:
            known_hit.setdefault(k, (i, f))
        else:
            new_fail_idx.append((i, f))
    log(f"[{prop}] oracle: {len(fails)} failing observations ({len(new_fail_idx)} not listed in known_findings.json)")

    if replay:
        for i, c in enumerate(cases):
            log(json.dumps({"case": c, "observed": obs[i], "model": model_output(mod, c), "agrees": i not in bad,
                            "oracle": [f for j, f in fails if j == i]}, default=str)[:6000])

    # ---- 5. decide
    def report(i, f, broke):
        payload = {"property": prop, "tier": tier, "seed": seed, "case_index": i, "case": cases[i], "observed": obs[i],
                   "model_output": model_output(mod, cases[i]), "oracle_failure": f, "broke": broke,
                   "found_failing_input": True, "known_finding": None}
        path = C.write_replay(prop, payload)
        violations.append(path)
        log(f"VIOLATION property={prop} replay={path}")

    seen_keys = set()
    for i, f in new_fail_idx:
        k = f.get("key", "?")
        if k in seen_keys:
            continue
        seen_keys.add(k)
        report(i, f, {"kind": "oracle", "name": k})

    broken = []  # things that no longer check
    if regen_err:
        broken.append({"kind": "translator", "name": "regenerate", "detail": regen_err})
    if pr["failed"]:
        broken.append({"kind": "theorem", "name": ",".join(pr["failed"][:6]), "source": pr.get("broken_file"),
                       "detail": pr["log_tail"][-1200:], "axioms": {k: v for k, v in pr["axioms"].items() if v}})
    if corr_errs:
        broken.append({"kind": "correspondence", "name": "model evaluation failed", "detail": "; ".join(corr_errs)[:1200]})
    # a disagreement on a case whose failure is a listed known finding is still a disagreement: the model must follow the code
    for i in bad[:3]:
        broken.append({"kind": "correspondence", "name": f"case {i}", "case_index": i})
    crashed = [i for i, o in enumerate(obs) if isinstance(o, dict) and "crash" in o and str(o["crash"]).startswith("driver-died")]
    if crashed:
        broken.append({"kind": "correspondence", "name": "driver died", "detail": obs[crashed[0]]["crash"][:800]})

    if bad and violations and not replay:
        for i in bad[:3]:
            C.write_replay(prop, {"property": prop, "tier": tier, "seed": seed, "case_index": i, "case": cases[i], "observed": obs[i],
                                  "broke": {"kind": "correspondence", "name": f"case {i}"}, "found_failing_input": False,
                                  "note": "disagreement recorded next to the oracle violations of this run"})
    if broken and not violations and not replay:
        # search for a concrete failing input: more seeds through generator + oracle, time-boxed
        budget = 60 if tier == "quick" else 600
        ts = time.time()
        found = None
        rnd = 0
        while time.time() - ts < budget and found is None:
            rnd += 1
            more = mod.generate(C.SplitMix(seed + 7919 * rnd), "quick")
            mobs = run_driver(mod, more, f"search{rnd}")
            for c, o in zip(more, mobs):
                fl = [f for f in (mod.oracle(c, o) or []) if f.get("key") not in open_keys]
                if fl:
                    found = (c, o, fl[0])
                    break
        if found is None:
            # also try the disagreeing cases' own oracle verdicts (already none) -> no failing input
            b = broken[0]
            payload = {"property": prop, "tier": tier, "seed": seed, "broke": broken, "found_failing_input": False,
                       "searched": f"{rnd} extra generator rounds in {time.time() - ts:.0f}s, oracle never failed on an unlisted input"}
            if b.get("case_index") is not None:
                i = b["case_index"]
                payload.update({"case": cases[i], "observed": obs[i], "model_output": model_output(mod, cases[i])})
            path = C.write_replay(prop, payload)
            violations.append(path)
            log(f"VIOLATION property={prop} replay={path} no-failing-input-found")
        else:
            c, o, f = found
            payload = {"property": prop, "tier": tier, "seed": seed, "case": c, "observed": o, "model_output": model_output(mod, c),
                       "oracle_failure": f, "broke": broken, "found_failing_input": True}
            path = C.write_replay(prop, payload)
            violations.append(path)
            log(f"VIOLATION property={prop} replay={path}")

    for k, (i, f) in sorted(known_hit.items()):
        log(f"KNOWN-FINDING: property={prop} {k}: {open_keys[k]['what']}")
    # an open finding whose witness no longer fails is worth a note (the defect may have been repaired)
    for k in open_keys:
        if k not in known_hit and not replay:
            notes.append(f"open finding {k} was not reproduced in this run")

    # ---- 6. evidence
    nontriv = set()
    for c, o in zip(cases, obs):
        try:
            if mod.nontrivial(c, o):
                nontriv.add(json.dumps(c, sort_keys=True, default=str))
        except Exception:  # noqa: BLE001
            pass
    hist = {}
    if hasattr(mod, "histogram"):
        try:
            hist = mod.histogram(cases, obs)
        except Exception as e:  # noqa: BLE001
            hist = {"error": str(e)}
    samples = [{"case": cases[i], "observed": obs[i]} for i in range(0, len(cases), max(1, len(cases) // 3))][:3]
    ev = {
        "property_id": prop, "tier": tier, "seed": seed, "level": "proof",
        "coverage": {
            "obligations": len(pr["obligations"]), "discharged": len(pr["discharged"]),
            "obligation_names": pr["obligations"], "axioms_per_theorem": pr["axioms"],
            "checker_cmd": " ; ".join(pr["cmds"] + ([corr_cmd] if corr_cmd else [])),
            "trusted_base": list(getattr(mod, "TRUSTED", [])),
            "coq_closure": pr.get("closure", []),
            "evaluations": len(cases), "distinct_nontrivial": len(nontriv),
            "rule": getattr(mod, "RULE", ""),
            "samples": json.loads(json.dumps(samples, default=str))[:3],
            "correspondence": {"cases": len(cases), "compared_in_coq": len(cases) - len(skipped), "disagreements": len(bad),
                               "not_expressible": len(skipped)},
            "oracle": {"failing_observations": len(fails), "unlisted": len(new_fail_idx), "known_findings_hit": sorted(known_hit)},
            "histograms": hist, "tables": regen_info.get("tables", {}) if isinstance(regen_info, dict) else {},
            "refuted": getattr(mod, "REFUTED", []), "partial": getattr(mod, "PARTIAL", []),
            "notes": notes,
        },
        "assumptions": list(getattr(mod, "ASSUMPTIONS", [])),
        "wall_s": round(time.time() - t0, 2),
        "violations": len(violations),
    }
    if not replay:
        C.write_evidence(prop, ev)
    log(f"[{prop}] {tier} done in {time.time() - t0:.1f}s: {'VIOLATIONS=' + str(len(violations)) if violations else 'ok'}")
    return 1 if violations else 0


if __name__ == "__main__":
    sys.exit(main())
