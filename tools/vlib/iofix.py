"""Fixture workspace + entry-point reflection shared by the C10 / C11 checks.

build_fixture(path)   writes a geoh5 file holding one instance of as many concrete geoh5py classes as can be built
                      (each in its own try/except: a class that cannot be built is reported, not fatal).
entry_points()        every public setter / method of Entity, EntityType, PropertyGroup, Workspace subclasses (reflection),
                      as (owner class name, member name, kind).
targets(ws)           name -> live instance of the fixture, located by name in an opened workspace.

Everything imports geoh5py lazily: the module is imported by tools/check.py (outside $VERIF_REPO) for the static parts only.
"""
from __future__ import annotations

import hashlib
import inspect

# ----------------------------------------------------------------------------------------------- fixture
FIXTURE_NAMES = [
    "pts", "curve", "surf", "grid2d", "blockmodel", "octree", "drape", "drillhole", "geoimage", "label", "notype",
    "atem_rx", "atem_tx", "afem_rx", "mt_rx", "tip_rx", "tip_base", "lltem_rx", "lltem_tx", "mltem_rx", "mltem_tx",
    "dc_tx", "dc_rx", "container", "subgroup", "simpeg", "uijson", "dhgroup", "cdh",
]


def _try(log, label, fn):
    try:
        return fn()
    except BaseException as e:  # noqa: BLE001 - the fixture is best effort, the failure is reported
        log.append(f"{label}: {type(e).__name__}: {str(e)[:120]}")
        return None


def build_fixture(path):
    """Create the fixture file at `path` (must not exist). Returns the list of build problems (normally empty)."""
    import numpy as np
    from geoh5py import Workspace
    from geoh5py import groups as G
    from geoh5py import objects as O
    from geoh5py.data import DataAssociationEnum  # noqa: F401

    log: list = []
    xyz = np.array([[0.0, 0, 0], [1, 0, 0], [2, 1, 0], [3, 1, 1], [4, 2, 1], [5, 2, 2]])
    with Workspace.create(path) as ws:
        cont = _try(log, "container", lambda: G.ContainerGroup.create(ws, name="container"))
        _try(log, "subgroup", lambda: G.ContainerGroup.create(ws, name="subgroup", parent=cont))
        _try(log, "simpeg", lambda: G.SimPEGGroup.create(ws, name="simpeg"))

        def uij():
            g = G.UIJsonGroup.create(ws, name="uijson")
            g.options = {"title": "t", "run_command": "x"}
            return g

        _try(log, "uijson", uij)

        def pts():
            p = O.Points.create(ws, vertices=xyz, name="pts", parent=cont)
            d = [p.add_data({"f": {"values": np.arange(6.0)}}),
                 p.add_data({"i": {"values": np.arange(6, dtype="int32"), "type": "integer"}})]
            for nm, spec in {
                "b": {"values": np.array([True, False] * 3), "type": "boolean"},
                "t": {"values": np.array(["a", "b", "c", "d", "e", "f"]), "type": "text"},
                "r": {"values": np.array([1, 2, 1, 2, 1, 2], dtype="int32"), "type": "referenced",
                      "value_map": {1: "one", 2: "two"}},
            }.items():
                _try(log, "pts." + nm, lambda nm=nm, spec=spec: p.add_data({nm: spec}))
            _try(log, "pts.visual", p.add_default_visual_parameters)
            p.add_data({"f2": {"values": np.arange(6.0) * 2}})
            p.add_comment("a comment", "me")
            p.find_or_create_property_group(name="pg", properties=[d[0].uid, d[1].uid])
            p.metadata = {"k": "v"}
            return p

        _try(log, "pts", pts)

        def filename():
            p = ws.get_entity("pts")[0]
            import tempfile, os
            fd, fn = tempfile.mkstemp(suffix=".txt")
            os.write(fd, b"hello")
            os.close(fd)
            try:
                p.add_file(fn)
            finally:
                os.remove(fn)

        _try(log, "filename", filename)

        def curve():
            c = O.Curve.create(ws, vertices=xyz, name="curve")
            c.add_data({"cv": {"values": np.arange(6.0)}, "cc": {"values": np.arange(5.0), "association": "CELL"}})
            return c

        _try(log, "curve", curve)
        _try(log, "surf", lambda: O.Surface.create(
            ws, vertices=xyz, cells=np.array([[0, 1, 2], [1, 2, 3], [2, 3, 4]]), name="surf").add_data(
            {"sv": {"values": np.arange(6.0)}}))
        _try(log, "grid2d", lambda: O.Grid2D.create(
            ws, origin=[0, 0, 0], u_cell_size=1.0, v_cell_size=2.0, u_count=3, v_count=2, name="grid2d").add_data(
            {"gv": {"values": np.arange(6.0)}}))
        _try(log, "blockmodel", lambda: O.BlockModel.create(
            ws, origin=[0, 0, 0], u_cell_delimiters=np.array([0.0, 1, 2]), v_cell_delimiters=np.array([0.0, 1, 2]),
            z_cell_delimiters=np.array([0.0, -1, -2]), name="blockmodel"))

        def octree():
            m = O.Octree.create(ws, origin=[0, 0, 0], u_count=4, v_count=4, w_count=4, u_cell_size=1.0, v_cell_size=1.0,
                                w_cell_size=1.0, name="octree")
            m.octree_cells  # noqa: B018 - default cells
            return m

        _try(log, "octree", octree)

        def drape():
            n_col, n_row = 4, 2
            j, i = np.meshgrid(np.arange(n_row), np.arange(n_col))
            bottom = -(j + 1.0)
            layers = np.c_[i.flatten(), j.flatten(), bottom.flatten()]
            prisms = np.c_[np.arange(n_col) * 1.0, np.zeros(n_col), np.zeros(n_col), np.arange(0, n_col * n_row, n_row),
                           np.tile(n_row, n_col)]
            return O.DrapeModel.create(ws, layers=layers, prisms=prisms, name="drape")

        _try(log, "drape", drape)

        def drillhole():
            dh = O.Drillhole.create(ws, collar=np.r_[0.0, 10.0, 10], surveys=np.c_[
                np.linspace(0, 100, 5), np.ones(5) * 45.0, np.linspace(-89, -75, 5)], name="drillhole",
                default_collocation_distance=1e-2)
            dh.add_data({"log": {"depth": np.arange(0, 50.0, 10.0), "values": np.arange(5.0)}})
            dh.add_data({"interval": {"from-to": np.c_[np.arange(0, 40.0, 10.0), np.arange(10.0, 50.0, 10.0)],
                                      "values": np.arange(4.0)}})
            return dh

        _try(log, "drillhole", drillhole)

        def geoimage():
            img = np.arange(48, dtype="uint8").reshape(4, 4, 3)
            g = O.GeoImage.create(ws, name="geoimage", image=img)
            g.georeference(np.array([[0, 0], [3, 0], [3, 3]]), np.array([[0.0, 0, 0], [3, 0, 0], [3, 3, 0]]))
            return g

        _try(log, "geoimage", geoimage)
        _try(log, "label", lambda: O.Label.create(ws, name="label"))
        _try(log, "notype", lambda: O.NoTypeObject.create(ws, name="notype"))

        def em(rx_cls, tx_cls, rx_name, tx_name, curve_like=False):
            kw = {}
            rx = rx_cls.create(ws, vertices=xyz, name=rx_name, **kw)
            if tx_cls is not None:
                tx = tx_cls.create(ws, vertices=xyz + 10.0, name=tx_name, **kw)
                rx.transmitters = tx
            try:
                rx.channels = [1.0, 2.0]
            except BaseException:  # noqa: BLE001
                pass
            return rx

        _try(log, "atem", lambda: em(O.AirborneTEMReceivers, O.AirborneTEMTransmitters, "atem_rx", "atem_tx"))
        _try(log, "afem", lambda: em(O.AirborneFEMReceivers, O.AirborneFEMTransmitters, "afem_rx", "afem_tx"))
        _try(log, "mt", lambda: em(O.MTReceivers, None, "mt_rx", None))

        def tipper():
            rx = O.TipperReceivers.create(ws, vertices=xyz, name="tip_rx")
            base = O.TipperBaseStations.create(ws, vertices=xyz[:1], name="tip_base")
            rx.base_stations = base
            rx.channels = [30.0, 45.0]
            return rx

        _try(log, "tipper", tipper)
        _try(log, "mltem", lambda: em(O.MovingLoopGroundTEMReceivers, O.MovingLoopGroundTEMTransmitters, "mltem_rx", "mltem_tx"))

        def largeloop():
            rx = O.LargeLoopGroundTEMReceivers.create(ws, vertices=xyz, name="lltem_rx")
            loop = np.array([[0.0, 0, 0], [10, 0, 0], [10, 10, 0], [0, 10, 0]])
            tx = O.LargeLoopGroundTEMTransmitters.create(ws, vertices=loop, name="lltem_tx")
            tx.tx_id_property = np.ones(tx.n_cells, dtype="int32")
            rx.transmitters = tx
            rx.tx_id_property = np.ones(rx.n_vertices, dtype="int32")
            return rx

        _try(log, "largeloop", largeloop)

        def dcip():
            n = 6
            verts = np.c_[np.arange(n) * 1.0, np.zeros(n), np.zeros(n)]
            cur = O.CurrentElectrode.create(ws, name="dc_tx", vertices=verts, parts=np.zeros(n, dtype=int))
            cur.add_default_ab_cell_id()
            pot = O.PotentialElectrode.create(ws, name="dc_rx", vertices=verts,
                                              cells=np.array([[2, 3], [3, 4], [4, 5]], dtype="uint32"))
            pot.ab_cell_id = np.array([1, 1, 2], dtype="int32")
            pot.current_electrodes = cur
            return pot

        _try(log, "dcip", dcip)

        def concat():
            dg = G.DrillholeGroup.create(ws, name="dhgroup")
            for k in range(2):
                dh = O.Drillhole.create(ws, collar=np.r_[0.0, 10.0 * k, 10], surveys=np.c_[
                    np.linspace(0, 100, 5), np.ones(5) * 45.0, np.linspace(-89, -75, 5)], name="cdh" if k == 0 else f"cdh{k}",
                    parent=dg)
                dh.add_data({"clog": {"depth": np.arange(0, 50.0, 10.0), "values": np.arange(5.0) + k}},
                            property_group="cpg")
            return dg

        _try(log, "concat", concat)
    return log


def locate(ws, name):
    """The fixture entity called `name` (first match), loaded through the public API."""
    for e in ws.get_entity(name):
        if e is not None:
            return e
    # concatenated holes are not listed by get_entity until their group's children are fetched
    for g in ws.groups:
        for ch in getattr(g, "children", []):
            if getattr(ch, "name", None) == name:
                return ch
    return None


def derived_targets(ws):
    """label -> callable returning an instance reached from the named fixture entities (data, types, property groups)."""
    def child(owner, nm):
        def get():
            o = locate(ws, owner)
            return None if o is None else next((c for c in o.children if getattr(c, "name", None) == nm), None)
        return get

    def typ(owner, nm=None):
        def get():
            o = child(owner, nm)() if nm else locate(ws, owner)
            return None if o is None else o.entity_type
        return get

    def pg(owner, nm):
        def get():
            o = locate(ws, owner)
            return None if o is None or not getattr(o, "property_groups", None) else next(
                (p for p in o.property_groups if p.name == nm), None)
        return get

    d = {n: (lambda n=n: locate(ws, n)) for n in FIXTURE_NAMES}
    d.update({
        "data_float": child("pts", "f"), "data_int": child("pts", "i"), "data_bool": child("pts", "b"),
        "data_text": child("pts", "t"), "data_ref": child("pts", "r"), "data_comments": child("pts", "UserComments"),
        "data_cell": child("curve", "cc"), "data_dh": child("drillhole", "log"), "data_concat": child("cdh", "clog"),
        "data_file": lambda: next((c for c in (locate(ws, "pts").children if locate(ws, "pts") else [])
                                   if type(c).__name__ == "FilenameData"), None),
        "visual": lambda: getattr(locate(ws, "pts"), "visual_parameters", None),
        "type_float": typ("pts", "f"), "type_ref": typ("pts", "r"), "type_object": typ("pts"), "type_group": typ("container"),
        "pg": pg("pts", "pg"), "pg_concat": pg("cdh", "cpg"), "root": lambda: ws.root, "workspace": lambda: ws,
    })
    return d


# ----------------------------------------------------------------------------------------------- reflection
def all_classes():
    import importlib
    import pkgutil

    import geoh5py
    from geoh5py.groups import PropertyGroup
    from geoh5py.shared import Entity, EntityType
    from geoh5py.workspace import Workspace

    classes = set()
    for m in pkgutil.walk_packages(geoh5py.__path__, "geoh5py."):
        try:
            mod = importlib.import_module(m.name)
        except Exception:  # noqa: BLE001
            continue
        for _, c in inspect.getmembers(mod, inspect.isclass):
            if c.__module__.startswith("geoh5py"):
                classes.add(c)
    roots = (Entity, EntityType, PropertyGroup, Workspace)
    return sorted((c for c in classes if issubclass(c, roots)), key=lambda c: (c.__module__, c.__name__))


def entry_points():
    """[(owner, member, kind)] with kind in setter|getter|method, one per defining class (public names only)."""
    seen = {}
    for c in all_classes():
        for name, _ in inspect.getmembers(c):
            if name.startswith("_"):
                continue
            owner = next((k for k in c.__mro__ if name in k.__dict__), None)
            if owner is None or not owner.__module__.startswith("geoh5py"):
                continue
            raw = owner.__dict__[name]
            if isinstance(raw, property):
                kind = "setter" if raw.fset else "getter"
                seen.setdefault((owner.__name__, name, "getter"), None)
                if raw.fset:
                    seen.setdefault((owner.__name__, name, "setter"), None)
                continue
            if callable(raw) or isinstance(raw, (classmethod, staticmethod)):
                kind = "method"
            else:
                continue
            seen.setdefault((owner.__name__, name, kind), None)
    return sorted(seen)


def sha256(path):
    h = hashlib.sha256()
    with open(path, "rb") as f:
        for blk in iter(lambda: f.read(1 << 20), b""):
            h.update(blk)
    return h.hexdigest()
