"""Run a property module's implementation driver on a shard of cases (subprocess entry point).

usage: python -m vlib.drive Cxx cases.json obs.json workdir
The module's drive_one(case, workdir) runs the *real* geoh5py (from $PYTHONPATH, i.e. $VERIF_REPO) and returns a
JSON-serialisable observation; exceptions escaping it are recorded as {"crash": "<ExcType>: msg"}.
"""
import importlib
import json
import os
import sys
import traceback
import warnings


def main():
    prop, cin, cout, work = sys.argv[1:5]
    warnings.simplefilter("ignore")
    mod = importlib.import_module(f"props.{prop.lower()}")
    cases = json.load(open(cin))
    out = []
    os.makedirs(work, exist_ok=True)
    for i, case in enumerate(cases):
        try:
            out.append(mod.drive_one(case, work))
        except BaseException as e:  # noqa: BLE001 - the observation of a crash is data
            if isinstance(e, KeyboardInterrupt):
                raise
            out.append({"crash": f"{type(e).__name__}: {e}", "tb": traceback.format_exc()[-1500:]})
    json.dump(out, open(cout, "w"))


if __name__ == "__main__":
    main()
