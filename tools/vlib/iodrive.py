"""Driver primitives shared by tools/props/c10.py and c11.py (run inside driver subprocesses, geoh5py from $VERIF_REPO)."""
from __future__ import annotations

import gc
import hashlib
import os
import shutil
import warnings

from vlib import ioentries, iofix, iotrace
from vlib.ioentries import Injected, NotDriven

_FIX = {}


def fixture(work):
    """path of the per-process fixture file (built once), and the list of build problems"""
    key = os.path.realpath(work)
    if key not in _FIX:
        os.makedirs(work, exist_ok=True)
        p = os.path.join(work, f"fixture_{os.getpid()}.geoh5")
        if os.path.exists(p):
            os.remove(p)
        with warnings.catch_warnings():
            warnings.simplefilter("ignore")
            log = iofix.build_fixture(p)
        _FIX[key] = (p, log)
    return _FIX[key]


def fresh_copy(work, tag):
    src, log = fixture(work)
    dst = os.path.join(work, f"{tag}_{os.getpid()}.geoh5")
    if os.path.exists(dst):
        os.remove(dst)
    shutil.copyfile(src, dst)
    return dst, log


def content_digest(path):
    """digest of the logical HDF5 content (names, attributes, dataset values) -- used for the r+ twin only"""
    import h5py
    import numpy as np

    h = hashlib.sha256()

    def val(v):
        a = np.asarray(v)
        if a.dtype.kind in "OSU":
            return repr(a.astype(str).tolist()).encode()
        if a.dtype.names:
            return repr(a.tolist()).encode()
        return a.tobytes() + str(a.dtype).encode() + str(a.shape).encode()

    def visit(name, obj):
        h.update(b"\0N" + name.encode())
        for k in sorted(obj.attrs):
            h.update(b"\0A" + k.encode())
            try:
                h.update(val(obj.attrs[k]))
            except Exception as e:  # noqa: BLE001
                h.update(repr(e).encode())
        if isinstance(obj, h5py.Dataset):
            try:
                h.update(val(obj[()]))
            except Exception as e:  # noqa: BLE001
                h.update(repr(e).encode())

    with h5py.File(path, "r") as f:
        f.visititems(visit)
    return h.hexdigest()


def _h5name(ws):
    f = ws.h5file
    # an in-memory File is named after the repr of its BytesIO object (stable across close / open)
    return os.path.realpath(str(f)) if isinstance(f, (str, os.PathLike)) else repr(f)


def call_traced(thunk, ws=None):
    """run thunk under a trace; returns exception kind, message, the _io_call's of `ws` and the top-level H5 routine entries on
    the file(s) `ws` points at (before / after the call); calls and entries of other workspaces are only counted"""
    exc, msg = None, ""
    names = {_h5name(ws)} if ws is not None else set()
    rp0 = bool(getattr(ws, "_repack", False))
    ret = "n/a"
    with iotrace.Trace() as t:
        try:
            r = thunk()
            try:
                ret = "empty" if r is None or (hasattr(r, "__len__") and len(r) == 0) else "nonempty"
            except BaseException:  # noqa: BLE001
                ret = "nonempty"
            del r
        except BaseException as e:  # noqa: BLE001
            if isinstance(e, (KeyboardInterrupt, SystemExit, MemoryError)):
                raise
            exc, msg = iotrace.exc_kind(e), str(e)[:160]
    if ws is not None:
        names.add(_h5name(ws))
    mine = [c for c in t.calls if ws is None or c["ws"] == id(ws)]
    ents = [e for e in t.entries if ws is None or e["hfile"] in names or os.path.realpath(e["hfile"]) in names]
    return {"calls": [[c["fn"], c["mode"], c["file"], c["line"], c["handle"], c["out"], c["repack"], c["in_close"]] for c in mine],
            "entries": [[e["fn"], e["hmode"], e["out"]] for e in ents],
            "foreign_calls": len(t.calls) - len(mine), "foreign_entries": len(t.entries) - len(ents),
            "repack_before": rp0, "repack_after": bool(getattr(ws, "_repack", False)), "returned": ret,
            "exc": exc, "msg": msg}


def open_ws(path, mode):
    from geoh5py import Workspace

    return Workspace(path, mode=mode)


def dead_count(ws, kind):
    reg = {"data": ws._data, "objects": ws._objects, "groups": ws._groups, "types": ws._types,  # noqa: SLF001
           "property_groups": ws._property_groups}[kind]  # noqa: SLF001
    return sum(1 for v in reg.values() if v() is None)


def run_entry(work, mode, entry, state="open", tag="e", hold=False):
    """One entry point on a fresh copy of the fixture opened with `mode`; state 'closed': the workspace is closed (after the
    operands were located) before the call."""
    path, log = fresh_copy(work, tag + mode.replace("+", "p"))
    tmp = os.path.join(work, f"tmp_{os.getpid()}")
    os.makedirs(tmp, exist_ok=True)
    res = {"fixture_problems": log}
    sha0 = iofix.sha256(path)
    holder = None
    if hold:            # another handle keeps the file open read-only: h5py.File(path, "r+") raises OSError, open() falls back to "r"
        import h5py

        holder = h5py.File(path, "r")
    with warnings.catch_warnings():
        warnings.simplefilter("ignore")
        ws = open_ws(path, mode)
        try:
            T = iofix.derived_targets(ws)
            try:
                thunk = ioentries.prepare(ws, T, entry, tmp)
            except NotDriven as e:
                res["not_driven"] = str(e)
                return res
            except BaseException as e:  # noqa: BLE001
                res["not_driven"] = f"prepare raised {type(e).__name__}: {str(e)[:100]}"
                return res
            if state == "closed":
                ws.close()
            res["handle_before"] = iotrace.handle_state(ws)
            res.update(call_traced(thunk, ws))
            res["handle_after"] = iotrace.handle_state(ws)
            res["sha_same_open"] = iofix.sha256(path) == sha0 if mode == "r" or state == "closed" or hold else None
        finally:
            try:
                ws.close()
            except BaseException as e:  # noqa: BLE001
                res["close_exc"] = iotrace.exc_kind(e)
            if ws._geoh5:  # noqa: SLF001
                ws._geoh5.close()  # noqa: SLF001
            if holder is not None:
                holder.close()
    res["sha_same"] = iofix.sha256(path) == sha0
    res["nfiles"] = iotrace.n_open_files()
    if mode != "r" and state == "open":
        res["digest"] = content_digest(path)
    del ws
    gc.collect()
    shutil.rmtree(tmp, ignore_errors=True)
    os.remove(path)
    return res


_BASE = {}


def baseline_digest(work):
    """content digest of the fixture after `open r+; close` with no operation in between"""
    key = os.path.realpath(work)
    if key not in _BASE:
        path, _ = fresh_copy(work, "base")
        with warnings.catch_warnings():
            warnings.simplefilter("ignore")
            ws = open_ws(path, "r+")
            ws.close()
        _BASE[key] = content_digest(path)
        os.remove(path)
    return _BASE[key]


def reflect(work):
    """entry points (reflection on $VERIF_REPO's geoh5py) and the class MRO of every fixture target"""
    path, log = fixture(work)
    with warnings.catch_warnings():
        warnings.simplefilter("ignore")
        ws = open_ws(path, "r")
        T = iofix.derived_targets(ws)
        mros = {}
        for lab, f in T.items():
            try:
                o = f()
            except BaseException:  # noqa: BLE001
                o = None
            if o is not None:
                mros[lab] = [k.__name__ for k in type(o).__mro__ if k.__module__.startswith("geoh5py")]
        ws.close()
    return {"entries": [list(e) for e in iofix.entry_points()], "mros": mros, "fixture_problems": log}


def n_concatenators(ws):
    from geoh5py.shared.concatenation import Concatenator

    return sum(1 for r in ws._groups.values() if isinstance(r(), Concatenator))  # noqa: SLF001
