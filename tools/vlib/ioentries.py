"""How to call each public entry point of geoh5py on a fixture entity (C10 / C11 drivers).  Imported inside driver subprocesses.

prepare(ws, T, entry, tmp) -> thunk   builds the arguments *outside* the trace (reading current values, locating operands) and
                                      returns a zero-argument callable that performs exactly the entry point call.
A recipe that cannot be prepared raises NotDriven(reason): the entry point is reported as not driven, never silently skipped.
"""
from __future__ import annotations

import os
import uuid


class NotDriven(Exception):
    pass


class Injected(Exception):
    """the caller's own exception inside a with-block"""


def _first(it, pred=lambda x: True):
    return next((x for x in it if pred(x)), None)


def _need(x, what):
    if x is None:
        raise NotDriven("no " + what)
    return x


def _children(o, kind=None):
    from geoh5py.data import Data
    from geoh5py.groups import PropertyGroup

    out = []
    for c in getattr(o, "children", []) or []:
        if kind == "data" and not isinstance(c, Data):
            continue
        if kind == "nonpg" and isinstance(c, PropertyGroup):
            continue
        out.append(c)
    return out


SETTER_DEFAULTS = {
    "metadata": {"verif": 1}, "coordinate_reference_system": {"Code": "EPSG:4326", "Name": "WGS 84"},
    "description": "descr", "units": "m", "name": "renamed", "last_focus": "None", "options": {"title": "t2"},
    "cost": 1.0, "planning": "Default", "end_of_hole": 10.0, "current_line_id": None, "tag": None,
    "unit": None, "input_type": None, "timing_mark": 1.0, "waveform": None, "number_of_bins": 50, "hidden": False,
    "transparent_no_data": True, "mapping": "linear", "file_name": "f.txt",
}


def setter_value(o, member, T):
    """a valid value for the setter: the attribute's current value (so that the write path runs and nothing else changes),
    or a default when the attribute is unset"""
    import numpy as np

    if member == "parent":
        from geoh5py.data import Data
        from geoh5py.groups import RootGroup

        if isinstance(o, RootGroup):
            return o
        if isinstance(o, Data):
            return _need(T["curve"]() if o.parent is not T["curve"]() else T["pts"](), "other parent")
        cur = o.parent
        cand = T["subgroup"]() if getattr(cur, "name", "") != "subgroup" else T["container"]()
        return _need(cand, "other parent")
    if member == "uid":
        return uuid.UUID(int=0xC10)
    if member == "workspace":
        return o.workspace
    if member == "h5file":
        return "/nonexistent/other.geoh5"
    if member == "colour":
        return [10, 20, 30]
    try:
        cur = getattr(o, member)
    except BaseException as e:  # noqa: BLE001
        raise NotDriven(f"getter raises {type(e).__name__}") from e
    if cur is None:
        if member in SETTER_DEFAULTS and SETTER_DEFAULTS[member] is not None:
            return SETTER_DEFAULTS[member]
        if member == "loop_radius":
            return 2.0
        if member in ("crossline_offset", "inline_offset", "vertical_offset", "pitch", "roll", "yaw"):
            return 1.5
        if member == "relative_to_bearing":
            return True
        if member == "ab_cell_id":
            return np.ones(getattr(o, "n_cells", 1) or 1, dtype="int32")
        if member == "color_map":
            return np.array([(0.0, 0, 0, 0, 255), (1.0, 255, 255, 255, 255)],
                            dtype=[("Value", "<f8"), ("Red", "u1"), ("Green", "u1"), ("Blue", "u1"), ("Alpha", "u1")])
        if member == "value_map":
            return {0: "Unknown", 1: "one"}
        if member == "visual_parameters":
            raise NotDriven("no visual parameters on this entity")
        raise NotDriven("attribute is None and there is no default")
    if isinstance(cur, np.ndarray):
        return cur.copy()
    if isinstance(cur, dict):
        return dict(cur)
    return cur


def method_args(o, owner, member, ws, T, tmp, arg=None):
    """(args, kwargs) for a public method; `arg` = label of the fixture entity to pass to Workspace.fetch_* instead of the default"""
    import numpy as np
    from geoh5py.data import Data
    from geoh5py.groups import Group, PropertyGroup
    from geoh5py.objects import Drillhole, ObjectBase, Points
    from geoh5py.shared import Entity, EntityType
    from geoh5py.workspace import Workspace

    nv = getattr(o, "n_vertices", None)
    xyz = np.array([[0.5, 0.5, 0.0], [1.5, 0.5, 0.0]])
    extent = np.array([[-1.0, -1.0, -10.0], [2.5, 2.5, 10.0]])
    data_child = _first(_children(o, "data"))
    m = member

    if isinstance(o, Workspace):
        pts = T["pts"]()
        table = {
            "create_entity": lambda: ((Points,), {"entity": {"vertices": xyz, "name": "made"}}),
            "copy_to_parent": lambda: ((_need(pts, "pts"), _need(T["subgroup"](), "subgroup")), {}),
            "remove_entity": lambda: ((_need(T["curve"](), "curve"),), {}),
            "remove_recursively": lambda: ((_need(T["surf"](), "surf"),), {}),
            "remove_children": lambda: ((_need(pts, "pts"), [_need(_first(_children(pts, "data")), "data child")]), {}),
            "save_entity": lambda: ((_need(pts, "pts"),), {}),
            "save_entity_type": lambda: ((_need(pts, "pts").entity_type,), {}),
            "update_attribute": lambda: ((_need(pts, "pts"), "attributes"), {}),
            "add_or_update_property_group": lambda: ((_need(T["pg"](), "pg"),), {}),
            "remove_none_referents": lambda: ((ws._data, "Data"), {}),  # noqa: SLF001
            "finalize": lambda: ((), {}), "close": lambda: ((), {}), "open": lambda: ((), {}),
            "fetch_or_create_root": lambda: ((), {}),
            "fetch_children": lambda: ((_need(T[arg]() if arg else pts, "entity"),), {}),
            "fetch_array_attribute": lambda: ((_need(T["curve"](), "curve"), "cells"), {}),
            "fetch_values": lambda: ((_need(T[arg]() if arg else T["data_float"](), "data"),), {}),
            "fetch_metadata": lambda: ((_need(T[arg]() if arg else pts, "entity").uid,), {}),
            "fetch_type": lambda: ((_need(pts, "pts").entity_type.uid, "Object"), {}),
            "fetch_file_object": lambda: ((_need(T["data_file"](), "file data").uid, "x.txt"), {}),
            "fetch_concatenated_attributes": lambda: ((_need(T["dhgroup"](), "dhgroup"),), {}),
            "fetch_concatenated_list": lambda: ((_need(T["dhgroup"](), "dhgroup"), "Index"), {}),
            "fetch_concatenated_values": lambda: ((_need(T["dhgroup"](), "dhgroup"), "clog"), {}),
            "load_entity": lambda: ((_need(pts, "pts").uid, "object"), {}),
            "register": lambda: ((_need(pts, "pts"),), {}),
            "save_as": lambda: ((os.path.join(tmp, f"saved_{uuid.uuid4().hex[:8]}.geoh5"),), {}),
            "save": lambda: ((os.path.join(tmp, f"saved_{uuid.uuid4().hex[:8]}.geoh5"),), {}),
            "create": lambda: ((os.path.join(tmp, f"made_{uuid.uuid4().hex[:8]}.geoh5"),), {}),
            "activate": lambda: ((), {}), "deactivate": lambda: ((), {}),
            "get_entity": lambda: (("pts",), {}), "find_entity": lambda: ((_need(pts, "pts").uid,), {}),
            "find_data": lambda: ((uuid.uuid4(),), {}), "find_group": lambda: ((uuid.uuid4(),), {}),
            "find_object": lambda: ((uuid.uuid4(),), {}), "find_property_group": lambda: ((uuid.uuid4(),), {}),
            "find_type": lambda: ((uuid.uuid4(), type(_need(pts, "pts").entity_type)), {}),
            "create_object_or_group": lambda: ((Points, {"vertices": xyz, "parent": ws.root}, {}), {}),
            "copy_property_groups": lambda: ((_need(T["curve"](), "curve"), [_need(T["pg"](), "pg")],
                                              {u: u for u in (_need(T["pg"](), "pg").properties or [])}), {}),
        }
        if m in table:
            return table[m]()
        raise NotDriven("no recipe for Workspace." + m)

    if isinstance(o, PropertyGroup):
        par = o.parent
        other = _first(_children(par, "data"), lambda d: d.uid not in (o.properties or []))
        inside = _first(_children(par, "data"), lambda d: d.uid in (o.properties or []))
        if m == "add_properties":
            return ((_need(other, "data outside the group"),), {})
        if m == "remove_properties":
            return ((_need(inside, "data inside the group"),), {})
        raise NotDriven("no recipe for PropertyGroup." + m)

    if isinstance(o, EntityType):
        if m == "copy":
            return ((), {})
        if m in ("find_or_create", "create"):
            return ((ws,), {"name": "made type"} if m == "create" else {"uid": uuid.uuid4(), "name": "made type"})
        if m == "create_custom":
            return ((ws,), {"name": "custom made"})
        if m in ("for_x_data", "for_y_data", "for_z_data"):
            return ((ws,), {})
        if m == "find":
            return ((ws, o.uid), {})
        raise NotDriven("no recipe for EntityType." + m)

    # ---- entities
    if m == "add_data":
        if isinstance(o, Drillhole):
            return (({"new_log": {"depth": np.arange(0, 30.0, 10.0), "values": np.arange(3.0)}},), {})
        n = nv or getattr(o, "n_cells", None) or 1
        assoc = "VERTEX" if nv else ("CELL" if getattr(o, "n_cells", None) else "OBJECT")
        return (({"new_data": {"values": np.arange(float(n)), "association": assoc}},), {})
    if m == "add_comment":
        return (("verif comment", "verif"), {})
    if m == "add_file":
        fn = os.path.join(tmp, "attach.txt")
        with open(fn, "wb") as f:
            f.write(b"attached")
        return ((fn,), {})
    if m == "add_children":
        if isinstance(o, Group):
            return (([_need(T["label"](), "label")],), {})
        return (([_need(T["data_cell"]() if o is not T["curve"]() else T["data_float"](), "foreign data")],), {})
    if m == "remove_children":
        return (([_need(_first(_children(o, "nonpg")), "child")],), {})
    if m == "copy":
        return ((), {})
    if m == "copy_from_extent":
        return ((extent,), {})
    if m == "copy_complement":
        raise NotDriven("internal helper of the survey copy (driven through copy)")
    if m == "remove_vertices":
        return (([0],), {})
    if m == "remove_cells":
        return (([0],), {})
    if m == "add_vertices":
        return ((np.array([[0.0, 10.0, 5.0]]),), {})
    if m == "create_property_group":
        return ((), {"name": "made_pg"})
    if m == "find_or_create_property_group":
        return ((), {"name": "made_pg2"})
    if m == "add_data_to_group":
        return ((_need(data_child, "data child"), "made_pg3"), {})
    if m == "remove_data_from_groups":
        return ((_need(data_child, "data child"),), {})
    if m == "remove_property_group":
        return ((_need(_first(getattr(o, "property_groups", None) or []), "property group"),), {})
    if m == "remove_children_values":
        return (([0], "VERTEX" if nv else "CELL"), {})
    if m in ("add_default_visual_parameters", "base_refine", "set_tag_from_vertices", "add_ui_json", "add_default_ab_cell_id",
             "sort_depths", "to_grid2d", "georeferencing_from_image", "georeferencing_from_tiff", "fix_up_name",
             "get_data_list", "get_concatenated_attributes", "fetch_concatenated_objects", "update_data_index"):
        return ((), {})
    if m == "to_geoimage":
        return ((_need(data_child, "data child").name,), {})
    if m == "georeference":
        return ((np.array([[0, 0], [3, 0], [3, 3]]), np.array([[0.0, 0, 0], [3, 0, 0], [3, 3, 0]])), {})
    if m == "save_as":
        return (("exported.png", tmp), {})
    if m == "save_file":
        return ((), {"path": tmp})
    if m in ("edit_metadata", "edit_em_metadata"):
        return (({"Unit": "Seconds (s)"},), {})
    if m == "set_metadata":
        return (("Loop radius", 3.0), {})
    if m == "fetch_metadata":
        return (("Loop radius",), {})
    if m == "add_components_data":
        n = nv or 1
        ch = list(getattr(o, "channels", None) or [1.0])
        comp = getattr(o, "default_input_types", None)
        return (({"Zxx (real)": {f"chan{k}": {"values": np.arange(float(n))} for k, _ in enumerate(ch)}},), {})
    if m == "add_validate_component_data":
        raise NotDriven("internal helper of add_components_data")
    if m == "mask_by_extent":
        return ((extent,), {})
    if m in ("get_entity", "get_data", "get_property_group", "get_entity_list"):
        return (("f",), {}) if m != "get_entity_list" else ((), {})
    if m == "reference_to_uid":
        return ((o,), {})
    if m == "validate_data_association":
        return (({"values": np.arange(float(nv or 1))},), {})
    if m == "desurvey":
        return ((np.array([5.0]),), {})
    if m == "create":
        kw = {"name": "created"}
        if isinstance(o, ObjectBase) and nv:
            kw["vertices"] = np.asarray(o.vertices).copy()
        return ((ws,), kw)
    if m == "find_or_create_type":
        return ((ws,), {})
    if m in ("set_tag", "get_tag"):
        return (("Colors", "Objectcolor", "1"), {}) if m == "set_tag" else (("Colors", "Objectcolor"), {})
    # ---- concatenation internals (public names)
    if m == "add_save_concatenated":
        return ((_need(_first(_children(o)), "concatenated child"),), {})
    if m == "update_attributes":
        return ((_need(_first(_children(o)), "concatenated child"), "attributes"), {})
    if m == "update_concatenated_attributes":
        return ((_need(_first(_children(o)), "concatenated child"),), {})
    if m == "save_attribute":
        return (("concatenated_attributes",), {})
    if m == "update_array_attribute":
        return ((_need(_first(_children(o)), "concatenated child"), "surveys"), {})
    if m == "remove_entity":
        return ((_need(_first(_children(o)), "concatenated child"),), {})
    if m in ("fetch_index", "fetch_start_index", "fetch_values", "delete_index_data", "fetch_concatenated_data_index",
             "format_survey_values", "validate_data", "validate_depth_data", "validate_interval_data", "format_length",
             "format_values", "format_type", "convert_kwargs", "validate_data_type", "primitive_type", "default_type_uid",
             "str_from_type", "active", "create_data", "create_from_concatenation"):
        raise NotDriven("pure helper / internal (no workspace write of its own); exercised through its callers")
    raise NotDriven(f"no recipe for {owner}.{m}")


def prepare(ws, T, entry, tmp):
    label, owner, member, kind = entry["target"], entry["owner"], entry["member"], entry["ekind"]
    getter = T.get(label)
    if getter is None:
        raise NotDriven("unknown target " + label)
    o = getter()
    if o is None:
        raise NotDriven("fixture target missing: " + label)
    if owner not in [k.__name__ for k in type(o).__mro__]:
        raise NotDriven(f"{label} is not a {owner}")
    if kind == "setter":
        val = setter_value(o, member, T)
        return lambda: setattr(o, member, val)
    if kind == "getter":
        return lambda: getattr(o, member)
    args, kwargs = method_args(o, owner, member, ws, T, tmp, entry.get("arg"))
    variant = entry.get("variant")
    if member in ("copy", "copy_from_extent") and variant == "to_group":
        kwargs = dict(kwargs, parent=T["subgroup"]())
    fn = getattr(o, member)
    return lambda: fn(*args, **kwargs)
