"""T_iocalls extractor (DESIGN 3.2) shared by C10 and C11: an `ast` walk over $VERIF_REPO/geoh5py on every run.

Emits coq/generated/Tables_IO.v with

  T_iocalls     every site outside io/h5_writer.py, io/h5_reader.py that
                  - calls `<x>._io_call(F, ..., mode=<lit>)`                      (site SIoCall)
                  - calls `H5Writer.f(...)` / `H5Reader.f(...)` directly          (site SDirect)
                  - calls `h5py.File(...)`                                        (site SFileOpen)
                  - assigns to an attribute `_geoh5`                              (site SHandleStore)
                  - uses an attribute `.geoh5` / `._geoh5` of something: passed as an argument (SHandlePass),
                    a method called on it (SHandleMethod, callee = method name), an attribute read (`.mode`: SHandleAttr),
                    subscripted (SHandleIndex), bound to a local name (SHandleAlias; later uses of that name in the same
                    function are classified like the attribute itself) or any other use (SHandleOther)
                each with the enclosing function (Class.func), callee, literal mode, file, first and last line;
  T_fetch       every `fetch_h5_handle(file, mode=...)` inside H5Writer / H5Reader (callee class = the class it sits in);
  T_reader_mut  every statement of H5Reader that could change an HDF5 object (creating calls, subscript stores/deletes on an
                expression rooted at the file handle or `.attrs`, any reference to H5Writer) -- expected empty.

`ui_json/*.py` names a *Workspace* `geoh5` / `_geoh5` (InputFile.geoh5); uses there are recorded with site SWsAlias so that they are
visible in the table but not mistaken for the HDF5 handle (any `.geoh5.geoh5` chain there is still an ordinary handle use).
"""
from __future__ import annotations

import ast
import os
from pathlib import Path

from vlib import common as C

WRITER_FILE = "geoh5py/io/h5_writer.py"
READER_FILE = "geoh5py/io/h5_reader.py"
ALIAS_DIRS = ("geoh5py/ui_json/",)
CREATING = {"create_dataset", "create_group", "require_group", "require_dataset", "create_virtual_dataset", "move", "resize",
            "write_direct", "modify", "create", "flush", "pop", "popitem", "clear", "update", "setdefault"}


def _lit_mode(call, pos=None):
    """mode keyword (or positional index `pos`) -> MR | MRW | MA | MDefault | MVar | MOther"""
    node = None
    for kw in call.keywords:
        if kw.arg == "mode":
            node = kw.value
    if node is None and pos is not None and len(call.args) > pos:
        node = call.args[pos]
    if node is None:
        return "MDefault"
    if isinstance(node, ast.Constant) and isinstance(node.value, str):
        return {"r": "MR", "r+": "MRW", "a": "MA"}.get(node.value, "MOther")
    return "MVar"


def _dotted(node):
    if isinstance(node, ast.Name):
        return node.id
    if isinstance(node, ast.Attribute):
        b = _dotted(node.value)
        return None if b is None else b + "." + node.attr
    return None


class _Scan(ast.NodeVisitor):
    def __init__(self, rel):
        self.rel = rel
        self.stack = []      # enclosing class / function names
        self.rows = []
        self.fetch = []
        self.reader_mut = []
        self.parents = {}
        self.alias = rel.startswith(ALIAS_DIRS)
        self.aliases = []    # per enclosing function: local names bound to the handle
        self.in_io = rel in (WRITER_FILE, READER_FILE)

    # -- scope tracking
    def _encl(self):
        return ".".join(self.stack) if self.stack else "<module>"

    def visit_ClassDef(self, node):
        self.stack.append(node.name)
        self.generic_visit(node)
        self.stack.pop()

    def visit_FunctionDef(self, node):
        self.stack.append(node.name)
        names = set()
        if not self.in_io and not self.alias:
            for sub in ast.walk(node):
                if (isinstance(sub, ast.Assign) and len(sub.targets) == 1 and isinstance(sub.targets[0], ast.Name)
                        and isinstance(sub.value, ast.Attribute) and sub.value.attr in ("geoh5", "_geoh5")):
                    names.add(sub.targets[0].id)
        self.aliases.append(names)
        self.generic_visit(node)
        self.aliases.pop()
        self.stack.pop()

    visit_AsyncFunctionDef = visit_FunctionDef

    def generic_visit(self, node):
        for ch in ast.iter_child_nodes(node):
            self.parents[ch] = node
        super().generic_visit(node)

    def _row(self, site, cls, callee, mode, node):
        self.rows.append({"site": site, "encl": self._encl(), "cls": cls, "callee": callee, "mode": mode, "file": self.rel,
                          "line": node.lineno, "end": getattr(node, "end_lineno", node.lineno) or node.lineno})

    # -- calls
    def visit_Call(self, node):
        fn = _dotted(node.func)
        if fn is not None:
            last = fn.split(".")[-1]
            if last == "_io_call" and not self.in_io:
                callee = _dotted(node.args[0]) if node.args else None
                cls = "OtherFn"
                if callee and callee.startswith("H5Writer."):
                    cls = "Writer"
                elif callee and callee.startswith("H5Reader."):
                    cls = "Reader"
                self._row("SIoCall", cls, callee or "<expr>", _lit_mode(node), node)
            elif (fn.startswith("H5Writer.") or fn.startswith("H5Reader.")) and not self.in_io:
                self._row("SDirect", "Writer" if fn.startswith("H5Writer.") else "Reader", fn, "MDefault", node)
            elif fn in ("h5py.File", "File") and not self.in_io:
                self._row("SFileOpen", "OtherFn", "h5py.File", _lit_mode(node, pos=1), node)
            elif last == "fetch_h5_handle" and self.in_io:
                self.fetch.append({"site": "SFetchH5", "encl": self._encl(), "cls": "Writer" if self.rel == WRITER_FILE else "Reader",
                                   "callee": "fetch_h5_handle", "mode": _lit_mode(node, pos=1), "file": self.rel,
                                   "line": node.lineno, "end": node.end_lineno or node.lineno})
            if self.rel == READER_FILE and isinstance(node.func, ast.Attribute) and node.func.attr in CREATING:
                base = ast.unparse(node.func.value)
                if "h5file" in base or ".attrs" in base or "handle" in base.lower():
                    self._mut("call " + ast.unparse(node.func), node)
        self.generic_visit(node)

    def _mut(self, what, node):
        self.reader_mut.append({"site": "SReaderMut", "encl": self._encl(), "cls": "Reader", "callee": what[:60], "mode": "MDefault",
                                "file": self.rel, "line": node.lineno, "end": getattr(node, "end_lineno", node.lineno)})

    def _target_mut(self, tgt, node):
        if self.rel != READER_FILE:
            return
        if isinstance(tgt, (ast.Subscript, ast.Attribute)):
            txt = ast.unparse(tgt.value)
            if "h5file" in txt or ".attrs" in txt or "handle" in txt.lower():
                self._mut("store " + ast.unparse(tgt), node)

    def visit_Assign(self, node):
        for t in node.targets:
            for tt in (t.elts if isinstance(t, (ast.Tuple, ast.List)) else [t]):
                self._target_mut(tt, node)
        self.generic_visit(node)

    def visit_AugAssign(self, node):
        self._target_mut(node.target, node)
        self.generic_visit(node)

    def visit_Delete(self, node):
        for t in node.targets:
            self._target_mut(t, node)
        self.generic_visit(node)

    # -- handle uses
    def _use(self, node, what):
        """classify one use of the handle (the attribute expression itself or a local alias of it)"""
        par = self.parents.get(node)
        if isinstance(par, ast.Attribute):
            gp = self.parents.get(par)
            if isinstance(gp, ast.Call) and gp.func is par:
                self._row("SHandleMethod", "OtherFn", par.attr, "MDefault", node)
            else:
                self._row("SHandleAttr", "OtherFn", par.attr, "MDefault", node)
        elif isinstance(par, ast.Call) and node in par.args:
            self._row("SHandlePass", "OtherFn", _dotted(par.func) or "<expr>", "MDefault", node)
        elif isinstance(par, ast.Subscript):
            self._row("SHandleIndex", "OtherFn", "subscript", "MDefault", node)
        elif isinstance(par, ast.keyword):
            self._row("SHandlePass", "OtherFn", "keyword " + str(par.arg), "MDefault", node)
        elif isinstance(par, (ast.UnaryOp, ast.BoolOp, ast.If, ast.Compare, ast.IfExp)) or (
                isinstance(par, ast.Call) and _dotted(par.func) == "isinstance"):
            self._row("SHandleTest", "OtherFn", "truth/identity test", "MDefault", node)
        elif isinstance(par, ast.Return):
            self._row("SHandleReturn", "OtherFn", "return", "MDefault", node)
        elif isinstance(par, ast.withitem):
            self._row("SHandleWith", "OtherFn", "with", "MDefault", node)
        elif (isinstance(par, ast.Assign) and par.value is node and len(par.targets) == 1 and isinstance(par.targets[0], ast.Name)
              and self.stack):
            # `h = self.geoh5`: a local alias; every later use of `h` in this function is classified like the attribute itself
            self._row("SHandleAlias", "OtherFn", "alias " + par.targets[0].id, "MDefault", node)
        else:
            self._row("SHandleOther", "OtherFn", type(par).__name__, "MDefault", node)

    def visit_Attribute(self, node):
        if node.attr in ("geoh5", "_geoh5") and not self.in_io:
            inner_is_handle = isinstance(node.value, ast.Attribute) and node.value.attr in ("geoh5", "_geoh5")
            alias = self.alias and not inner_is_handle
            if isinstance(node.ctx, ast.Store):
                self._row("SWsAlias" if alias else "SHandleStore", "OtherFn", "store " + node.attr, "MDefault", node)
            elif alias:
                self._row("SWsAlias", "OtherFn", "use " + node.attr, "MDefault", node)
            else:
                self._use(node, node.attr)
        self.generic_visit(node)

    def visit_Name(self, node):
        if self.rel == READER_FILE and node.id == "H5Writer":
            self._mut("reference to H5Writer", node)
        if isinstance(node.ctx, ast.Load) and self.aliases and node.id in self.aliases[-1]:
            self._use(node, node.id)


_MODE_OF = {"r": "MR", "r+": "MRW", "a": "MA"}


class _FetchActive(ast.NodeVisitor):
    """default of fetch_active_workspace's `mode` parameter and every call of it inside the library (enclosing function,
    literal mode)"""

    def __init__(self, rel):
        self.rel, self.stack, self.default, self.calls = rel, [], None, []

    def _scoped(self, node):
        self.stack.append(node.name)
        self.generic_visit(node)
        self.stack.pop()

    visit_ClassDef = _scoped

    def visit_FunctionDef(self, node):
        if node.name == "fetch_active_workspace" and not self.stack:
            names = [a.arg for a in node.args.args]
            if "mode" not in names:
                raise RuntimeError("fetch_active_workspace has no `mode` parameter any more")
            k = names.index("mode") - (len(names) - len(node.args.defaults))
            if k < 0:
                self.default = "MVar"       # no default: every caller must pass one
            else:
                d = node.args.defaults[k]
                self.default = _MODE_OF.get(d.value, "MOther") if isinstance(d, ast.Constant) and isinstance(d.value, str) else "MOther"
        self._scoped(node)

    visit_AsyncFunctionDef = visit_FunctionDef

    def visit_Call(self, node):
        fn = node.func
        if (isinstance(fn, ast.Name) and fn.id == "fetch_active_workspace") or (isinstance(fn, ast.Attribute) and fn.attr == "fetch_active_workspace"):
            self.calls.append({"encl": ".".join(self.stack) or "<module>", "file": self.rel, "line": node.lineno, "mode": _lit_mode(node, 1)})
        self.generic_visit(node)


def extract(repo):
    repo = Path(repo)
    rows, fetch, rmut = [], [], []
    fa_default, fa_calls = None, []
    files = sorted(p for p in (repo / "geoh5py").rglob("*.py"))
    if not files:
        raise RuntimeError(f"no python sources under {repo}/geoh5py")
    for p in files:
        rel = str(p.relative_to(repo))
        tree = ast.parse(p.read_text(), filename=rel)
        sc = _Scan(rel)
        sc.visit(tree)
        rows += sc.rows
        fetch += sc.fetch
        rmut += sc.reader_mut
        fa = _FetchActive(rel)
        fa.visit(tree)
        fa_calls += fa.calls
        if fa.default is not None:
            if fa_default is not None:
                raise RuntimeError("two top-level definitions of fetch_active_workspace")
            fa_default = fa.default
    # fail-closed sanity: the anchors the theorems talk about must have been seen
    if not any(r["site"] == "SIoCall" for r in rows):
        raise RuntimeError("extractor found no _io_call site")
    if not any(r["encl"] == "Workspace._io_call" and r["site"] == "SHandlePass" for r in rows):
        raise RuntimeError("extractor did not find `fun(self.geoh5, ...)` inside Workspace._io_call")
    if not any(r["cls"] == "Writer" for r in fetch) or not any(r["cls"] == "Reader" for r in fetch):
        raise RuntimeError("extractor found no fetch_h5_handle inside H5Writer / H5Reader")
    if fa_default is None:
        raise RuntimeError("extractor did not find the definition of fetch_active_workspace")
    return {"iocalls": rows, "fetch": fetch, "reader_mut": rmut, "fa_default": fa_default, "fa_calls": fa_calls}


# the helpers property C10 names ("loading a ui.json", "exporting a copy to a monitoring directory") live in these modules; every
# fetch_active_workspace block found there is a helper block, wherever a refactoring moves it (no function name is relied on)
HELPER_BLOCKS = ("geoh5py/ui_json/",)


def _row_v(r):
    return ('{| r_site := %s; r_encl := %s; r_cls := %s; r_callee := %s; r_mode := %s; r_file := %s; r_line := %d%%N; r_end := %d%%N |}'
            % (r["site"], C.cstr(r["encl"]), r["cls"], C.cstr(r["callee"]), r["mode"], C.cstr(r["file"]), r["line"], r["end"]))


def emit(tables):
    out = ["(* GENERATED on every run by tools/vlib/iotable.py from $VERIF_REPO/geoh5py -- do not edit. *)",
           "From GV Require Import Prelude.Base Model.Mode.", "Require Import String.", "Open Scope string_scope.", ""]
    for name, key in (("T_iocalls", "iocalls"), ("T_fetch", "fetch"), ("T_reader_mut", "reader_mut")):
        rows = tables[key]
        out.append(f"Definition {name} : list row := [")
        out.append(";\n".join("  " + _row_v(r) for r in rows))
        out.append("].\n")
    out.append(f"Definition fetch_active_default : rmode := {tables['fa_default']}.\n")
    out.append("(* every `fetch_active_workspace(...)` call inside the library: enclosing function, file, line, literal mode *)")
    out.append("Definition T_fetch_active_calls : list (string * string * N * rmode) := [")
    out.append(";\n".join("  (%s, %s, %d%%N, %s)" % (C.cstr(c["encl"]), C.cstr(c["file"]), c["line"], c["mode"]) for c in tables["fa_calls"]))
    out.append("].\n")
    out.append("Definition helper_blocks : list string := [" + "; ".join(C.cstr(h) for h in HELPER_BLOCKS) + "].\n")
    text = "\n".join(out) + "\n"
    gen = C.COQ / "generated"
    gen.mkdir(exist_ok=True)
    dst = gen / "Tables_IO.v"
    if not dst.exists() or dst.read_text() != text:
        tmp = gen / f".Tables_IO.{os.getpid()}.tmp"
        tmp.write_text(text)
        os.replace(tmp, dst)
    return text


def regenerate(repo):
    t = extract(repo)
    emit(t)
    sites = {}
    for r in t["iocalls"]:
        sites[r["site"]] = sites.get(r["site"], 0) + 1
    return {"tables": {"T_iocalls": len(t["iocalls"]), "T_fetch": len(t["fetch"]), "T_reader_mut": len(t["reader_mut"]),
                       "T_iocalls_by_site": sites}, "_raw": t}
