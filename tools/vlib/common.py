"""Shared plumbing for /verif checks: paths, PRNG, Coq runner, evidence, findings."""
from __future__ import annotations

import fcntl
import hashlib
import json
import os
import re
import shutil
import subprocess
import sys
import time
from pathlib import Path

VERIF = Path(__file__).resolve().parents[2]
REPO = Path(os.environ.get("VERIF_REPO", "/repo")).resolve()
COQ = VERIF / "coq"
BUILD = VERIF / "build"
TMP = BUILD / "tmp"
EVID = VERIF / "evidence"
REPLAYS = EVID / "replays"
PY = "/venv/bin/python"

FORBIDDEN = re.compile(
    r"\b(Admitted|admit|Axiom|Parameter|Parameters|Conjecture|Axioms|Hypothesis|Variable|Variables)\b"
    r"|Unset\s+Guard|bypass_check|type-in-type|impredicative-set|Admit\s+Obligations"
)


# ----------------------------------------------------------------------------- PRNG
class SplitMix:
    """SplitMix64: every random choice of a check derives from VERIF_SEED through this."""

    MASK = (1 << 64) - 1

    def __init__(self, seed: int):
        self.s = seed & self.MASK

    def next(self) -> int:
        self.s = (self.s + 0x9E3779B97F4A7C15) & self.MASK
        z = self.s
        z = ((z ^ (z >> 30)) * 0xBF58476D1CE4E5B9) & self.MASK
        z = ((z ^ (z >> 27)) * 0x94D049BB133111EB) & self.MASK
        return z ^ (z >> 31)

    def below(self, n: int) -> int:
        return self.next() % n if n > 0 else 0

    def range(self, lo: int, hi: int) -> int:
        """inclusive"""
        return lo + self.below(hi - lo + 1)

    def chance(self, num: int, den: int = 100) -> bool:
        return self.below(den) < num

    def choice(self, seq):
        return seq[self.below(len(seq))]

    def weighted(self, pairs):
        tot = sum(w for _, w in pairs)
        r = self.below(tot)
        for v, w in pairs:
            if r < w:
                return v
            r -= w
        return pairs[-1][0]

    def shuffle(self, lst):
        lst = list(lst)
        for i in range(len(lst) - 1, 0, -1):
            j = self.below(i + 1)
            lst[i], lst[j] = lst[j], lst[i]
        return lst

    def sample(self, seq, k):
        return self.shuffle(seq)[:k]

    def fork(self, tag: int) -> "SplitMix":
        return SplitMix(self.next() ^ (tag * 0x9E3779B97F4A7C15))


def seed_from_env() -> int:
    try:
        return int(os.environ.get("VERIF_SEED", "20260930"))
    except ValueError:
        return 20260930


# ----------------------------------------------------------------------------- Coq text helpers
def cz(z: int) -> str:
    return f"({z})%Z" if z < 0 else f"{z}%Z"


def cnat(n: int) -> str:
    assert 0 <= n < 5000, "nat literal too large for a case file"
    return f"{n}%nat"


def cN(n: int) -> str:
    return f"{n}%N"


def cbool(b: bool) -> str:
    return "true" if b else "false"


def clist(items) -> str:
    return "[" + "; ".join(items) + "]"


def copt(x, f) -> str:
    return "None" if x is None else f"(Some {f(x)})"


def cstr(s: str) -> str:
    assert all(32 <= ord(c) < 127 for c in s), "only printable ASCII in Coq string literals"
    return '"' + s.replace('"', '""') + '"'


# ----------------------------------------------------------------------------- Coq build / run
def _run(cmd, cwd=None, timeout=900, env=None):
    t0 = time.time()
    try:
        p = subprocess.run(
            cmd, cwd=cwd, capture_output=True, text=True, timeout=timeout, env=env
        )
        return p.returncode, p.stdout, p.stderr, time.time() - t0
    except subprocess.TimeoutExpired as e:
        out = e.stdout.decode() if isinstance(e.stdout, bytes) else (e.stdout or "")
        err = e.stderr.decode() if isinstance(e.stderr, bytes) else (e.stderr or "")
        return 124, out, err + "\nTIMEOUT", time.time() - t0


class BuildLock:
    def __enter__(self):
        BUILD.mkdir(parents=True, exist_ok=True)
        self.f = open(BUILD / ".coq.lock", "w")
        fcntl.flock(self.f, fcntl.LOCK_EX)
        return self

    def __exit__(self, *a):
        fcntl.flock(self.f, fcntl.LOCK_UN)
        self.f.close()


COQ_Q = ["-Q", "theories", "GV", "-Q", "generated", "GVgen"]


def coq_project_sync():
    """(Re)write _CoqProject from the files present and refresh the Makefile when the file list changed."""
    (COQ / "generated").mkdir(exist_ok=True)
    files = sorted(
        str(p.relative_to(COQ))
        for d in ("theories", "generated")
        for p in (COQ / d).rglob("*.v")
    )
    text = "-Q theories GV\n-Q generated GVgen\n-arg -w -arg -notation-overridden,-deprecated-hint-without-locality,-deprecated-syntactic-definition\n" + "\n".join(files) + "\n"
    proj = COQ / "_CoqProject"
    if not proj.exists() or proj.read_text() != text or not (COQ / "Makefile").exists():
        proj.write_text(text)
        rc, out, err, _ = _run(["coq_makefile", "-f", "_CoqProject", "-o", "Makefile"], cwd=COQ)
        if rc != 0:
            raise RuntimeError("coq_makefile failed: " + err)


def coq_make(targets, jobs=16, timeout=1500):
    """make the given .vo targets (paths relative to coq/). Returns (ok, log)."""
    with BuildLock():
        coq_project_sync()
        rc, out, err, dt = _run(
            ["timeout", str(timeout), "make", "-j", str(jobs)] + list(targets), cwd=COQ, timeout=timeout + 30
        )
    return rc == 0, out + "\n" + err, dt


def coqc_file(path: Path, timeout=600):
    """Compile one stand-alone .v (cases / property print files) against the built theories; returns (rc, stdout, stderr, dt)."""
    return _run(["timeout", str(timeout), "coqc"] + COQ_Q + [str(path)], cwd=COQ, timeout=timeout + 30)


def scan_forbidden(paths):
    hits = []
    for p in paths:
        txt = Path(p).read_text()
        # strip comments (non-nested is enough for our sources; nested handled conservatively by loop)
        prev = None
        while prev != txt:
            prev = txt
            txt = re.sub(r"\(\*[^*(]*(?:\*(?!\))[^*(]*|\((?!\*)[^*(]*)*\*\)", " ", txt)
        in_section = 0
        for ln, line in enumerate(txt.splitlines(), 1):
            if re.match(r"\s*Section\b", line):
                in_section += 1
            if re.match(r"\s*End\b", line) and in_section:
                in_section -= 1
            for m in FORBIDDEN.finditer(line):
                w = m.group(0)
                if w in ("Variable", "Variables", "Hypothesis") and in_section:
                    continue
                hits.append(f"{p}:{ln}: {w}")
    return hits


def vo_closure(target_v: str):
    """All theory/generated .v files a target depends on (via coqdep), including itself."""
    with BuildLock():
        coq_project_sync()
    files = [
        str(p.relative_to(COQ)) for d in ("theories", "generated") for p in (COQ / d).rglob("*.v")
    ]
    rc, out, err, _ = _run(["coqdep"] + COQ_Q + files, cwd=COQ)
    deps = {}
    for line in out.splitlines():
        if ":" not in line:
            continue
        lhs, rhs = line.split(":", 1)
        tg = [t for t in lhs.split() if t.endswith(".vo")]
        ds = [d[:-1] for d in rhs.split() if d.endswith(".vo")]
        for t in tg:
            deps[t[:-1]] = [d for d in ds if d != t[:-1]]
    seen, stack = [], [target_v]
    while stack:
        x = stack.pop()
        if x in seen:
            continue
        seen.append(x)
        for d in deps.get(x, []):
            if d.startswith("theories/") or d.startswith("generated/"):
                stack.append(d)
    return sorted(seen)


def parse_print_assumptions(stdout: str):
    """Split the output of a Properties file into per-theorem assumption blocks.
    We emit `Print Assumptions thm.` right after each theorem, so blocks appear in order."""
    blocks = []
    cur = None
    for line in stdout.splitlines():
        if line.startswith("Closed under the global context"):
            blocks.append([])
            cur = None
        elif line.startswith("Axioms:"):
            cur = []
            blocks.append(cur)
        elif cur is not None and line.strip():
            cur.append(line.rstrip())
    return blocks


def parse_nat_list(stdout: str, marker: str):
    """Find `marker` ... `= [a; b; c]` (Coq wraps lines) and return the integers."""
    flat = " ".join(stdout.split())
    m = re.search(re.escape(marker) + r"\s*=\s*(\[[^\]]*\]|nil)", flat)
    if not m:
        return None
    body = m.group(1)
    return [int(x) for x in re.findall(r"\d+", body)]


# ----------------------------------------------------------------------------- findings / evidence
def load_findings():
    p = VERIF / "known_findings.json"
    out = json.loads(p.read_text())["findings"] if p.exists() else []
    have = {(f["property"], f["key"]) for f in out}
    # development fragments written by per-property builders (merged into known_findings.json by tools/merge_findings.py)
    for q in sorted((VERIF / "findings.d").glob("*.json")):
        try:
            for f in json.loads(q.read_text()):
                if (f["property"], f["key"]) not in have:
                    out.append(f)
                    have.add((f["property"], f["key"]))
        except Exception:  # noqa: BLE001
            pass
    return out


def write_replay(prop: str, payload: dict) -> Path:
    rdir = REPLAYS if str(REPO) == "/repo" else BUILD / "evidence-alt" / "replays"  # mutant runs keep their replays apart
    rdir.mkdir(parents=True, exist_ok=True)
    payload.setdefault("repo", str(REPO))
    blob = json.dumps(payload, sort_keys=True, default=str)
    h = hashlib.sha256(blob.encode()).hexdigest()[:12]
    path = rdir / f"{prop}-{h}.json"
    path.write_text(json.dumps(payload, indent=1, sort_keys=True, default=str))
    return path


def write_evidence(prop: str, ev: dict):
    out = EVID if str(REPO) == "/repo" else BUILD / "evidence-alt"  # mutant runs (VERIF_REPO=scratch) never touch evidence/
    out.mkdir(parents=True, exist_ok=True)
    ev.setdefault("coverage", {})["repo"] = str(REPO)
    (out / f"{prop}.json").write_text(json.dumps(ev, indent=1, default=str))


def fresh_tmp(tag: str) -> Path:
    d = TMP / f"{tag}-{os.getpid()}"
    if d.exists():
        shutil.rmtree(d, ignore_errors=True)
    d.mkdir(parents=True)
    return d


def impl_env():
    env = dict(os.environ)
    env["PYTHONPATH"] = f"{REPO}:{VERIF / 'tools'}"
    env["PYTHONHASHSEED"] = "0"
    env["GEOH5PY_VERIF"] = "1"
    env.setdefault("OMP_NUM_THREADS", "1")
    return env
