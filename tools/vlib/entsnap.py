"""Helpers shared by tools/props/c12.py and c20.py: build entities of every geoh5py class with small valid content,
and take canonical, JSON-serialisable snapshots of entities by reflection (uuids -> ordinals of first appearance).

Imported only inside drive_one (needs geoh5py from $VERIF_REPO on sys.path)."""
from __future__ import annotations

import inspect
import uuid as _uuid


# ----------------------------------------------------------------------------- canonical values
class Canon:
    """uuid -> small ordinals, in order of registration / first appearance."""

    def __init__(self):
        self.tab = {}

    def reg(self, uid):
        if uid not in self.tab:
            self.tab[uid] = len(self.tab)
        return self.tab[uid]

    def u(self, uid):
        return "u%d" % self.reg(uid)


def num(x):
    """exact representation of a number: int when integral, else a tagged repr (never compared approximately)."""
    import numpy as np

    if isinstance(x, (bool, np.bool_)):
        return bool(x)
    if isinstance(x, (int, np.integer)):
        return int(x)
    x = float(x)
    if x != x:
        return None
    if abs(x) > 1e30:
        return None
    if x.is_integer():
        return int(x)
    return {"f": repr(x)}


def canon_value(v, cn: Canon, depth=0):
    import numpy as np
    from geoh5py.shared.entity import Entity
    from geoh5py.shared.entity_type import EntityType

    if v is None or isinstance(v, (bool, str)):
        return v
    if isinstance(v, (int, float, np.integer, np.floating, np.bool_)):
        return num(v)
    if isinstance(v, _uuid.UUID):
        return cn.u(v)
    if isinstance(v, bytes):
        return {"bytes": v.hex()[:64], "len": len(v)}
    if isinstance(v, np.ndarray):
        if v.dtype.names:
            if v.ndim == 0:
                return [canon_value(x, cn, depth + 1) for x in v.tolist()]
            return [[canon_value(x, cn, depth + 1) for x in row.tolist()] for row in v.ravel()]
        if v.dtype.kind in "OUS":
            return [canon_value(x, cn, depth + 1) for x in v.ravel().tolist()] if v.ndim <= 1 else [
                canon_value(np.asarray(r), cn, depth + 1) for r in v]
        if v.ndim == 0:
            return num(v.item())
        if v.ndim == 1:
            return [num(x) for x in v.tolist()]
        return [canon_value(r, cn, depth + 1) for r in v]
    if isinstance(v, Entity):
        return {"entity": cn.u(v.uid)}
    if isinstance(v, EntityType):
        return {"type": type_snapshot(v, cn)}
    if isinstance(v, dict):
        return {"dict": sorted(([str(k), canon_value(x, cn, depth + 1)] for k, x in v.items()), key=lambda p: p[0])}
    if isinstance(v, (list, tuple)):
        return [canon_value(x, cn, depth + 1) for x in v]
    if hasattr(v, "name") and hasattr(v, "value") and v.__class__.__module__.startswith("geoh5py"):
        return {"enum": v.name}
    if hasattr(v, "map") and v.__class__.__name__ == "ReferenceValueMap":
        return {"value_map": canon_value(v.map, cn, depth + 1)}
    if v.__class__.__name__ == "ColorMap":
        return {"color_map": [v.name, canon_value(v.values, cn, depth + 1)]}
    if v.__class__.__name__ in ("Image", "PngImageFile", "TiffImageFile", "JpegImageFile"):
        return {"image": [v.size[0], v.size[1], v.mode]}
    return {"repr": v.__class__.__name__}


TYPE_SKIP = {"_workspace", "_on_file"}


def type_snapshot(t, cn):
    out = {"cls": t.__class__.__name__}
    for k in sorted(vars(t)):
        if k in TYPE_SKIP:
            continue
        name = k[1:] if k.startswith("_") else k
        try:
            val = getattr(t, name)
        except Exception as e:  # noqa: BLE001
            val = {"getter-raised": type(e).__name__}
        out[name] = canon_value(val, cn)
    return out


ENT_SKIP = {"_uid", "_on_file", "_parent", "_children", "_property_groups", "_entity_type", "_visual_parameters",
            "_centroids", "_extent", "_workspace",
            "_parts",  # cache derived from cells (Curve)
            # concatenator bookkeeping tables (uid-keyed indices of the children; the children themselves are compared)
            "_attributes_keys", "_concatenated_attributes", "_concatenated_object_ids", "_data", "_index", "_property_group_ids",
            "_concat_attr_str"}
# links between entities are reported separately (C20) — they are references, not payload
LINKS = {"_receivers", "_transmitters", "_base_stations", "_potential_electrodes", "_current_electrodes", "_ab_cell_id",
         "_tx_id_property", "_concatenator", "_comments"}


def attr_snapshot(e, cn):
    """every harvested attribute (vars(e) keys through the public getter) except structure/links."""
    out = {}
    for k in sorted(vars(e)):
        if k in ENT_SKIP or k in LINKS:
            continue
        name = k[1:] if k.startswith("_") else k
        try:
            val = getattr(e, name)
        except Exception as ex:  # noqa: BLE001
            val = {"getter-raised": type(ex).__name__}
        if val is None:
            continue  # an attribute that is None and one that was never set read the same
        out[name] = canon_value(val, cn)
    return out


def snapshot(e, cn: Canon, with_children=True):
    """canonical tree of an entity: class, uid ordinal, attributes, entity type, property groups, children."""
    from geoh5py.groups import PropertyGroup

    node = {"cls": e.__class__.__name__, "uid": cn.u(e.uid), "attrs": attr_snapshot(e, cn)}
    et = getattr(e, "entity_type", None)
    if et is not None:
        node["type"] = type_snapshot(et, cn)
    par = getattr(e, "parent", None)
    node["parent"] = cn.u(par.uid) if par is not None and hasattr(par, "uid") else None
    if hasattr(e, "children"):
        kids = [c for c in e.children if not isinstance(c, PropertyGroup)]
        node["child_uids"] = [cn.u(c.uid) for c in kids]
        if with_children:
            node["children"] = [snapshot(c, cn) for c in kids]
    pgs = getattr(e, "property_groups", None)
    if pgs is not None and not isinstance(e, PropertyGroup):
        node["pgs"] = [pg_snapshot(p, cn) for p in pgs]
    return node


def pg_snapshot(p, cn):
    return {
        "uid": cn.u(p.uid), "name": p.name,
        "association": getattr(p.association, "name", str(p.association)),
        "pgtype": getattr(p.property_group_type, "name", str(p.property_group_type)),
        "props": [cn.u(u) for u in (p.properties or [])] if p.properties is not None else None,
    }


# ----------------------------------------------------------------------------- inventory by reflection
def inventory():
    """names of all concrete entity classes exported by geoh5py.objects / groups / data."""
    from geoh5py import data, groups, objects
    from geoh5py.data import Data
    from geoh5py.groups import Group
    from geoh5py.objects import ObjectBase

    out = {"objects": [], "groups": [], "data": []}
    for mod, base, key in ((objects, ObjectBase, "objects"), (groups, Group, "groups"), (data, Data, "data")):
        for name, o in inspect.getmembers(mod):
            if inspect.isclass(o) and issubclass(o, base) and not inspect.isabstract(o) and o is not base:
                out[key].append(name)
    return out


# ----------------------------------------------------------------------------- builders (valid small content)
POINTS_LIKE = ["Points", "IntegratorPoints", "MTReceivers", "TipperBaseStations"]
CURVE_LIKE = ["Curve", "AirborneMagnetics", "AirborneFEMReceivers", "AirborneFEMTransmitters", "AirborneTEMReceivers",
              "AirborneTEMTransmitters", "LargeLoopGroundFEMReceivers", "LargeLoopGroundFEMTransmitters",
              "LargeLoopGroundTEMReceivers", "LargeLoopGroundTEMTransmitters", "MovingLoopGroundFEMReceivers",
              "MovingLoopGroundFEMTransmitters", "MovingLoopGroundTEMReceivers", "MovingLoopGroundTEMTransmitters",
              "TipperReceivers", "CurrentElectrode", "PotentialElectrode"]
SURFACE_LIKE = ["Surface", "NeighbourhoodSurface"]
GRID_LIKE = ["Grid2D", "BlockModel", "Octree", "DrapeModel"]
OTHER_OBJ = ["Drillhole", "GeoImage", "Label", "NoTypeObject"]
PLAIN_GROUPS = ["AirborneGeophysics", "AirborneTheme", "ContainerGroup", "EarthModelsTheme", "GeochemistryMineralogyDataSet",
                "GeochemistryMineralogyTheme", "GeophysicsTheme", "GiftoolsGroup", "GroundTheme", "IntegratorGroup",
                "IntegratorProject", "NoTypeGroup", "ObservationPointsTheme", "QueryGroup", "RockPropertiesTheme",
                "SamplesTheme"]
OPTION_GROUPS = ["SimPEGGroup", "UIJsonGroup"]
CONCAT_GROUPS = ["DrillholeGroup", "IntegratorDrillholeGroup"]
SPECIAL_GROUPS = ["CustomGroup", "RootGroup"]
DATA_KINDS = ["FloatData", "IntegerData", "BooleanData", "TextData", "ReferencedData", "DatetimeData", "FilenameData",
              "BlobData", "CommentsData", "MultiTextData", "VisualParameters"]
UNINSTANTIABLE = ["UnknownData"]  # constructor signature cannot be reached through create_data (read-side fallback only)
ALL_OBJECTS = POINTS_LIKE + CURVE_LIKE + SURFACE_LIKE + GRID_LIKE + OTHER_OBJ
ALL_GROUPS = PLAIN_GROUPS + OPTION_GROUPS + CONCAT_GROUPS + SPECIAL_GROUPS


def lattice(n, salt=0):
    """n distinct small-integer 3-D points (exactly representable)."""
    return [[(3 * i + salt) % 7 + i // 7, (5 * i + 2 * salt) % 5, (i + salt) % 3] for i in range(n)]


def n_cells_of(cls, spec):
    if cls in CURVE_LIKE:
        return len(spec.get("cells") or []) if spec.get("cells") is not None else max(spec["n"] - 1, 0)
    if cls in SURFACE_LIKE:
        return len(spec["cells"])
    return None


def make_object(ws, cls, spec, parent=None):
    """spec: {"n": vertices, "cells": [[..]] | None, "name":..., "attrs": {...}, "meta": {...}|None}"""
    import numpy as np
    from geoh5py import objects as O

    klass = getattr(O, cls)
    kw = {"name": spec.get("name", cls[:12])}
    if parent is not None:
        kw["parent"] = parent
    kw.update(spec.get("attrs") or {})
    n = spec.get("n", 4)
    if cls in POINTS_LIKE:
        kw["vertices"] = np.array(lattice(n, spec.get("salt", 0)), dtype=float)
    elif cls in CURVE_LIKE:
        kw["vertices"] = np.array(lattice(n, spec.get("salt", 0)), dtype=float)
        if spec.get("cells") is not None:
            kw["cells"] = np.array(spec["cells"], dtype="uint32").reshape(-1, 2)
    elif cls in SURFACE_LIKE:
        kw["vertices"] = np.array(lattice(n, spec.get("salt", 0)), dtype=float)
        kw["cells"] = np.array(spec["cells"], dtype="uint32").reshape(-1, 3)
    elif cls == "Grid2D":
        kw.update(origin=[1, 2, 3], u_count=spec.get("nu", 2), v_count=spec.get("nv", 3), u_cell_size=2.0, v_cell_size=4.0,
                  rotation=float(spec.get("rotation", 0)), dip=float(spec.get("dip", 0)))
    elif cls == "BlockModel":
        kw.update(origin=[1, 2, 3], u_cell_delimiters=np.array([0.0, 1, 3]), v_cell_delimiters=np.array([0.0, 2, 4, 8][: spec.get("nv", 3) + 1]),
                  z_cell_delimiters=np.array([0.0, -1, -3]), rotation=float(spec.get("rotation", 0)))
    elif cls == "Octree":
        kw.update(origin=[0, 0, 0], u_count=2, v_count=2, w_count=2, u_cell_size=1.0, v_cell_size=2.0, w_cell_size=4.0,
                  rotation=float(spec.get("rotation", 0)))
    elif cls == "DrapeModel":
        # 2 prisms, 2 layers each
        kw["layers"] = np.array([[0, 0, -1.0], [0, 1, -2.0], [1, 0, -1.0], [1, 1, -3.0]])
        kw["prisms"] = np.array([[0.0, 0, 0, 0, 2], [1.0, 0, 0, 2, 2]])
    elif cls == "Drillhole":
        kw.update(collar=[1.0, 2.0, 3.0], surveys=np.array([[0.0, 0.0, -90.0], [8.0, 0.0, -90.0]]), end_of_hole=8.0)
    elif cls == "GeoImage":
        kw["image"] = (np.arange(24).reshape(2, 4, 3) * 8).astype("uint8")
    elif cls == "Label":
        kw.update(target_position=[1.0, 2.0, 3.0], label_position=[2.0, 2.0, 3.0])
    obj = klass.create(ws, **kw)
    if spec.get("meta") is not None and cls not in CURVE_LIKE[2:] + ["MTReceivers", "TipperBaseStations"]:
        obj.metadata = dict(spec["meta"])
    return obj


def sizes(obj):
    nv = getattr(obj, "n_vertices", None)
    nc = getattr(obj, "n_cells", None)
    return nv, nc


def make_data(obj, kind, assoc, vals, name, extra=None):
    """add one data child of the requested class; returns the entity (or raises)."""
    import numpy as np

    extra = extra or {}
    if kind == "FloatData":
        d = {"values": np.array([np.nan if v is None else float(v) for v in vals]), "association": assoc}
    elif kind == "IntegerData":
        d = {"values": np.array([0 if v is None else int(v) for v in vals], dtype="int32"), "association": assoc}
    elif kind == "BooleanData":
        d = {"values": np.array([bool((v or 0) % 2) for v in vals], dtype=bool), "association": assoc}
    elif kind == "ReferencedData":
        vv = [abs(int(v or 0)) % 3 for v in vals]
        d = {"values": np.array(vv, dtype="int32"), "association": assoc, "type": "referenced",
             "value_map": {0: "Unknown", 1: "one", 2: "two"}}
    elif kind == "TextData":
        d = {"values": "text %s" % (vals[0] if vals else ""), "association": "OBJECT"}
    elif kind == "MultiTextData":
        d = {"values": "multi %s" % (vals[0] if vals else ""), "association": "OBJECT", "type": "multi_text"}
    elif kind == "CommentsData":
        obj.add_comment("c %s" % (vals[0] if vals else ""), "author")
        return obj.comments
    elif kind == "DatetimeData":
        d = {"values": np.array(["2020-01-0%dT00:00:00" % (1 + abs(int(v or 0)) % 9) for v in vals]), "association": assoc, "type": "datetime"}
    elif kind == "FilenameData":
        import os
        import tempfile

        fd, path = tempfile.mkstemp(suffix=".txt")
        os.write(fd, b"payload %d" % len(vals))
        os.close(fd)
        try:
            return obj.add_file(path)
        finally:
            os.remove(path)
    elif kind == "BlobData":
        d = {"values": b"\x01\x02\x03", "association": "OBJECT", "type": "blob"}
    elif kind == "VisualParameters":
        vp = obj.add_default_visual_parameters()
        return vp
    else:
        raise NotImplementedError(kind)
    d.update(extra)
    return obj.add_data({name: d})
