"""Run-time observation of the file-handle discipline (C10 / C11 drivers).  Imported only inside driver subprocesses.

install()  wraps, once per process,
   Workspace._io_call          -> records (routine qualname, requested mode, caller file:line, handle state, outcome)
   every public H5Writer / H5Reader routine -> records the top-level entries (routine, handle mode, outcome); nested calls are not
                                 recorded.  This wrapper is independent of the first one: a writer routine that is entered
                                 without passing through _io_call is still seen.
The wrappers delegate unchanged; they never alter arguments, results or exceptions.
"""
from __future__ import annotations

import functools
import os
import sys

_STATE = {"installed": False, "calls": None, "entries": None, "depth": 0, "fault": None}


def exc_kind(e):
    """small enum for exceptions"""
    if e is None:
        return None
    from geoh5py.shared.exceptions import Geoh5FileClosedError

    if isinstance(e, Geoh5FileClosedError):
        return "Closed"
    if isinstance(e, UserWarning) and "read-only mode" in str(e):
        return "ReadOnly"
    if type(e).__name__ == "Injected":
        return "Injected"
    return type(e).__name__


def handle_state(ws):
    g = ws._geoh5  # noqa: SLF001 - the observed state
    if not g:
        return "closed"
    return g.mode


def _rel(path):
    repo = os.environ.get("VERIF_REPO_RESOLVED") or ""
    path = os.path.realpath(path)
    for root in (repo, os.path.realpath(os.environ.get("PYTHONPATH", "").split(":")[0] or "/repo")):
        if root and path.startswith(root.rstrip("/") + "/"):
            return path[len(root.rstrip("/")) + 1:]
    i = path.rfind("/geoh5py/")
    return path[i + 1:] if i >= 0 else path


def install():
    if _STATE["installed"]:
        return
    from geoh5py.io import H5Reader, H5Writer
    from geoh5py.workspace import Workspace

    orig = Workspace._io_call  # noqa: SLF001

    def _io_call(self, fun, *args, mode="r", **kwargs):
        rec = None
        if _STATE["calls"] is not None:
            fr = sys._getframe(1)  # noqa: SLF001
            g, in_close = fr, False
            for _ in range(12):          # is this call issued (transitively) by Workspace.close ?
                if g is None:
                    break
                if g.f_code.co_name == "close" and g.f_code.co_filename.endswith("workspace.py"):
                    in_close = True
                    break
                g = g.f_back
            rec = {"fn": getattr(fun, "__qualname__", repr(fun)), "mode": mode, "file": _rel(fr.f_code.co_filename), "in_close": in_close,
                   "line": fr.f_lineno, "handle": handle_state(self), "out": "ok", "ws": id(self),
                   "rp0": bool(self._repack), "repack": False}
            _STATE["calls"].append(rec)
        try:
            return orig(self, fun, *args, mode=mode, **kwargs)
        except BaseException as e:
            if rec is not None:
                rec["out"] = exc_kind(e)
            raise
        finally:
            if rec is not None:
                rec["repack"] = bool(self._repack) and not rec["rp0"]   # the routine set the repack flag

    _io_call.__wrapped__ = orig
    Workspace._io_call = _io_call  # noqa: SLF001

    def wrap(cls, name, raw):
        fn = raw.__func__ if isinstance(raw, (classmethod, staticmethod)) else raw

        @functools.wraps(fn)
        def inner(*a, **k):
            top = _STATE["depth"] == 0
            rec = None
            if top and _STATE["entries"] is not None:
                h = next((x for x in a[:2] if hasattr(x, "mode") and hasattr(x, "filename")), None)
                rec = {"fn": f"{cls.__name__}.{name}", "hmode": getattr(h, "mode", None) if h else None, "out": "ok",
                       "hfile": str(getattr(h, "filename", "")) if h else ""}
                _STATE["entries"].append(rec)
            _STATE["depth"] += 1
            try:
                flt = _STATE["fault"]
                if top and flt and flt.get("fn") == f"{cls.__name__}.{name}" and flt.get("armed"):
                    flt["armed"] = False
                    flt["fired"] = True
                    raise OSError("injected I/O error (verif fault injection)")
                return fn(*a, **k)
            except BaseException as e:
                if rec is not None:
                    rec["out"] = exc_kind(e)
                raise
            finally:
                _STATE["depth"] -= 1

        if isinstance(raw, classmethod):
            return classmethod(inner)
        if isinstance(raw, staticmethod):
            return staticmethod(inner)
        return inner

    for cls in (H5Writer, H5Reader):
        for name, raw in list(cls.__dict__.items()):
            if name.startswith("_"):
                continue
            if isinstance(raw, (classmethod, staticmethod)) or callable(raw):
                setattr(cls, name, wrap(cls, name, raw))
    _STATE["installed"] = True


class Trace:
    """with Trace() as t: ...   ->  t.calls (at _io_call), t.entries (top-level H5Writer/H5Reader routines)"""

    def __enter__(self):
        install()
        self.prev = (_STATE["calls"], _STATE["entries"])
        self.calls, self.entries = [], []
        _STATE["calls"], _STATE["entries"] = self.calls, self.entries
        return self

    def __exit__(self, *a):
        _STATE["calls"], _STATE["entries"] = self.prev
        return False


def arm_fault(fn):
    """the next top-level entry into routine `fn` raises OSError (simulated I/O error)"""
    install()
    _STATE["fault"] = {"fn": fn, "armed": True, "fired": False}
    return _STATE["fault"]


def disarm_fault():
    _STATE["fault"] = None


def n_open_files():
    import h5py

    return h5py.h5f.get_obj_count(h5py.h5f.OBJ_ALL, h5py.h5f.OBJ_FILE)


def n_open_objects():
    import h5py

    return h5py.h5f.get_obj_count(h5py.h5f.OBJ_ALL, h5py.h5f.OBJ_ALL)
