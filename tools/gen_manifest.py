#!/venv/bin/python
"""Regenerate MANIFEST.json from tools/props/*.py (claimed) and properties.jsonl (everything else -> not_applicable)."""
import importlib
import json
import sys
from pathlib import Path

V = Path(__file__).resolve().parents[1]
sys.path.insert(0, str(V / "tools"))
props = [json.loads(l) for l in (V / "properties.jsonl").read_text().splitlines() if l.strip()]
checks, na = [], []
claimed = set(json.loads((V / "tools" / "claimed.json").read_text()))  # maintained by hand: checks that pass on the unchanged tree
for p in props:
    pid = p["id"]
    f = V / "tools" / "props" / f"{pid.lower()}.py"
    if not f.exists() or pid not in claimed:
        na.append({"property_id": pid, "reason": "not yet built in this development (planned in DESIGN.md section 5); no check is registered, so nothing is claimed"})
        continue
    mod = importlib.import_module(f"props.{pid.lower()}")
    if getattr(mod, "NOT_CLAIMED", None):
        na.append({"property_id": pid, "reason": mod.NOT_CLAIMED})
        continue
    checks.append({
        "property_id": pid,
        "quick_cmd": f"bin/check {pid} quick",
        "thorough_cmd": f"bin/check {pid} thorough",
        "evidence_file": f"/verif/evidence/{pid}.json",
        "replay_cmd_template": f"bin/check {pid} --replay {{path}}",
        "engine": "coq-proof+correspondence",
        "level_claimed": {
            "category": "proof",
            "text": getattr(mod, "LEVEL_TEXT", "Coq theorems about a Gallina model, tied to the code by a correspondence check evaluated inside Coq, plus an implementation-side oracle"),
            "design_ref": f"DESIGN.md section 5 ({pid})",
        },
        "level_note": "; ".join(getattr(mod, "TRUSTED", []))[:1800],
        "technique": getattr(mod, "TECHNIQUE", "machine-checked proof in Coq 8.16.1 over a hand-written Gallina model; model-code tie by differential correspondence (vm_compute) on generated inputs"),
    })
man = {
    "version": 1,
    "setup_cmd": "bin/setup",
    "hooks": {
        "guard": "GEOH5PY_VERIF",
        "enable": "no instrumentation is compiled into geoh5py; checks set GEOH5PY_VERIF=1 for the driver processes only (informational)",
        "baseline_off_cmd": "cd /repo && /venv/bin/python -m pytest -ra -q -p no:cacheprovider --timeout=900 --continue-on-collection-errors",
        "source_commits": [],
        "add_only": True,
    },
    "engines": [{
        "name": "coq-proof+correspondence", "path": "tools/check.py",
        "serves_properties": [c["property_id"] for c in checks],
        "kind_free_text": "Coq 8.16.1 development under coq/theories (Model, Proofs, Properties); bin/check rebuilds the closure of Properties/<id>.v (full .vo), reads Print Assumptions, runs the real geoh5py from /repo on generated inputs, evaluates the model on the same inputs inside Coq (vm_compute) and compares; an independent Python oracle evaluates the property text on the implementation's observations",
    }],
    "checks": checks,
    "notes": "known_findings.json lists genuine defects recorded rather than repaired; DESIGN.md explains approach, trusted base and per-property status.",
    "not_applicable": na,
}
(V / "MANIFEST.json").write_text(json.dumps(man, indent=1) + "\n")
print(f"{len(checks)} claimed, {len(na)} not claimed")
