"""C19 helpers that touch the implementation: corpus builders (one library-produced file per entity family),
raw-HDF5 item enumeration (every attribute and every link, by node address), single deletions, and a walker that
snapshots everything a reader can see (including lazy getters).  Imported only inside drive_one / probes."""
from __future__ import annotations

import hashlib
import os
import warnings


# ----------------------------------------------------------------------------- corpus: files produced by the library
def _ints(n, k=1):
    import numpy as np

    return np.arange(n, dtype=float) * k + 1.0


def build_groups(path):
    import numpy as np
    from geoh5py import Workspace
    from geoh5py.groups import ContainerGroup
    from geoh5py.objects import Points

    with Workspace.create(path) as ws:
        g1 = ContainerGroup.create(ws, name="g1")
        g2 = ContainerGroup.create(ws, name="g2", parent=g1, allow_move=False)
        ContainerGroup.create(ws, name="g3-empty", parent=g1)
        g4 = ContainerGroup.create(ws, name="g4", parent=g2)
        g5 = ContainerGroup.create(ws, name="g5", parent=g4, public=False)
        p = Points.create(ws, name="pts-in-g2", parent=g2, vertices=np.array([[0.0, 0, 0], [1, 0, 0], [2, 1, 0]]))
        p.add_data({"dA": {"values": _ints(3)}})
        q = Points.create(ws, name="pts-in-g5", parent=g5, vertices=np.array([[0.0, 0, 1], [1, 0, 1]]))
        q.add_data({"dB": {"values": _ints(2)}})
        Points.create(ws, name="pts-top", vertices=np.array([[5.0, 5, 5], [6, 6, 6]]))
        g1.add_comment("a comment", author="me")


def build_points_curve_surface(path):
    import numpy as np
    from geoh5py import Workspace
    from geoh5py.objects import Curve, Points, Surface

    with Workspace.create(path) as ws:
        p = Points.create(ws, name="pts", vertices=np.array([[0.0, 0, 0], [1, 0, 0], [2, 1, 0], [3, 1, 1]]))
        d = p.add_data({"pa": {"values": _ints(4)}, "pb": {"values": _ints(4, 2)}, "pc": {"values": _ints(4, 3)}})
        p.add_data_to_group(d[:2], "PG1")
        p.add_data_to_group(d[2:], "PG2")
        p.add_data_to_group(d[1:], "PG3")
        c = Curve.create(ws, name="crv", vertices=np.array([[0.0, 0, 0], [1, 0, 0], [2, 0, 0], [3, 0, 0]]),
                         cells=np.array([[0, 1], [1, 2], [2, 3]], dtype="uint32"))
        dc = c.add_data({"cv": {"values": _ints(4)}, "cc": {"values": _ints(3), "association": "CELL"},
                         "ci": {"values": np.array([1, 2, 3, 4], dtype="int32"), "type": "integer"}})
        c.add_data_to_group(dc[0], "CPG")
        c.add_data_to_group(dc[2], "CPG2")
        s = Surface.create(ws, name="srf", vertices=np.array([[0.0, 0, 0], [1, 0, 0], [0, 1, 0], [1, 1, 0]]),
                           cells=np.array([[0, 1, 2], [1, 2, 3]], dtype="uint32"))
        s.add_data({"sv": {"values": _ints(4)}, "sb": {"values": np.array([True, False]), "association": "CELL", "type": "boolean"}})
        s.metadata = {"some": "thing"}


def build_grids(path):
    import numpy as np
    from geoh5py import Workspace
    from geoh5py.objects import BlockModel, Grid2D, Octree

    with Workspace.create(path) as ws:
        g = Grid2D.create(ws, name="g2d", origin=[0, 0, 0], u_cell_size=2.0, v_cell_size=3.0, u_count=3, v_count=2,
                          rotation=0.0, dip=0.0)
        g.add_data({"gv": {"values": _ints(6)}})
        b = BlockModel.create(ws, name="bm", origin=[0, 0, 0], u_cell_delimiters=np.array([0.0, 1, 2]),
                              v_cell_delimiters=np.array([0.0, 1, 3]), z_cell_delimiters=np.array([0.0, -1, -2]))
        b.add_data({"bv": {"values": _ints(8)}})
        o = Octree.create(ws, name="oct", origin=[0, 0, 0], u_count=2, v_count=2, w_count=2, u_cell_size=1.0,
                          v_cell_size=1.0, w_cell_size=1.0, rotation=0.0)
        o.add_data({"ov": {"values": _ints(o.n_cells)}})


def build_drillhole(path):
    import numpy as np
    from geoh5py import Workspace
    from geoh5py.groups import DrillholeGroup
    from geoh5py.objects import Drillhole

    with Workspace.create(path, version=2.0) as ws:
        dg = DrillholeGroup.create(ws, name="DH")
        for k in range(2):
            w = Drillhole.create(ws, name=f"well{k}", parent=dg, collar=np.r_[0.0, 10.0 * k, 10.0],
                                 surveys=np.c_[np.linspace(0, 40, 5), np.ones(5) * 45.0, np.ones(5) * -80.0])
            w.add_data({
                "interval": {"values": _ints(3), "from-to": np.array([[0.0, 1.0], [1.0, 2.0], [2.0, 4.0]])},
                "log": {"values": _ints(4), "depth": np.array([0.0, 1.0, 2.0, 3.0])},
            })


def build_drillhole_v1(path):
    """Non-concatenated drillhole (file version 1.0)."""
    import numpy as np
    from geoh5py import Workspace
    from geoh5py.groups import DrillholeGroup
    from geoh5py.objects import Drillhole

    with Workspace.create(path, version=1.0) as ws:
        dg = DrillholeGroup.create(ws, name="DH1")
        w = Drillhole.create(ws, name="well", parent=dg, collar=np.r_[0.0, 10.0, 10.0],
                             surveys=np.c_[np.linspace(0, 40, 5), np.ones(5) * 45.0, np.ones(5) * -80.0])
        w.add_data({
            "interval": {"values": _ints(3), "from-to": np.array([[0.0, 1.0], [1.0, 2.0], [2.0, 4.0]])},
            "log": {"values": _ints(4), "depth": np.array([0.0, 1.0, 2.0, 3.0])},
        })


def build_text_ref(path):
    import numpy as np
    from geoh5py import Workspace
    from geoh5py.objects import Points

    with Workspace.create(path) as ws:
        p = Points.create(ws, name="pts", vertices=np.array([[0.0, 0, 0], [1, 0, 0], [2, 1, 0]]))
        d = p.add_data({
            "txt": {"type": "text", "values": np.array(["a", "bb", "ccc"])},
            "ref": {"type": "referenced", "values": np.array([1, 2, 1]), "value_map": {1: "one", 2: "two"}},
            "flt": {"values": _ints(3)},
        })
        p.add_comment("hello", author="x")
        rgba = np.c_[np.array([1.0, 2.0, 3.0]), np.array([0, 100, 255]), np.array([255, 100, 0]), np.array([10, 20, 30]),
                     np.ones(3) * 255]
        d[2].entity_type.color_map = rgba
        d[2].entity_type.units = "m"
        p.visual_parameters  # noqa: B018


def build_geoimage(path):
    import numpy as np
    from geoh5py import Workspace
    from geoh5py.objects import GeoImage

    with Workspace.create(path) as ws:
        img = GeoImage.create(ws, name="img")
        img.image = np.arange(48, dtype="uint8").reshape(4, 4, 3)
        img.vertices = np.array([[0.0, 4, 0], [4, 4, 0], [4, 0, 0], [0, 0, 0]])


def build_orphan(path):
    """A file in which the library itself left an object (with data) in the flat containers that no parent lists any more
    (Group.remove_children); it is read only when the tree is rebuilt from the flat containers."""
    import numpy as np
    from geoh5py import Workspace
    from geoh5py.groups import ContainerGroup
    from geoh5py.objects import Curve, Points

    with Workspace.create(path) as ws:
        g = ContainerGroup.create(ws, name="g")
        h = ContainerGroup.create(ws, name="h", parent=g)
        a = Points.create(ws, name="keep", parent=h, vertices=np.array([[0.0, 0, 0], [1, 0, 0]]))
        a.add_data({"ka": {"values": _ints(2)}})
        b = Curve.create(ws, name="orphan", parent=g, vertices=np.array([[0.0, 0, 0], [1, 0, 0], [2, 0, 0]]),
                         cells=np.array([[0, 1], [1, 2]], dtype="uint32"))
        b.add_data({"ob": {"values": _ints(3)}})
        g.remove_children([b])


FAMILIES = {
    "groups": build_groups,
    "pcs": build_points_curve_surface,
    "grids": build_grids,
    "drillhole": build_drillhole,
    "drillhole_v1": build_drillhole_v1,
    "textref": build_text_ref,
    "geoimage": build_geoimage,
    "orphan": build_orphan,
}


def build(family, path):
    if os.path.exists(path):
        os.remove(path)
    with warnings.catch_warnings():
        warnings.simplefilter("ignore")
        FAMILIES[family](path)
    return path


def sha256(path):
    h = hashlib.sha256()
    with open(path, "rb") as f:
        for blk in iter(lambda: f.read(1 << 20), b""):
            h.update(blk)
    return h.hexdigest()


# ----------------------------------------------------------------------------- raw HDF5: nodes, items, deletions
FLAT = {"Data": "D", "Groups": "G", "Objects": "O"}
TFLAT = {"Data types": "data", "Group types": "group", "Object types": "object"}
KIND_OF_FLAT = {"Data": "data", "Groups": "group", "Objects": "object"}


def _addr(obj):
    import h5py

    return int(h5py.h5o.get_info(obj.id).addr)


def _s(x):
    import numpy as np

    if isinstance(x, bytes):
        return x.decode("utf-8", "replace")
    if isinstance(x, np.ndarray):
        return "<array %s>" % (hashlib.sha256(repr(x.tolist()).encode()).hexdigest()[:8])
    return str(x)


def _is_uid_name(name):
    return len(name) == 38 and name[0] == "{" and name[-1] == "}"


def mkey(name, ords=None):
    """Model key (JSON form) of a link or attribute name."""
    fixed = {"Groups": ["G"], "Objects": ["O"], "Data": ["D"], "Types": ["T"], "Data types": ["TF", "data"], "Group types": ["TF", "group"],
             "Object types": ["TF", "object"], "Root": ["Root"], "Type": ["Type"], "PropertyGroups": ["PGs"],
             "Concatenated Data": ["Concat"], "Color map": ["Cmap"], "Value map": ["Vmap"], "ID": ["ID"], "Name": ["Name"],
             "Primitive type": ["Prim"]}
    if name in fixed:
        return fixed[name]
    if ords is not None and name in ords:
        return ["U", ords[name]]
    return ["N", name]


def scan(path):
    """Raw structure of the file.  Returns dict(top=..., nodes={addr: node}, items=[...], ords={entity link name: ordinal},
    tords={type link name: ordinal}).  node = {cpath (model address or None), h5path, role, owner (entity link name or None),
    is_group, attrs {name: str(value)}, links [(name, addr)] in h5py iteration order}.  Roles: workspace, flat:<K>, types,
    typeflat:<K>, type:<K>, typedataset, entity:<K>, children:<K>, pgs, pg, dataset, concat, concatitem, other."""
    import h5py

    nodes = {}
    with h5py.File(path, "r") as f:
        tops = list(f)
        top = tops[0]

        def reg(obj, cpath, h5path, role, owner):
            a = _addr(obj)
            if a in nodes:
                return a, False
            isg = isinstance(obj, h5py.Group)
            nodes[a] = {"cpath": cpath, "h5path": h5path, "role": role, "owner": owner, "is_group": isg,
                        "attrs": {k: _s(v) for k, v in obj.attrs.items()},
                        "links": [(n, _addr(obj[n])) for n in obj] if isg else []}
            return a, True

        root = f[top]
        reg(root, [], "/" + top, "workspace", None)
        # entity link names: ordinals in name order over everything that names an entity
        names = set()
        for fl in FLAT:
            if fl in root and isinstance(root[fl], h5py.Group):
                names.update(n for n in root[fl])

        def collect(g, depth=0):
            for c in ("Data", "Groups", "Objects"):
                if c in g and isinstance(g[c], h5py.Group):
                    for n in g[c]:
                        names.add(n)
                        if depth < 12 and isinstance(g[c][n], h5py.Group):
                            collect(g[c][n], depth + 1)

        if "Root" in root:
            collect(root["Root"])
        ords = {n: i for i, n in enumerate(sorted(names))}
        tords = {}
        # phase 1: flat containers and their entries, type containers and types
        for fl, code in FLAT.items():
            if fl in root and isinstance(root[fl], h5py.Group):
                reg(root[fl], [[code]], f"/{top}/{fl}", "flat:" + fl, None)
                for n in root[fl]:
                    reg(root[fl][n], [[code], ["U", ords[n]]], f"/{top}/{fl}/{n}", "entity:" + fl, n)
        if "Types" in root and isinstance(root["Types"], h5py.Group):
            reg(root["Types"], [["T"]], f"/{top}/Types", "types", None)
            for tf, kind in TFLAT.items():
                if tf in root["Types"]:
                    g = root["Types"][tf]
                    reg(g, [["T"], ["TF", kind]], f"/{top}/Types/{tf}", "typeflat:" + tf, None)
                    tnames = sorted(g)
                    for i, n in enumerate(tnames):
                        tords[(kind, n)] = i
                        reg(g[n], [["T"], ["TF", kind], ["U", i]], f"/{top}/Types/{tf}/{n}", "type:" + tf, n)
        # phase 2: below the nodes
        def below(obj, cpath, h5path, role, owner, depth=0):
            if not isinstance(obj, h5py.Group) or depth > 14:
                return
            for n in obj:
                child = obj[n]
                cp = cpath + [mkey(n, ords)] if cpath is not None else None
                hp = h5path + "/" + n
                isg = isinstance(child, h5py.Group)
                if role == "workspace":
                    if n == "Root":
                        a, new = reg(child, None, hp, "entity:Groups", child.attrs.get("ID") and _s(child.attrs.get("ID")))
                        if new:  # the Root target is not in the flat container: not a library file shape
                            below(child, None, hp, "entity:Groups", None, depth + 1)
                        continue
                    a, new = reg(child, None, hp, "other", None)
                    if new:
                        below(child, None, hp, "other", None, depth + 1)
                    else:
                        below(child, nodes[a]["cpath"], nodes[a]["h5path"], nodes[a]["role"], nodes[a]["owner"], depth + 1)
                    continue
                if role.startswith("flat:") or role == "types" or role.startswith("typeflat:"):
                    a = _addr(child)
                    nd = nodes[a]
                    below(child, nd["cpath"], nd["h5path"], nd["role"], nd["owner"], depth + 1)
                    continue
                if role.startswith("entity:"):
                    if n == "Type":
                        a, new = reg(child, None, hp, "type:?", None)
                        continue
                    if n in FLAT and isg:
                        a, new = reg(child, cp, hp, "children:" + n, owner)
                        if new:
                            for m in child:
                                reg(child[m], None, hp + "/" + m, "entity:" + n, m)  # only if absent from the flat container
                        continue
                    if n == "PropertyGroups" and isg:
                        a, new = reg(child, cp, hp, "pgs", owner)
                        if new:
                            for m in child:
                                reg(child[m], cp + [["N", m]], hp + "/" + m, "pg", owner)
                        continue
                    if n == "Concatenated Data":
                        a, new = reg(child, cp, hp, "concat", owner)
                        if new:
                            below(child, cp, hp, "concat", owner, depth + 1)
                        continue
                    a, new = reg(child, cp, hp, "dataset" if not isg else "other", owner)
                    if new and isg:
                        below(child, cp, hp, "other", owner, depth + 1)
                    continue
                if role.startswith("type:"):
                    reg(child, cp, hp, "typedataset", owner)
                    continue
                if role in ("concat", "concatitem", "other"):
                    a, new = reg(child, cp, hp, "concatitem" if role != "other" else "other", owner)
                    if new:
                        below(child, cp, hp, nodes[a]["role"], owner, depth + 1)
                    continue

        below(root, [], "/" + top, "workspace", None)
        for a in list(nodes):
            nd = nodes[a]
            if nd["role"].startswith("entity:") and nd["is_group"]:
                pass
        # descend into every entity / type node (registered in phase 1 or as orphans)
        done = set()
        changed = True
        while changed:
            changed = False
            for a in list(nodes):
                nd = nodes[a]
                if a in done or not (nd["role"].startswith("entity:") or nd["role"].startswith("type:")) or not nd["is_group"]:
                    continue
                done.add(a)
                changed = True
                below(f[nd["h5path"]], nd["cpath"], nd["h5path"], nd["role"], nd["owner"])
    items = []
    for a, nd in sorted(nodes.items(), key=lambda kv: kv[1]["h5path"]):
        for an in sorted(nd["attrs"]):
            items.append({"t": "attr", "node": a, "h5path": nd["h5path"], "name": an, "owner": nd["owner"], "role": nd["role"],
                          "kind": f"attr|{_role_class(nd['role'])}|{an}"})
        for ln, ca in nd["links"]:
            cr = nodes[ca]["role"] if ca in nodes else "other"
            items.append({"t": "link", "node": a, "h5path": nd["h5path"], "name": ln, "owner": nd["owner"], "role": nd["role"],
                          "target": ca, "target_role": cr, "target_owner": nodes[ca]["owner"] if ca in nodes else None,
                          "kind": f"link|{_role_class(nd['role'])}|{_link_class(nd['role'], ln, cr)}"})
    return {"top": top, "nodes": nodes, "items": items, "ords": ords, "tords": tords}


def _role_class(role):
    return role.replace("type:?", "type")


def _link_class(prole, name, crole):
    """Name of a link, with uuid-named links abstracted to the role of their target."""
    if _is_uid_name(name):
        return "<" + crole + ">"
    if crole == "pg":
        return "<pg>"
    if crole == "concatitem" and prole != "concat":
        return "<concatitem>"
    return name


def delete_item(path, item):
    import h5py

    with h5py.File(path, "r+") as f:
        node = f[item["h5path"]]
        if item["t"] == "attr":
            del node.attrs[item["name"]]
        else:
            del node[item["name"]]


# ----------------------------------------------------------------------------- walker: everything a reader can see
LAZY = [
    "values", "vertices", "cells", "metadata", "origin", "u_cell_delimiters", "v_cell_delimiters", "z_cell_delimiters",
    "octree_cells", "surveys", "collar", "trace", "trace_depth", "image", "layers", "prisms", "tag", "n_cells", "n_vertices",
    "parts", "centroids", "u_cell_size", "v_cell_size", "w_cell_size", "u_count", "v_count", "w_count", "rotation", "dip", "vertical",
    "value_map", "file_name", "association", "visual_parameters", "comments", "from_", "to_", "depth_", "cost", "planning",
    "end_of_hole", "default_collocation_distance", "modifiable", "n_values", "nan_value", "ndv", "last_focus", "concatenated_attributes",
]
TYPE_FIELDS = ["uid", "name", "description", "primitive_type", "units", "hidden", "mapping", "number_of_bins", "transparent_no_data",
               "color_map", "value_map", "allow_move_content", "allow_delete_content", "precision", "scientific_notation",
               "duplicate_type_on_copy", "duplicate_on_copy"]


def canon(v, depth=0):
    import enum
    import uuid

    import numpy as np

    if depth > 6:
        return "<deep>"
    if v is None or isinstance(v, (bool, int, str)):
        return v
    if isinstance(v, float):
        return None if v != v else v
    if isinstance(v, bytes):
        return {"bytes": hashlib.sha256(v).hexdigest()[:16], "len": len(v)}
    if isinstance(v, uuid.UUID):
        return str(v)
    if isinstance(v, enum.Enum):
        return v.name
    if isinstance(v, np.generic):
        return canon(v.item(), depth + 1)
    if isinstance(v, np.ndarray):
        if v.dtype.names:
            return {"dtype": [str(n) for n in v.dtype.names], "rows": [canon(list(r), depth + 1) for r in v.tolist()][:400]}
        flat = v.ravel()
        if flat.size > 400:
            return {"shape": list(v.shape), "dtype": str(v.dtype), "sha": hashlib.sha256(np.ascontiguousarray(v).tobytes()).hexdigest()[:16]}
        return {"shape": list(v.shape), "dtype": str(v.dtype), "v": [canon(x, depth + 1) for x in flat.tolist()]}
    if isinstance(v, dict):
        return {str(k): canon(x, depth + 1) for k, x in sorted(v.items(), key=lambda kv: str(kv[0]))}
    if isinstance(v, (list, tuple)):
        return [canon(x, depth + 1) for x in v]
    if hasattr(v, "uid"):
        return {"ref": str(v.uid)}
    if hasattr(v, "_values") and hasattr(v, "name"):  # ColorMap
        return {"cmap": canon(getattr(v, "_values", None), depth + 1), "name": getattr(v, "name", None)}
    if hasattr(v, "map"):  # ReferenceValueMap
        return {"vmap": canon(v.map, depth + 1)}
    if hasattr(v, "tobytes") and hasattr(v, "size") and hasattr(v, "mode"):  # PIL image
        return {"image": hashlib.sha256(v.tobytes()).hexdigest()[:16], "size": list(v.size), "mode": v.mode}
    return "<" + type(v).__name__ + ">"


def _get(obj, name):
    try:
        return canon(getattr(obj, name))
    except Exception as e:  # noqa: BLE001 - the failure of a getter on a damaged file is an observation
        return {"exc": type(e).__name__}


def snap_type(t):
    out = {"class": type(t).__name__}
    for f in TYPE_FIELDS:
        if hasattr(type(t), f):
            out[f] = _get(t, f)
    return out


def snap_entity(e):
    out = {"class": type(e).__name__.replace("Concatenated", "C:").replace("Concatenator", "Cr:")}
    amap = getattr(e, "attribute_map", {}) or {}
    names = sorted({v.split(":")[0].strip() for v in amap.values()} | {n for n in LAZY if hasattr(type(e), n)})
    for n in names:
        if n in ("parent", "entity_type", "children", "property_groups", "workspace", "concatenator"):
            continue
        out[n] = _get(e, n)
    try:
        out["parent"] = str(e.parent.uid) if e.parent is not None else None
    except Exception as ex:  # noqa: BLE001
        out["parent"] = {"exc": type(ex).__name__}
    try:
        out["children"] = sorted(str(c.uid) for c in getattr(e, "children", []))
    except Exception as ex:  # noqa: BLE001
        out["children"] = {"exc": type(ex).__name__}
    try:
        out["entity_type"] = snap_type(e.entity_type)
    except Exception as ex:  # noqa: BLE001
        out["entity_type"] = {"exc": type(ex).__name__}
    if hasattr(type(e), "property_groups"):
        try:
            pgs = e.property_groups or []
            out["property_groups"] = sorted(
                ({"uid": str(pg.uid), "name": pg.name, "association": canon(pg.association), "type": canon(pg.property_group_type),
                  "properties": [str(u) for u in (pg.properties or [])]} for pg in pgs), key=lambda d: d["uid"])
        except Exception as ex:  # noqa: BLE001
            out["property_groups"] = {"exc": type(ex).__name__}
    return out


def snap_ws(ws, res):
    """Snapshot an open workspace into res (project, root, entities, tree)."""
    for f in ("version", "distance_unit", "ga_version", "contributors", "name"):
        res["project"][f] = _get(ws, f)
    res["root"] = str(ws.root.uid) if ws.root is not None else None
    res["root_on_file"] = bool(getattr(ws.root, "on_file", False))
    ents = list(ws.groups) + list(ws.objects) + list(ws.data)
    for e in ents:
        res["entities"][str(e.uid)] = snap_entity(e)
    # a second pass: lazy getters may register further entities (visual parameters, concatenated data)
    for e in list(ws.groups) + list(ws.objects) + list(ws.data):
        if str(e.uid) not in res["entities"]:
            res["entities"][str(e.uid)] = snap_entity(e)
    res["tree"] = tree_listing(ws)


def tree_listing(ws):
    """What hangs on ws.root, walked through `children`: [(depth, class, name, uid, registered in the workspace)], the root's own
    identifier replaced by ROOT (a rebuilt root draws a new one)."""
    out = []
    try:
        registered = {e.uid for e in list(ws.groups) + list(ws.objects) + list(ws.data)}
        root_uid = ws.root.uid

        def rec(entity, depth):
            if depth > 12 or len(out) > 2000:
                return
            kids = [c for c in getattr(entity, "children", []) if hasattr(c, "children") or hasattr(c, "values")]
            for c in sorted(kids, key=lambda c: (str(c.name), str(c.uid))):
                out.append([depth, type(c).__name__, str(c.name), "ROOT" if c.uid == root_uid else str(c.uid), c.uid in registered])
                if hasattr(c, "children") and hasattr(c, "add_children"):
                    rec(c, depth + 1)

        rec(ws.root, 0)
    except Exception as e:  # noqa: BLE001
        out.append([-1, "exc", type(e).__name__, "", False])
    return out


def walk(path, mode="r"):
    """Open with geoh5py and snapshot.  Returns {"open": "ok"|{"exc":..}, "project": {...}, "entities": {uid: snap}, "root": uid}."""
    from geoh5py import Workspace

    res = {"open": "ok", "entities": {}, "project": {}, "root": None}
    try:
        ws = Workspace(path, mode=mode)
    except BaseException as e:  # noqa: BLE001
        if isinstance(e, KeyboardInterrupt):
            raise
        res["open"] = {"exc": type(e).__name__, "msg": str(e)[:200]}
        return res
    try:
        snap_ws(ws, res)
    finally:
        try:
            ws.close()
        except BaseException as e:  # noqa: BLE001
            res["close"] = {"exc": type(e).__name__}
    return res


def walk_reused(path, damage, mode="r"):
    """A long-lived Workspace object: open the intact file, close, apply `damage()` to the file, open the SAME object again with
    .open() and snapshot.  Returns like walk()."""
    from geoh5py import Workspace

    res = {"open": "ok", "entities": {}, "project": {}, "root": None}
    ws = Workspace(path, mode=mode)
    try:
        len(ws.groups), len(ws.objects), len(ws.data)
    finally:
        ws.close()
    damage()
    try:
        ws.open(mode=mode)
    except BaseException as e:  # noqa: BLE001
        if isinstance(e, KeyboardInterrupt):
            raise
        res["open"] = {"exc": type(e).__name__, "msg": str(e)[:200]}
        try:
            ws.close()
        except BaseException:  # noqa: BLE001
            pass
        return res
    try:
        snap_ws(ws, res)
    finally:
        try:
            ws.close()
        except BaseException as e:  # noqa: BLE001
            res["close"] = {"exc": type(e).__name__}
    return res


# dataset label -> the getter that reads it
STORED = {"Vertices": "vertices", "Cells": "cells", "Data": "values", "Surveys": "surveys", "Octree Cells": "octree_cells",
          "U cell delimiters": "u_cell_delimiters", "V cell delimiters": "v_cell_delimiters", "Z cell delimiters": "z_cell_delimiters",
          "Metadata": "metadata"}


def stored_unread(path, w):
    """[(uid, label)] for every returned entity whose node (flat container, by identifier) holds dataset `label` while the getter
    that reads it returned None or raised: content that is in the file and not in what the reader returns."""
    import h5py

    out = []
    with h5py.File(path, "r") as f:
        top = f[list(f)[0]]
        for u, e in w["entities"].items():
            if e["class"].startswith(("C:", "Cr:")):
                continue
            for flat in ("Groups", "Objects", "Data"):
                if flat in top and "{" + u + "}" in top[flat]:
                    node = top[flat]["{" + u + "}"]
                    for label, field in STORED.items():
                        if label in node and isinstance(node[label], h5py.Dataset) and field in e:
                            v = e[field]
                            if v is None or (isinstance(v, dict) and "exc" in v):
                                out.append([u, label])
    return out


# ----------------------------------------------------------------------------- deterministic identifiers while building
class seeded_uuids:
    """uuid.uuid4 replaced by a counter-driven generator so that a family file has the same identifiers on every build."""

    def __init__(self, seed):
        self.seed = seed
        self.n = 0

    def __enter__(self):
        import uuid

        self._orig = uuid.uuid4

        def gen():
            self.n += 1
            h = hashlib.sha256(f"c19-{self.seed}-{self.n}".encode()).digest()
            return uuid.UUID(bytes=h[:16], version=4)

        uuid.uuid4 = gen
        return self

    def __exit__(self, *a):
        import uuid

        uuid.uuid4 = self._orig


def build_seeded(family, path, seed):
    with seeded_uuids(seed):
        return build(family, path)


# ----------------------------------------------------------------------------- scan -> model file description (fspec)
def _printable(s):
    return all(32 <= ord(c) < 127 for c in s)


def to_spec(sc):
    """(spec, None) or (None, reason) when the file is outside the model (concatenated groups, orphans, foreign nodes)."""
    nodes, ords, tords = sc["nodes"], sc["ords"], sc["tords"]
    by_cpath = {json_key(nd["cpath"]): a for a, nd in nodes.items() if nd["cpath"] is not None}
    top = by_cpath.get("[]")
    tn = nodes[top]
    tl = dict(tn["links"])
    for must in ("Data", "Groups", "Objects", "Types", "Root"):
        if must not in tl:
            return None, f"no {must} link"
    if set(tl) - {"Data", "Groups", "Objects", "Types", "Root"}:
        return None, "foreign link under the workspace group"
    for a, nd in nodes.items():
        if nd["cpath"] is None or nd["role"] in ("other", "concat", "concatitem", "type:?"):
            return None, f"node outside the model: {nd['role']} at {nd['h5path']}"
        for k in list(nd["attrs"]) + [n for n, _ in nd["links"]]:
            if not _printable(k):
                return None, "non-ascii name"
    tok = [0]

    def newtok():
        tok[0] += 1
        return tok[0]

    def aval(name, v, owner_name=None):
        if name == "ID" and owner_name is not None and v == owner_name and owner_name in ords:
            return ["Uid", ords[owner_name]]
        if name == "ID":
            return ["Str", v.lower()]
        return ["Tok", int(hashlib.sha256(v.encode()).hexdigest()[:4], 16)]

    def amap(nd, owner_name=None):
        return [[mkey(k), aval(k, v, owner_name)] for k, v in nd["attrs"].items()]

    # types
    types = {"data": [], "group": [], "object": []}
    type_at = {}
    for (kind, name), i in sorted(tords.items(), key=lambda kv: (kv[0][0], kv[1])):
        a = by_cpath[json_key([["T"], ["TF", kind], ["U", i]])]
        nd = nodes[a]
        cm = vm = None
        for ln, la in nd["links"]:
            if ln == "Color map" and not nodes[la]["is_group"]:
                cm = [amap(nodes[la]), newtok()]
            elif ln == "Value map" and not nodes[la]["is_group"]:
                vm = newtok()
            else:
                return None, f"foreign link {ln} under a type"
        types[kind].append([i, {"attrs": amap(nd), "cmap": cm, "vmap": vm}])
        type_at[a] = (kind, i)
    seen = set()

    def ent(a, kind):
        nd = nodes[a]
        if a in seen:
            raise ValueError("entity reachable twice")
        seen.add(a)
        name = nd["owner"]
        if nd["role"] != "entity:" + {"group": "Groups", "object": "Objects", "data": "Data"}[kind]:
            raise ValueError("entity listed under a container of another kind")
        ty, dsets, pgs, conts, kids = None, [], None, [], []
        for ln, la in nd["links"]:
            ch = nodes[la]
            if ln == "Type":
                if la not in type_at or type_at[la][0] != kind:
                    raise ValueError("Type link does not point into the matching type container")
                ty = type_at[la][1]
            elif ln == "PropertyGroups" and ch["role"] == "pgs":
                if kind != "object":
                    raise ValueError("property groups outside an object")
                pgs = [[["N", pn], amap(nodes[pa])] for pn, pa in ch["links"]]
            elif ln in FLAT and ch["role"] == "children:" + ln:
                ck = KIND_OF_FLAT[ln]
                conts.append(ck)
                for cn, ca in ch["links"]:
                    if nodes[ca]["cpath"] != [[FLAT[ln]], ["U", ords[cn]]]:
                        raise ValueError("child entry is not the flat container's node")
                    kids.append(ent(ca, ck))
            elif ch["role"] == "dataset":
                dsets.append([mkey(ln), newtok()])
            else:
                raise ValueError(f"foreign link {ln} under an entity")
        if ty is None:
            raise ValueError("entity without Type link")
        if kind == "data" and (conts or kids):
            raise ValueError("data with children")
        return {"u": ords[name], "k": kind, "attrs": amap(nd, name), "ty": ty, "dsets": dsets, "pgs": pgs, "conts": conts, "kids": kids}

    ra = tl["Root"]
    if nodes[ra]["role"] != "entity:Groups" or nodes[ra]["cpath"] is None:
        return None, "Root target is not in the flat container"
    try:
        root = ent(ra, "group")
    except (ValueError, KeyError) as e:
        return None, str(e)
    n_ent = sum(1 for nd in nodes.values() if nd["role"].startswith("entity:"))
    if n_ent != len(seen):
        return None, "entities in a flat container that are not reachable from the root"
    return {"proj": amap(tn), "types": types, "root": root}, None


def json_key(x):
    import json

    return json.dumps(x)


def model_item(sc, it):
    """The item in model coordinates: {"t": "attr"|"link", "a": address, "k": key} or None."""
    nd = sc["nodes"][it["node"]]
    if nd["cpath"] is None:
        return None
    if it["t"] == "attr":
        k = mkey(it["name"])
    elif nd["role"].startswith("typeflat:"):
        kind = TFLAT[nd["role"][9:]]
        k = ["U", sc["tords"][(kind, it["name"])]]
    elif nd["role"] == "pgs":
        k = ["N", it["name"]]
    else:
        k = mkey(it["name"], sc["ords"])
    return {"t": it["t"], "a": nd["cpath"], "k": k}


def scan_nodes_for_model(sc):
    """[(address, attrs, is_dataset, links)] of every scanned node, in model coordinates (for the layout check)."""
    out = []
    nodes = sc["nodes"]
    for a, nd in nodes.items():
        if nd["cpath"] is None:
            return None
        owner = nd["owner"] if nd["role"].startswith("entity:") else None
        attrs = []
        for k, v in nd["attrs"].items():
            if k == "ID" and owner is not None and v == owner and owner in sc["ords"]:
                attrs.append([mkey(k), ["Uid", sc["ords"][owner]]])
            elif k == "ID":
                attrs.append([mkey(k), ["Str", v.lower()]])
            else:
                attrs.append([mkey(k), ["Tok", int(hashlib.sha256(v.encode()).hexdigest()[:4], 16)]])
        links = []
        for ln, la in nd["links"]:
            if nodes[la]["cpath"] is None:
                return None
            if nd["role"].startswith("typeflat:"):
                k = ["U", sc["tords"][(TFLAT[nd["role"][9:]], ln)]]
            elif nd["role"] == "pgs":
                k = ["N", ln]
            else:
                k = mkey(ln, sc["ords"])
            links.append([k, nodes[la]["cpath"]])
        out.append([nd["cpath"], attrs, not nd["is_group"], links])
    return out
