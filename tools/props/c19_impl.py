"""C19 helpers that touch the implementation: corpus builders (one library-produced file per entity family),
raw-HDF5 item enumeration (every attribute and every link, by node address), single deletions, and a walker that
snapshots everything a reader can see (including lazy getters).  Imported only inside drive_one / probes."""
from __future__ import annotations

import hashlib
import os
import warnings


# ----------------------------------------------------------------------------- corpus: files produced by the library
def _ints(n, k=1):
    import numpy as np

    return np.arange(n, dtype=float) * k + 1.0


def build_groups(path):
    import numpy as np
    from geoh5py import Workspace
    from geoh5py.groups import ContainerGroup
    from geoh5py.objects import Points

    with Workspace.create(path) as ws:
        g1 = ContainerGroup.create(ws, name="g1")
        g2 = ContainerGroup.create(ws, name="g2", parent=g1, allow_move=False)
        ContainerGroup.create(ws, name="g3-empty", parent=g1)
        p = Points.create(ws, name="pts-in-g2", parent=g2, vertices=np.array([[0.0, 0, 0], [1, 0, 0], [2, 1, 0]]))
        p.add_data({"dA": {"values": _ints(3)}})
        Points.create(ws, name="pts-top", vertices=np.array([[5.0, 5, 5], [6, 6, 6]]))
        g1.add_comment("a comment", author="me")


def build_points_curve_surface(path):
    import numpy as np
    from geoh5py import Workspace
    from geoh5py.objects import Curve, Points, Surface

    with Workspace.create(path) as ws:
        p = Points.create(ws, name="pts", vertices=np.array([[0.0, 0, 0], [1, 0, 0], [2, 1, 0], [3, 1, 1]]))
        d = p.add_data({"pa": {"values": _ints(4)}, "pb": {"values": _ints(4, 2)}, "pc": {"values": _ints(4, 3)}})
        p.add_data_to_group(d[:2], "PG1")
        p.add_data_to_group(d[2:], "PG2")
        c = Curve.create(ws, name="crv", vertices=np.array([[0.0, 0, 0], [1, 0, 0], [2, 0, 0], [3, 0, 0]]),
                         cells=np.array([[0, 1], [1, 2], [2, 3]], dtype="uint32"))
        dc = c.add_data({"cv": {"values": _ints(4)}, "cc": {"values": _ints(3), "association": "CELL"},
                         "ci": {"values": np.array([1, 2, 3, 4], dtype="int32"), "type": "integer"}})
        c.add_data_to_group(dc[0], "CPG")
        s = Surface.create(ws, name="srf", vertices=np.array([[0.0, 0, 0], [1, 0, 0], [0, 1, 0], [1, 1, 0]]),
                           cells=np.array([[0, 1, 2], [1, 2, 3]], dtype="uint32"))
        s.add_data({"sv": {"values": _ints(4)}, "sb": {"values": np.array([True, False]), "association": "CELL", "type": "boolean"}})
        s.metadata = {"some": "thing"}


def build_grids(path):
    import numpy as np
    from geoh5py import Workspace
    from geoh5py.objects import BlockModel, Grid2D, Octree

    with Workspace.create(path) as ws:
        g = Grid2D.create(ws, name="g2d", origin=[0, 0, 0], u_cell_size=2.0, v_cell_size=3.0, u_count=3, v_count=2,
                          rotation=0.0, dip=0.0)
        g.add_data({"gv": {"values": _ints(6)}})
        b = BlockModel.create(ws, name="bm", origin=[0, 0, 0], u_cell_delimiters=np.array([0.0, 1, 2]),
                              v_cell_delimiters=np.array([0.0, 1, 3]), z_cell_delimiters=np.array([0.0, -1, -2]))
        b.add_data({"bv": {"values": _ints(8)}})
        o = Octree.create(ws, name="oct", origin=[0, 0, 0], u_count=2, v_count=2, w_count=2, u_cell_size=1.0,
                          v_cell_size=1.0, w_cell_size=1.0, rotation=0.0)
        o.add_data({"ov": {"values": _ints(o.n_cells)}})


def build_drillhole(path):
    import numpy as np
    from geoh5py import Workspace
    from geoh5py.groups import DrillholeGroup
    from geoh5py.objects import Drillhole

    with Workspace.create(path, version=2.0) as ws:
        dg = DrillholeGroup.create(ws, name="DH")
        for k in range(2):
            w = Drillhole.create(ws, name=f"well{k}", parent=dg, collar=np.r_[0.0, 10.0 * k, 10.0],
                                 surveys=np.c_[np.linspace(0, 40, 5), np.ones(5) * 45.0, np.ones(5) * -80.0])
            w.add_data({
                "interval": {"values": _ints(3), "from-to": np.array([[0.0, 1.0], [1.0, 2.0], [2.0, 4.0]])},
                "log": {"values": _ints(4), "depth": np.array([0.0, 1.0, 2.0, 3.0])},
            })


def build_drillhole_v1(path):
    """Non-concatenated drillhole (file version 1.0)."""
    import numpy as np
    from geoh5py import Workspace
    from geoh5py.groups import DrillholeGroup
    from geoh5py.objects import Drillhole

    with Workspace.create(path, version=1.0) as ws:
        dg = DrillholeGroup.create(ws, name="DH1")
        w = Drillhole.create(ws, name="well", parent=dg, collar=np.r_[0.0, 10.0, 10.0],
                             surveys=np.c_[np.linspace(0, 40, 5), np.ones(5) * 45.0, np.ones(5) * -80.0])
        w.add_data({
            "interval": {"values": _ints(3), "from-to": np.array([[0.0, 1.0], [1.0, 2.0], [2.0, 4.0]])},
            "log": {"values": _ints(4), "depth": np.array([0.0, 1.0, 2.0, 3.0])},
        })


def build_text_ref(path):
    import numpy as np
    from geoh5py import Workspace
    from geoh5py.objects import Points

    with Workspace.create(path) as ws:
        p = Points.create(ws, name="pts", vertices=np.array([[0.0, 0, 0], [1, 0, 0], [2, 1, 0]]))
        d = p.add_data({
            "txt": {"type": "text", "values": np.array(["a", "bb", "ccc"])},
            "ref": {"type": "referenced", "values": np.array([1, 2, 1]), "value_map": {1: "one", 2: "two"}},
            "flt": {"values": _ints(3)},
        })
        p.add_comment("hello", author="x")
        rgba = np.c_[np.array([1.0, 2.0, 3.0]), np.array([0, 100, 255]), np.array([255, 100, 0]), np.array([10, 20, 30]),
                     np.ones(3) * 255]
        d[2].entity_type.color_map = rgba
        d[2].entity_type.units = "m"
        p.visual_parameters  # noqa: B018


def build_geoimage(path):
    import numpy as np
    from geoh5py import Workspace
    from geoh5py.objects import GeoImage

    with Workspace.create(path) as ws:
        img = GeoImage.create(ws, name="img")
        img.image = np.arange(48, dtype="uint8").reshape(4, 4, 3)
        img.vertices = np.array([[0.0, 4, 0], [4, 4, 0], [4, 0, 0], [0, 0, 0]])


FAMILIES = {
    "groups": build_groups,
    "pcs": build_points_curve_surface,
    "grids": build_grids,
    "drillhole": build_drillhole,
    "drillhole_v1": build_drillhole_v1,
    "textref": build_text_ref,
    "geoimage": build_geoimage,
}


def build(family, path):
    if os.path.exists(path):
        os.remove(path)
    with warnings.catch_warnings():
        warnings.simplefilter("ignore")
        FAMILIES[family](path)
    return path


def sha256(path):
    h = hashlib.sha256()
    with open(path, "rb") as f:
        for blk in iter(lambda: f.read(1 << 20), b""):
            h.update(blk)
    return h.hexdigest()


# ----------------------------------------------------------------------------- raw HDF5: nodes, items, deletions
FLAT = ("Data", "Groups", "Objects", "Types")
TYPE_FLAT = ("Data types", "Group types", "Object types")


def _addr(obj):
    import h5py

    return int(h5py.h5o.get_info(obj.id).addr)


def _s(x):
    if isinstance(x, bytes):
        return x.decode("utf-8", "replace")
    return str(x)


def scan(path):
    """Return (nodes, items).  nodes: addr -> {"path": first path found (sorted DFS), "role": ..., "owner": uid or None,
    "is_group": bool, "attrs": [names], "links": {name: addr}}.  items: list of dicts
    {"t": "attr"|"link", "node": addr, "path": node path, "name": ..., "kind": <item kind string>, "owner": uid|None}."""
    import h5py

    nodes = {}
    with h5py.File(path, "r") as f:
        top = list(f)[0]

        def visit(obj, pth, role, owner):
            a = _addr(obj)
            if a in nodes:
                return a
            isg = isinstance(obj, h5py.Group)
            nd = {"path": pth, "role": role, "owner": owner, "is_group": isg, "attrs": sorted(obj.attrs.keys()), "links": {}}
            nodes[a] = nd
            if isg:
                for name in sorted(obj.keys()):
                    child = obj[name]
                    crole, cowner = child_role(role, owner, name, child)
                    nd["links"][name] = visit(child, pth + "/" + name, crole, cowner)
            return a

        def child_role(role, owner, name, child):
            isg = isinstance(child, h5py.Group)
            if role == "workspace":
                if name in ("Data", "Groups", "Objects"):
                    return "flat:" + name, None
                if name == "Types":
                    return "types", None
                if name == "Root":
                    return "entity:Groups", _uid_of(child)
                return "other", None
            if role.startswith("flat:"):
                return "entity:" + role[5:], _uid_of(child) or name
            if role == "types":
                return "typeflat:" + name, None
            if role.startswith("typeflat:"):
                return "type:" + role[9:], _uid_of(child) or name
            if role.startswith("entity:"):
                if name == "Type":
                    return "type:" + {"Data": "Data types", "Groups": "Group types", "Objects": "Object types"}[role[7:]], _uid_of(child)
                if name in ("Data", "Groups", "Objects") and isg:
                    return "children:" + name, owner
                if name == "PropertyGroups":
                    return "pgs", owner
                if name == "Concatenated Data":
                    return "concat", owner
                return "dataset:" + name, owner
            if role.startswith("children:"):
                return "entity:" + role[9:], _uid_of(child) or name
            if role == "pgs":
                return "pg", owner
            if role.startswith("type:"):
                return "typedataset:" + name, owner
            if role == "concat" or role.startswith("concat"):
                return "concat:" + name if role == "concat" else "concatitem", owner
            return "other", owner

        def _uid_of(child):
            v = child.attrs.get("ID")
            return _s(v) if v is not None else None

        visit(f[top], "/" + top, "workspace", None)
    # flat-container registration first: re-root canonical paths of entities to the flat container when present
    items = []
    for a, nd in sorted(nodes.items(), key=lambda kv: kv[1]["path"]):
        for an in nd["attrs"]:
            items.append({"t": "attr", "node": a, "path": nd["path"], "name": an, "owner": nd["owner"],
                          "kind": f"attr|{_role_class(nd['role'])}|{an}"})
        for ln, ca in nd["links"].items():
            cr = nodes[ca]["role"]
            items.append({"t": "link", "node": a, "path": nd["path"], "name": ln, "owner": nd["owner"], "target_owner": nodes[ca]["owner"],
                          "kind": f"link|{_role_class(nd['role'])}|{_link_class(nd['role'], ln, cr)}"})
    return nodes, items


def _role_class(role):
    return role


def _link_class(prole, name, crole):
    """Name of a link, with uuid-named links abstracted to the role of their target."""
    if crole.startswith("entity:") and name != "Root":
        return "<" + crole + ">"
    if crole.startswith("type:") and name != "Type":
        return "<" + crole + ">"
    if crole == "pg":
        return "<pg>"
    if crole == "concatitem":
        return "<concatitem>"
    return name


def delete_item(path, item):
    import h5py

    with h5py.File(path, "r+") as f:
        node = f[item["path"]]
        if item["t"] == "attr":
            del node.attrs[item["name"]]
        else:
            del node[item["name"]]


# ----------------------------------------------------------------------------- walker: everything a reader can see
LAZY = [
    "values", "vertices", "cells", "metadata", "origin", "u_cell_delimiters", "v_cell_delimiters", "z_cell_delimiters",
    "octree_cells", "surveys", "collar", "trace", "trace_depth", "image", "layers", "prisms", "tag", "n_cells", "n_vertices",
    "parts", "centroids", "u_cell_size", "v_cell_size", "w_cell_size", "u_count", "v_count", "w_count", "rotation", "dip", "vertical",
    "value_map", "file_name", "association", "visual_parameters", "comments", "from_", "to_", "depth_", "cost", "planning",
    "end_of_hole", "default_collocation_distance", "modifiable", "n_values", "nan_value", "ndv", "last_focus", "concatenated_attributes",
]
TYPE_FIELDS = ["uid", "name", "description", "primitive_type", "units", "hidden", "mapping", "number_of_bins", "transparent_no_data",
               "color_map", "value_map", "allow_move_content", "allow_delete_content", "precision", "scientific_notation",
               "duplicate_type_on_copy", "duplicate_on_copy"]


def canon(v, depth=0):
    import enum
    import uuid

    import numpy as np

    if depth > 6:
        return "<deep>"
    if v is None or isinstance(v, (bool, int, str)):
        return v
    if isinstance(v, float):
        return None if v != v else v
    if isinstance(v, bytes):
        return {"bytes": hashlib.sha256(v).hexdigest()[:16], "len": len(v)}
    if isinstance(v, uuid.UUID):
        return str(v)
    if isinstance(v, enum.Enum):
        return v.name
    if isinstance(v, np.generic):
        return canon(v.item(), depth + 1)
    if isinstance(v, np.ndarray):
        if v.dtype.names:
            return {"dtype": [str(n) for n in v.dtype.names], "rows": [canon(list(r), depth + 1) for r in v.tolist()][:400]}
        flat = v.ravel()
        if flat.size > 400:
            return {"shape": list(v.shape), "dtype": str(v.dtype), "sha": hashlib.sha256(np.ascontiguousarray(v).tobytes()).hexdigest()[:16]}
        return {"shape": list(v.shape), "dtype": str(v.dtype), "v": [canon(x, depth + 1) for x in flat.tolist()]}
    if isinstance(v, dict):
        return {str(k): canon(x, depth + 1) for k, x in sorted(v.items(), key=lambda kv: str(kv[0]))}
    if isinstance(v, (list, tuple)):
        return [canon(x, depth + 1) for x in v]
    if hasattr(v, "uid"):
        return {"ref": str(v.uid)}
    if hasattr(v, "_values") and hasattr(v, "name"):  # ColorMap
        return {"cmap": canon(getattr(v, "_values", None), depth + 1), "name": getattr(v, "name", None)}
    if hasattr(v, "map"):  # ReferenceValueMap
        return {"vmap": canon(v.map, depth + 1)}
    if hasattr(v, "tobytes") and hasattr(v, "size") and hasattr(v, "mode"):  # PIL image
        return {"image": hashlib.sha256(v.tobytes()).hexdigest()[:16], "size": list(v.size), "mode": v.mode}
    return "<" + type(v).__name__ + ">"


def _get(obj, name):
    try:
        return canon(getattr(obj, name))
    except Exception as e:  # noqa: BLE001 - the failure of a getter on a damaged file is an observation
        return {"exc": type(e).__name__}


def snap_type(t):
    out = {"class": type(t).__name__}
    for f in TYPE_FIELDS:
        if hasattr(type(t), f):
            out[f] = _get(t, f)
    return out


def snap_entity(e):
    out = {"class": type(e).__name__.replace("Concatenated", "C:").replace("Concatenator", "Cr:")}
    amap = getattr(e, "attribute_map", {}) or {}
    names = sorted({v.split(":")[0].strip() for v in amap.values()} | {n for n in LAZY if hasattr(type(e), n)})
    for n in names:
        if n in ("parent", "entity_type", "children", "property_groups", "workspace", "concatenator"):
            continue
        out[n] = _get(e, n)
    try:
        out["parent"] = str(e.parent.uid) if e.parent is not None else None
    except Exception as ex:  # noqa: BLE001
        out["parent"] = {"exc": type(ex).__name__}
    try:
        out["children"] = sorted(str(c.uid) for c in getattr(e, "children", []))
    except Exception as ex:  # noqa: BLE001
        out["children"] = {"exc": type(ex).__name__}
    try:
        out["entity_type"] = snap_type(e.entity_type)
    except Exception as ex:  # noqa: BLE001
        out["entity_type"] = {"exc": type(ex).__name__}
    if hasattr(type(e), "property_groups"):
        try:
            pgs = e.property_groups or []
            out["property_groups"] = sorted(
                ({"uid": str(pg.uid), "name": pg.name, "association": canon(pg.association), "type": canon(pg.property_group_type),
                  "properties": [str(u) for u in (pg.properties or [])]} for pg in pgs), key=lambda d: d["uid"])
        except Exception as ex:  # noqa: BLE001
            out["property_groups"] = {"exc": type(ex).__name__}
    return out


def walk(path, mode="r"):
    """Open with geoh5py and snapshot.  Returns {"open": "ok"|{"exc":..}, "project": {...}, "entities": {uid: snap}, "root": uid}."""
    from geoh5py import Workspace

    res = {"open": "ok", "entities": {}, "project": {}, "root": None}
    try:
        ws = Workspace(path, mode=mode)
    except BaseException as e:  # noqa: BLE001
        if isinstance(e, KeyboardInterrupt):
            raise
        res["open"] = {"exc": type(e).__name__, "msg": str(e)[:200]}
        return res
    try:
        for f in ("version", "distance_unit", "ga_version", "contributors", "name"):
            res["project"][f] = _get(ws, f)
        res["root"] = str(ws.root.uid) if ws.root is not None else None
        res["root_on_file"] = bool(getattr(ws.root, "on_file", False))
        ents = list(ws.groups) + list(ws.objects) + list(ws.data)
        for e in ents:
            res["entities"][str(e.uid)] = snap_entity(e)
        # a second pass: lazy getters may register further entities (visual parameters, concatenated data)
        for e in list(ws.groups) + list(ws.objects) + list(ws.data):
            if str(e.uid) not in res["entities"]:
                res["entities"][str(e.uid)] = snap_entity(e)
    finally:
        try:
            ws.close()
        except BaseException as e:  # noqa: BLE001
            res["close"] = {"exc": type(e).__name__}
    return res
