"""C11 — Closing always leaves a complete file and a released handle (workspace/workspace.py, shared/utils.py)."""
from __future__ import annotations

from vlib import common as C
from vlib.common import cbool, clist, cnat, cstr

from props import c10 as K

ID = "C11"
PROPERTIES_V = "theories/Properties/C11.v"
CASE_IMPORTS = K.CASE_IMPORTS
ALLOWED_AXIOMS: list = []
REFUTED = ["C11_repoint_first_variant_refuted (a variant of save_as that re-points _h5file before the copy -- not the code)"]
PARTIAL = [
    "whole property: 'no HDF5 handle stays open' and 'the file is valid and can be opened again' are HDF5 facts observed by the "
    "oracle (h5py.h5f.get_obj_count, re-open from a second Workspace), not proved",
    "C11_completed_ops_persist_partial: the model's file is the append-only log of H5Writer routines; that their HDF5 content is "
    "the state the API showed is C01's subject; here it is checked by the oracle on every with-block (re-open and compare)",
    "C11_exit_always_closes / C11_exit_propagates / C11_reopen_restores assume the final save inside close() does not raise "
    "(C11_close_not_exception_safe states what happens otherwise; reproduced by fault injection, outside the property's quantifier)",
]
TRUSTED = [
    "Coq 8.16.1 kernel + vm_compute (table theorem, correspondence evaluation); no axioms (Print Assumptions: closed)",
    "tools/vlib/iotable.py (ast extractor of T_iocalls, regenerated every run); hand model coq/theories/Model/Mode.v of "
    "Workspace.{geoh5, open, close, __exit__, _io_call, save_as} and fetch_active_workspace, tied by correspondence",
    "h5py/HDF5: File.close releases the file, a closed File is falsy, get_obj_count counts open identifiers; contextlib's "
    "AbstractContextManager.__enter__ returns self and `with` calls __exit__ on every exit path (Python semantics)",
    "tools/vlib/{iofix,ioentries,iotrace,iodrive}.py and tools/props/c11.py (generator, driver with its expected-state ledger, oracle)",
]
ASSUMPTIONS = [
    "exceptions are raised between operations or by an operation itself; process kills, power loss and I/O errors inside "
    "close() are out of scope (HDF5 has no journal) -- the latter is exercised by fault injection and reported, not judged",
    "no other process touches the file during a case",
]
RULE = (
    "with: 2-7 semantic operations (create, add_data, rename, set vertices/values, metadata, move, copy, remove, listing, gc, "
    "inner close/open/fetch_active_workspace, an operation that raises by itself) inside `with Workspace(path, mode)` on a copy of "
    "the fixture, run once for EVERY exception position k=0..n (n = normal exit); afterwards: handle state, open HDF5 file "
    "count, propagated exception, re-open from a second Workspace and comparison of every completed operation's effect, "
    "ws.open() on the same object; ~6% with an injected OSError in the final save; after_close: every getter of every fixture "
    "class called on an entity whose workspace was closed, compared with the same getter on an open workspace; closed_entry: "
    "public mutating entry points called after close; fa_exc: fetch_active_workspace blocks left by an exception or normally, from "
    "every starting state x requested mode; reopen_content: file edited through another handle (or rejected read-only writes) "
    "between close and ws.open(), entity and entity-type fields compared with a third Workspace; mem_dh: BytesIO workspaces with "
    "concatenated drillholes through close / with-exit / exception / save_as; save_fault: save_as / create / constructor with "
    "an unwritable target (missing directory, existing file, wrong suffix) from disk and in-memory sources, then open() and a valid "
    "save_as; after_close also after a session that set the repack flag.  non-trivial = a block with >= 2 completed writing operations and an "
    "exception, or a getter/entry point that reaches _io_call after close"
)
LEVEL_TEXT = (
    "Proved in Coq over the hand model of Workspace.close/__exit__/open/_io_call/save_as and fetch_active_workspace, for ALL "
    "operation lists and ALL exception positions of a with-block: the handle is closed after the exit and the exception is not "
    "swallowed (given that the final save does not itself raise), every operation that needs the file raises the closed-file "
    "error afterwards and changes nothing, close+open restores a handle in the constructor's mode on the content left by the "
    "close, and the log of writer routines of the completed operations is in the file in order (append-only; partial: the log "
    "is as far as the model carries 'content'). save_as failures: the code's order (copy, then re-point _h5file) keeps the "
    "pointer valid and open() succeeds (theorem on save_as_detail; the re-point-first variant is refuted); "
    "C11_failed_save_as_recoverable is definitional on the op SaveAsFail. PARTIAL BY NATURE: that no HDF5 handle stays open and that the file re-opens "
    "with every completed operation's effect is observed on the implementation (h5py open-file count, second Workspace, value "
    "comparison), not proved. Model and code are compared per case inside Coq; the call-site table is regenerated every run."
)
TECHNIQUE = "Coq proof (all op lists x all exception positions) + ast-extracted call-site table + differential runs with injected exceptions"
DRIVE_TIMEOUT = 900


def regenerate(repo):
    return K.regenerate(repo)


# ----------------------------------------------------------------------------- generation
OBJ_LABELS = ["pts", "curve", "surf"]


def gen_block(rng, mode):
    n = rng.range(2, 7)
    ops = []
    created = []      # names of objects created so far in this block
    datas = []        # (obj label, data name)
    removed = set()
    for i in range(n):
        objs = [o for o in OBJ_LABELS + created if o not in removed]
        k = rng.weighted([("create", 14), ("create_unsaved", 7), ("add_data", 18), ("rename", 10), ("set_vertices", 7), ("set_values", 8), ("metadata", 6),
                          ("move", 5), ("copy", 7), ("remove", 7), ("list", 4), ("gc", 3), ("close", 2), ("open", 2), ("fa", 4),
                          ("bad", 4)])
        if k == "create":
            nm = f"new{i}"
            ops.append({"op": "create", "name": nm, "parent": rng.choice(["root", "container"]), "tok": rng.range(1, 50)})
            created.append(nm)
        elif k == "create_unsaved":
            # public API: the entity is registered in the tree but not written; the final save of close() has to write it
            nm = f"new{i}"
            ops.append({"op": "create_unsaved", "name": nm, "parent": rng.choice(["root", "container"]), "tok": rng.range(1, 50)})
            created.append(nm)
        elif k == "add_data" and objs:
            o = rng.choice(objs)
            nm = f"d{i}"
            ops.append({"op": "add_data", "obj": o, "name": nm, "tok": rng.range(1, 50)})
            datas.append((o, nm))
        elif k == "rename" and objs:
            ops.append({"op": "rename", "ent": rng.choice(objs), "name": f"renamed{i}"})
        elif k == "set_vertices" and objs:
            ops.append({"op": "set_vertices", "obj": rng.choice(objs), "tok": rng.range(1, 50)})
        elif k == "set_values":
            live = [d for d in datas if d[0] not in removed]
            if live:
                o, d = rng.choice(live)
                ops.append({"op": "set_values", "obj": o, "data": d, "tok": rng.range(1, 50)})
            else:
                ops.append({"op": "set_values", "obj": "pts", "data": "f", "tok": rng.range(1, 50)})
        elif k == "metadata" and objs:
            ops.append({"op": "metadata", "ent": rng.choice(objs), "val": {"k": rng.range(0, 99)}})
        elif k == "move" and objs:
            ops.append({"op": "move", "ent": rng.choice(objs), "to": rng.choice(["subgroup", "container"])})
        elif k == "copy" and objs:
            ops.append({"op": "copy", "ent": rng.choice(objs)})
        elif k == "remove" and len(objs) > 1:
            o = rng.choice([x for x in objs if x != "pts"] or objs)
            ops.append({"op": "remove", "ent": o})
            removed.add(o)
        elif k == "list":
            ops.append({"op": "list", "kind": rng.choice(["objects", "data", "groups"])})
        elif k == "gc":
            ops.append({"op": "gc"})
        elif k == "close":
            ops.append({"op": "close"})
        elif k == "open":
            ops.append({"op": "open", "mode": rng.choice([None, None, "r", "r+"])})
        elif k == "fa":
            ops.append({"op": "fetch_active", "mode": rng.choice(["r", "r+", "a"]),
                        "body": {"op": "rename", "ent": "pts", "name": f"fa{i}"}})
        else:
            ops.append({"op": "bad", "which": rng.choice(["vertices_shape", "data_length", "no_such_parent"])})
    return ops


def generate(rng, tier):
    cases = []
    nblocks = 26 if tier == "quick" else 600
    fixed = [
        [{"op": "create", "name": "new0", "parent": "root", "tok": 3}, {"op": "add_data", "obj": "new0", "name": "d1", "tok": 5},
         {"op": "rename", "ent": "new0", "name": "renamed2"}, {"op": "set_values", "obj": "new0", "data": "d1", "tok": 9}],
        [{"op": "add_data", "obj": "pts", "name": "d0", "tok": 2}, {"op": "close"}, {"op": "rename", "ent": "pts", "name": "renamed2"},
         {"op": "create", "name": "new3", "parent": "root", "tok": 1}],
        [{"op": "rename", "ent": "curve", "name": "renamed0"},
         {"op": "fetch_active", "mode": "r", "body": {"op": "rename", "ent": "pts", "name": "fa1"}},
         {"op": "fetch_active", "mode": "a", "body": {"op": "rename", "ent": "pts", "name": "fa2"}},
         {"op": "add_data", "obj": "pts", "name": "d3", "tok": 4}],
        [{"op": "remove", "ent": "curve"}, {"op": "gc"}, {"op": "list", "kind": "data"}, {"op": "bad", "which": "vertices_shape"},
         {"op": "create", "name": "new4", "parent": "container", "tok": 7}],
    ]
    fixed.append([{"op": "create_unsaved", "name": "new0", "parent": "root", "tok": 4}, {"op": "rename", "ent": "pts", "name": "renamed1"},
                  {"op": "create_unsaved", "name": "new2", "parent": "container", "tok": 6}])
    blocks = [("r+", b) for b in fixed] + [("r", fixed[0][:2])]
    for _ in range(nblocks):
        mode = rng.weighted([("r+", 80), ("a", 10), ("r", 10)])
        blocks.append((mode, gen_block(rng, mode)))
    for mode, ops in blocks:
        ks = range(len(ops) + 1) if tier == "thorough" or len(ops) <= 5 else sorted(set([0, len(ops)] + rng.sample(list(range(1, len(ops))), 3)))
        for k in ks:
            # the injected I/O error hits the final save of the block's exit only; the model's close_fault is a constant of the
            # run, so blocks that close earlier (inner close / a fetch_active_workspace that re-opens) are not given a fault
            closes_inside = any(o["op"] in ("close", "fetch_active") for o in ops[:k])
            fault = rng.chance(6) and mode != "r" and not closes_inside
            cases.append({"kind": "with", "mode": mode, "ops": ops, "k": k, "fault": fault})
    cases.append({"kind": "with", "mode": "r+", "ops": fixed[0], "k": 2, "fault": True})
    # exceptions escaping fetch_active_workspace blocks: every starting state x every requested mode x {raise, normal}
    for start in ("closed_rp", "closed_r", "open_r", "open_rp"):
        for req in ("r", "r+", "a"):
            for rz in (True, False):
                bodies = ["create", "rename", "read"] if tier == "thorough" else [rng.choice(["create", "rename"]), "read"]
                for body in bodies:
                    cases.append({"kind": "fa_exc", "start": start, "req": req, "raise": rz, "body": body})
    # re-opening restores the *file's* content: edits through another handle (or rejected read-only writes) between close and open
    edits_all = ["type_name", "type_units", "object_name", "data_name", "data_values", "group_name", "metadata", "object_type_name"]
    for via in ("other", "rejected"):
        for hold in (True, False):
            for mode1 in (("r+", "r") if via == "other" else ("r",)):
                cases.append({"kind": "reopen_content", "via": via, "hold": hold, "mode1": mode1, "edits": edits_all,
                              "mode2": rng.choice([None, "r", "r+"])})
    for _ in range(4 if tier == "quick" else 60):
        cases.append({"kind": "reopen_content", "via": "other", "hold": rng.chance(60),
                      "mode1": rng.choice(["r", "r+"]), "edits": rng.sample(edits_all, rng.range(1, 4)),
                      "mode2": rng.choice([None, "r", "r+"])})
    # the operation that closes may itself fail: save_as / create / constructor with a target that cannot be written
    for src in ("disk_rp", "disk_r", "memory"):
        for fault in ("missing_dir", "existing_target", "wrong_suffix"):
            cases.append({"kind": "save_fault", "src": src, "fault": fault, "via": "save_as", "tok": rng.range(1, 40),
                          "edits": rng.range(0, 2)})
    for via in ("create", "ctor"):
        for fault in ("missing_dir", "wrong_suffix"):
            cases.append({"kind": "save_fault", "src": "memory", "fault": fault, "via": via, "tok": 1, "edits": 0})
    # in-memory (BytesIO) workspaces holding concatenated drillholes, through every way of closing
    for end in ("close", "with_ok", "with_exc", "save_as"):
        for extra in ([], ["add_data"], ["rename_well", "set_values"], ["remove_data", "points"]):
            if tier == "quick" and extra and not rng.chance(60):
                continue
            cases.append({"kind": "mem_dh", "end": end, "extra": extra, "tok": rng.range(1, 40)})
    # getters after close, per fixture target
    info = K.reflect()
    getters = {}
    for owner, member, kind in info["entries"]:
        if kind == "getter":
            getters.setdefault(owner, []).append(member)
    for lab, mro in info["mros"].items():
        if lab in ("workspace",):
            continue
        ms = sorted({(o, m) for o in mro for m in getters.get(o, [])})
        if ms:
            cases.append({"kind": "after_close", "target": lab, "mode": rng.choice(["r", "r+"]), "members": [list(x) for x in ms]})
            if lab in ("pts", "curve", "data_float", "grid2d", "drillhole", "cdh", "container", "type_float") or (tier == "thorough"):
                # the same after a session that deleted something (sets Workspace.repack: close takes its repack branch)
                cases.append({"kind": "after_close", "target": lab, "mode": "r+", "dirty": True, "members": [list(x) for x in ms]})
    # mutating entry points after close
    ents = [c for c in K.entry_cases(rng, "quick") if c["target"] is not None and "variant" not in c]
    if tier == "quick":
        ents = [c for i, c in enumerate(ents) if c["ekind"] == "method" or i % 3 == 0]
    for c in ents:
        cases.append(dict(c, kind="closed_entry"))
    # the workspace's file readers on every kind of operand (plain, group, concatenator with loaded children, concatenated ...)
    for member, args in (("fetch_children", ["pts", "container", "dhgroup", "cdh", "drillhole", "root", "data_float", "uijson"]),
                         ("fetch_values", ["data_float", "data_text", "data_ref", "data_concat", "data_dh"]),
                         ("fetch_metadata", ["pts", "container", "atem_rx", "dc_rx"])):
        for a in args:
            cases.append({"kind": "closed_entry", "target": "workspace", "owner": "Workspace", "member": member, "ekind": "method",
                          "arg": a})
    return cases


# ----------------------------------------------------------------------------- implementation driver
def _tok_vertices(tok, n):
    import numpy as np

    return np.c_[np.arange(n) * 1.0 + tok, np.arange(n) * 2.0, np.full(n, float(tok))]


def _digest(v, depth=0):
    import hashlib
    import uuid

    import numpy as np

    if depth > 4:
        return "deep"
    if v is None or isinstance(v, (bool, int, float, str, uuid.UUID)):
        return repr(v)
    if isinstance(v, np.ndarray):
        if v.dtype.kind == "O" or v.dtype.names:
            return "nd:" + hashlib.sha256(repr(v.tolist()).encode()).hexdigest()[:16]
        return f"nd:{v.shape}:{v.dtype}:" + hashlib.sha256(np.ascontiguousarray(v).tobytes()).hexdigest()[:16]
    if hasattr(v, "uid") and hasattr(v, "name"):
        return f"<{type(v).__name__} {v.uid}>"
    if isinstance(v, (list, tuple)):
        return "[" + ",".join(_digest(x, depth + 1) for x in list(v)[:200]) + "]"
    if isinstance(v, dict):
        return "{" + ",".join(f"{_digest(k, depth + 1)}:{_digest(x, depth + 1)}" for k, x in sorted(v.items(), key=lambda kv: repr(kv[0]))) + "}"
    if isinstance(v, bytes):
        return "b:" + hashlib.sha256(v).hexdigest()[:16]
    return f"<{type(v).__name__}>" if "object at 0x" in repr(v) else repr(v)[:200]


def drive_one(case, work):
    import warnings

    warnings.simplefilter("ignore")
    if case["kind"] == "with":
        return drive_with(case, work)
    if case["kind"] == "after_close":
        return drive_after_close(case, work)
    if case["kind"] == "fa_exc":
        return drive_fa_exc(case, work)
    if case["kind"] == "reopen_content":
        return drive_reopen_content(case, work)
    if case["kind"] == "mem_dh":
        return drive_mem_dh(case, work)
    if case["kind"] == "save_fault":
        return drive_save_fault(case, work)
    return drive_closed_entry(case, work)


def drive_save_fault(case, work):
    """save_as / Workspace.create / Workspace(new path) whose target cannot be written; the workspace object must stay usable"""
    import gc
    import os
    import shutil

    import numpy as np
    from geoh5py import Workspace
    from geoh5py.objects import Points
    from vlib import iodrive, iotrace

    tmp = os.path.join(work, f"tmpsf_{os.getpid()}")
    shutil.rmtree(tmp, ignore_errors=True)
    os.makedirs(tmp)
    out = {"ops": [], "nfiles_before": iotrace.n_open_files()}
    tok = case["tok"]
    bad = {"missing_dir": os.path.join(tmp, "no_such_dir", "copy.geoh5"),
           "existing_target": os.path.join(tmp, "taken.geoh5"),
           "wrong_suffix": os.path.join(tmp, "copy.h5")}[case["fault"]]
    if case["fault"] == "existing_target":
        with open(bad, "wb") as f:
            f.write(b"someone else's file")
    ws = None
    try:
        if case["via"] in ("create", "ctor"):
            # no workspace object survives; nothing may leak and the failure must be reported
            thunk = (lambda: Workspace.create(bad)) if case["via"] == "create" else (lambda: Workspace(bad))
            d = iodrive.call_traced(thunk)
            out["fail_exc"] = d["exc"]
            out["target_exists"] = os.path.exists(bad)
            gc.collect()
            out["nfiles_after_fail"] = iotrace.n_open_files()
            return out
        if case["src"] == "memory":
            ws = Workspace()
        else:
            path, log = iodrive.fresh_copy(work, "sf")
            shutil.move(path, os.path.join(tmp, "source.geoh5"))
            ws = Workspace(os.path.join(tmp, "source.geoh5"), mode="r" if case["src"] == "disk_r" else "r+")
        out["handle0"], out["ctor_mode"] = iotrace.handle_state(ws), ws._mode  # noqa: SLF001
        expected = {}
        if out["handle0"] == "r+":
            def populate():
                p = Points.create(ws, vertices=_tok_vertices(tok, 5), name="sf_pts")
                dd = p.add_data({"sf_vals": {"values": np.arange(5.0) + tok}})
                expected[str(p.uid)] = {"name": "sf_pts", "vertices": _tok_vertices(tok, 5).tolist()}
                expected[str(dd.uid)] = {"name": "sf_vals", "values": (np.arange(5.0) + tok).tolist()}
                for k in range(case["edits"]):
                    p.name = f"sf_pts{k}"
                    expected[str(p.uid)]["name"] = p.name
            rec = iodrive.call_traced(populate, ws)
            rec["handle_after"] = iotrace.handle_state(ws)
            out["ops"].append(rec)
            if rec["exc"] is not None:
                return {"not_driven": "populate failed: " + str(rec["exc"])}
        else:
            import uuid  # noqa: F401
            from vlib import iofix

            p = iofix.locate(ws, "pts")
            expected[str(p.uid)] = {"name": "pts", "vertices": np.asarray(p.vertices).tolist()}
            del p
        out["ncat"] = iodrive.n_concatenators(ws)
        out["h5file_before"] = "memory" if case["src"] == "memory" else "disk"
        # 1. the failing save_as
        before = ws.h5file
        d = iodrive.call_traced(lambda: ws.save_as(bad), ws)
        after = ws.h5file
        out["ptr_valid"] = (after is before) if case["src"] == "memory" else (str(after) == str(before) and os.path.exists(str(after)))
        del before, after
        out["fail"] = d
        out["fail_exc"] = d["exc"]
        out["handle_after_fail"] = iotrace.handle_state(ws)
        out["nfiles_after_fail"] = iotrace.n_open_files()
        out["target_written"] = os.path.exists(bad) and case["fault"] != "existing_target"
        # 2. a plain re-open of the same object must give everything back
        d = iodrive.call_traced(lambda: ws.open(), ws)
        out["reopen"] = d
        out["handle_reopened"] = iotrace.handle_state(ws)

        def view(w):
            import uuid

            got = {}
            for u, want in expected.items():
                e = w.get_entity(uuid.UUID(u))[0]
                if e is None:
                    got[u] = None
                    continue
                g = {"name": e.name}
                if "vertices" in want:
                    g["vertices"] = np.asarray(e.vertices).tolist() if e.vertices is not None else None
                if "values" in want:
                    g["values"] = np.asarray(e.values).tolist() if e.values is not None else None
                got[u] = g
            return got

        out["expected"] = expected
        if d["exc"] is None:
            try:
                out["view_reopened"] = view(ws)
            except BaseException as e:  # noqa: BLE001
                out["view_reopened"] = f"ERROR {type(e).__name__}: {str(e)[:100]}"
            # 3. and a valid save_as afterwards produces a complete file
            good = os.path.join(tmp, "good.geoh5")
            d2 = iodrive.call_traced(lambda: ws.save_as(good), ws)
            out["good"] = d2
            out["handle_after_good"] = iotrace.handle_state(ws)
            if ws._geoh5:  # noqa: SLF001
                ws.close()
            if d2["exc"] is None:
                try:
                    w2 = Workspace(good, mode="r")
                    out["view_good"] = view(w2)
                    w2.close()
                    del w2
                except BaseException as e:  # noqa: BLE001
                    out["view_good"] = f"ERROR {type(e).__name__}: {str(e)[:100]}"
    finally:
        if ws is not None and ws._geoh5:  # noqa: SLF001
            try:
                ws.close()
            except BaseException:  # noqa: BLE001
                ws._geoh5.close()  # noqa: SLF001
        del ws
        gc.collect()
        out["nfiles_end"] = iotrace.n_open_files()
        shutil.rmtree(tmp, ignore_errors=True)
    return out


def drive_fa_exc(case, work):
    """an exception (or none) leaves `with fetch_active_workspace(ws, mode=req)`; ws starts closed / open r / open r+"""
    import gc
    import os
    import uuid

    import numpy as np
    from geoh5py import Workspace
    from geoh5py.objects import Points
    from geoh5py.shared.utils import fetch_active_workspace
    from vlib import iodrive, iofix, iotrace
    from vlib.ioentries import Injected

    path, log = iodrive.fresh_copy(work, "fa")
    out = {"fixture_problems": log}
    start = case["start"]
    ws = Workspace(path, mode="r" if start == "closed_r" else "r+")
    try:
        out["ctor_mode"] = ws._mode  # noqa: SLF001
        out["ncat"] = iodrive.n_concatenators(ws)
        pts = iofix.locate(ws, "pts")
        curve = iofix.locate(ws, "curve")
        puid = pts.uid
        if start in ("closed_rp", "closed_r"):
            ws.close()
        elif start == "open_r":
            ws.close()
            ws.open(mode="r")
        out["handle_before"] = iotrace.handle_state(ws)
        out["nfiles_before"] = iotrace.n_open_files()
        verts = _tok_vertices(7, 3)
        made = {}

        def body(w):
            if case["body"] == "create":
                made["e"] = Points.create(w, vertices=verts, name="fa_made")
            elif case["body"] == "rename":
                pts.name = "fa_renamed"
                made["renamed"] = True
            else:
                curve.vertices  # noqa: B018 - lazy read
            if case["raise"]:
                raise Injected("inside fetch_active_workspace")

        def thunk():
            with fetch_active_workspace(ws, mode=case["req"]) as w:
                body(w)

        out.update(iodrive.call_traced(thunk, ws))
        out["handle_after"] = iotrace.handle_state(ws)
        out["nfiles_after"] = iotrace.n_open_files()
        probe = iodrive.call_traced(lambda: ws.fetch_children(ws.root), ws)
        out["probe_exc"], out["probe_calls"] = probe["exc"], len(probe["calls"])
        try:
            ws.geoh5  # noqa: B018
            out["geoh5_property"] = "handle"
        except BaseException as e:  # noqa: BLE001
            out["geoh5_property"] = iotrace.exc_kind(e)
        # what completed must be in the file (only when the workspace is closed now; an open r+ handle may hold unflushed data)
        out["persist"] = None
        if out["handle_after"] == "closed" and out["exc"] in (None, "Injected"):
            ws2 = Workspace(path, mode="r")
            try:
                if "e" in made:
                    got = ws2.get_entity(made["e"].uid)[0]
                    out["persist"] = got is not None and got.name == "fa_made" and np.asarray(got.vertices).tolist() == verts.tolist()
                elif made.get("renamed"):
                    out["persist"] = ws2.get_entity(puid)[0].name == "fa_renamed"
            finally:
                ws2.close()
    finally:
        if ws._geoh5:  # noqa: SLF001
            try:
                ws.close()
            except BaseException:  # noqa: BLE001
                ws._geoh5.close()  # noqa: SLF001
        made = None
        del ws
        gc.collect()
        out["nfiles_end"] = iotrace.n_open_files()
        os.remove(path)
    return out


def _describe(ws, uids):
    """what the API shows for the tracked entities, through fresh look-ups"""
    import uuid

    import numpy as np

    view = {}
    for label, u in uids.items():
        e = ws.get_entity(uuid.UUID(u))[0]
        if e is None:
            view[label] = None
            continue
        d = {"name": e.name, "type_name": e.entity_type.name}
        if hasattr(e.entity_type, "units"):
            d["type_units"] = e.entity_type.units
        if label == "data":
            d["values"] = np.asarray(e.values).tolist()
        if label == "object":
            d["metadata"] = e.metadata
        view[label] = d
    return view


def drive_reopen_content(case, work):
    import gc
    import os
    import uuid

    import numpy as np
    from geoh5py import Workspace
    from vlib import iodrive, iofix, iotrace

    path, log = iodrive.fresh_copy(work, "rc")
    out = {"fixture_problems": log}
    ws = Workspace(path, mode=case["mode1"])
    held = []
    try:
        pts = iofix.locate(ws, "pts")
        dat = next(c for c in pts.children if getattr(c, "name", None) == "f")
        grp = iofix.locate(ws, "container")
        uids = {"object": str(pts.uid), "data": str(dat.uid), "group": str(grp.uid)}
        if case["hold"]:
            held = [pts, dat, grp, dat.entity_type, pts.entity_type]      # the caller's variables, kept across the re-open
        new = {"type_name": "type renamed", "type_units": "ppm", "object_name": "pts renamed", "data_name": "f renamed",
               "data_values": (np.arange(6.0) + 100).tolist(), "group_name": "container renamed", "metadata": {"edited": 1},
               "object_type_name": "points type renamed"}

        def apply(w, tolerate):
            o = w.get_entity(uuid.UUID(uids["object"]))[0]
            d = w.get_entity(uuid.UUID(uids["data"]))[0]
            g = w.get_entity(uuid.UUID(uids["group"]))[0]
            setters = {
                "type_name": lambda: setattr(d.entity_type, "name", new["type_name"]),
                "type_units": lambda: setattr(d.entity_type, "units", new["type_units"]),
                "object_name": lambda: setattr(o, "name", new["object_name"]),
                "data_name": lambda: setattr(d, "name", new["data_name"]),
                "data_values": lambda: setattr(d, "values", np.asarray(new["data_values"])),
                "group_name": lambda: setattr(g, "name", new["group_name"]),
                "metadata": lambda: setattr(o, "metadata", dict(new["metadata"])),
                "object_type_name": lambda: setattr(o.entity_type, "name", new["object_type_name"]),
            }
            res = {}
            for k in case["edits"]:
                try:
                    setters[k]()
                    res[k] = None
                except BaseException as e:  # noqa: BLE001
                    res[k] = iotrace.exc_kind(e)
                    if not tolerate:
                        raise
            return res

        del pts, dat, grp
        if case["via"] == "rejected":
            out["rejected"] = apply(ws, True)          # read-only session: memory may change, every write must be refused
        ws.close()
        if case["via"] == "other":
            with Workspace(path, mode="r+") as other:
                out["other"] = apply(other, False)
            del other
        out["nfiles_mid"] = iotrace.n_open_files()
        d = iodrive.call_traced(lambda: ws.open(mode=case["mode2"]), ws)
        out["open_exc"] = d["exc"]
        out["handle_reopened"] = iotrace.handle_state(ws)
        out["view_same"] = _describe(ws, uids)
        out["same_object_returned"] = bool(held) and ws.get_entity(uuid.UUID(uids["data"]))[0] is held[1]
        ws.close()
        ws3 = Workspace(path, mode="r")
        out["view_file"] = _describe(ws3, uids)
        ws3.close()
        del ws3
    finally:
        if ws._geoh5:  # noqa: SLF001
            ws.close()
        held.clear()
        del ws
        gc.collect()
        out["nfiles_end"] = iotrace.n_open_files()
        os.remove(path)
    return out


def drive_mem_dh(case, work):
    """in-memory workspace with concatenated drillholes; every way of closing; the bytes must hold what was done"""
    import gc
    import io
    import os
    import shutil

    import numpy as np
    from geoh5py import Workspace
    from geoh5py.groups import DrillholeGroup
    from geoh5py.objects import Drillhole, Points
    from vlib import iodrive, iotrace
    from vlib.ioentries import Injected

    tmp = os.path.join(work, f"tmpmem_{os.getpid()}")
    shutil.rmtree(tmp, ignore_errors=True)
    os.makedirs(tmp)
    out = {"ops": [], "nfiles_before": iotrace.n_open_files()}
    tok = case["tok"]
    expected = {}

    def steps(ws):
        box = {}

        def mk_group():
            box["g"] = DrillholeGroup.create(ws, name="DH_group")

        def mk_well(nm):
            def f():
                box[nm] = Drillhole.create(ws, parent=box["g"], name=nm, collar=np.r_[0.0, 10.0, 10.0], surveys=np.c_[
                    np.linspace(0, 100, 5), np.ones(5) * 45.0, np.linspace(-89, -75, 5)])
                expected[nm] = {}
            return f

        def add(nm, dn, shift):
            def f():
                vals = np.arange(10.0) + shift
                box[nm].add_data({dn: {"depth": np.arange(0, 10.0), "values": vals}})
                expected[nm][dn] = vals.tolist()
            return f

        yield "group", mk_group
        for nm in ("well_A", "well_B"):
            yield "well", mk_well(nm)
            yield "add_data", add(nm, "assay", tok)
        for x in case["extra"]:
            if x == "add_data":
                yield x, add("well_A", "second", tok + 1)
            elif x == "rename_well":
                def f():
                    box["well_B"].name = "well_B2"
                    expected["well_B2"] = expected.pop("well_B")
                yield x, f
            elif x == "set_values":
                def f():
                    d = box["well_A"].get_data("assay")[0]
                    vals = np.arange(10.0) + tok + 5
                    d.values = vals
                    expected["well_A"]["assay"] = vals.tolist()
                yield x, f
            elif x == "remove_data":
                def f():
                    d = box["well_B"].get_data("assay")[0]
                    ws.remove_entity(d)
                    expected["well_B"].pop("assay")
                yield x, f
            elif x == "points":
                def f():
                    p = Points.create(ws, vertices=_tok_vertices(tok, 3), name="mem_pts")
                    p.add_data({"pv": {"values": np.arange(3.0)}})
                yield x, f

    def run_steps(ws):
        for name, f in steps(ws):
            rec = {"step": name, "handle_before": iotrace.handle_state(ws)}
            rec.update(iodrive.call_traced(f, ws))
            rec["handle_after"] = iotrace.handle_state(ws)
            out["ops"].append(rec)
            if rec["exc"] is not None:
                raise RuntimeError("step failed: " + name + " " + str(rec["exc"]) + " " + rec["msg"])

    def describe(ws):
        found = {}
        for g in ws.groups:
            if isinstance(g, DrillholeGroup):
                for well in g.children:
                    found[well.name] = {n: np.asarray(well.get_data(n)[0].values).tolist() for n in well.get_data_list()
                                        if n not in ("DEPTH", "FROM", "TO")}
        return found

    def check(label, reopen):
        try:
            w = reopen()
            try:
                got = describe(w)
            finally:
                w.close()
            out["views"][label] = got
        except BaseException as e:  # noqa: BLE001
            out["views"][label] = f"ERROR {type(e).__name__}: {str(e)[:100]}"

    out["views"] = {}
    end = case["end"]
    ws = None
    try:
        tr = None
        if end in ("with_ok", "with_exc"):
            try:
                with Workspace() as ws:
                    out["handle0"], out["ctor_mode"] = iotrace.handle_state(ws), ws._mode  # noqa: SLF001
                    run_steps(ws)
                    out["ncat"] = iodrive.n_concatenators(ws)
                    tr = iotrace.Trace()
                    tr.__enter__()
                    if end == "with_exc":
                        raise Injected("after the operations")
            except Injected:
                out["exc"] = "Injected"
            else:
                out["exc"] = None
            finally:
                if tr is not None:
                    tr.__exit__(None, None, None)
            if tr is None:
                raise RuntimeError("block did not reach its end")
            end_rec = {"calls": [[c["fn"], c["mode"], c["file"], c["line"], c["handle"], c["out"], c["repack"], c["in_close"]]
                                 for c in tr.calls if c["ws"] == id(ws)],
                       "entries": [[e["fn"], e["hmode"], e["out"]] for e in tr.entries if e["hfile"] == repr(ws.h5file)]}
        else:
            ws = Workspace()
            out["handle0"], out["ctor_mode"] = iotrace.handle_state(ws), ws._mode  # noqa: SLF001
            run_steps(ws)
            out["ncat"] = iodrive.n_concatenators(ws)
            if end == "close":
                end_rec = iodrive.call_traced(ws.close, ws)
            else:
                dst = os.path.join(tmp, "saved.geoh5")
                end_rec = iodrive.call_traced(lambda: ws.save_as(dst), ws)
            out["exc"] = end_rec["exc"]
            out["exc_msg"] = end_rec["msg"]
        out["end"] = {"calls": end_rec["calls"], "entries": end_rec["entries"]}
        out["handle_after"] = iotrace.handle_state(ws)
        if end == "save_as":
            if ws._geoh5:  # noqa: SLF001
                ws.close()
            check("saved file, new Workspace", lambda: Workspace(os.path.join(tmp, "saved.geoh5"), mode="r"))
        else:
            out["nfiles_after"] = iotrace.n_open_files()
            check("same instance", lambda: ws.open(mode="r"))
            raw = ws.h5file.getvalue()
            check("bytes, new Workspace", lambda: Workspace(io.BytesIO(raw), mode="r"))
        out["expected"] = expected
    except RuntimeError as e:
        out["not_driven"] = str(e)[:200]
    finally:
        if ws is not None and ws._geoh5:  # noqa: SLF001
            try:
                ws.close()
            except BaseException:  # noqa: BLE001
                ws._geoh5.close()  # noqa: SLF001
        del ws
        gc.collect()
        out["nfiles_end"] = iotrace.n_open_files()
        shutil.rmtree(tmp, ignore_errors=True)
    return out


def drive_closed_entry(case, work):
    from vlib import iodrive

    tw = iodrive.run_entry(work, "r+", case, state="open", tag="ct")
    if "not_driven" in tw:
        return {"not_driven": tw["not_driven"]}
    cl = iodrive.run_entry(work, "r+", case, state="closed", tag="cc")
    if "not_driven" in cl:
        return {"not_driven": cl["not_driven"]}
    tw.pop("digest", None)
    return {"closed": cl, "open": tw}


def drive_after_close(case, work):
    import gc
    import os

    from vlib import iodrive, iofix, iotrace

    path, log = iodrive.fresh_copy(work, "ac")
    out = {"fixture_problems": log, "getters": []}
    ws = iodrive.open_ws(path, case["mode"])
    ent = iofix.derived_targets(ws)[case["target"]]()
    ref_ws = None
    try:
        if ent is None:
            return {"not_driven": "fixture target missing"}
        if case.get("dirty"):
            # a deletion in this session: Workspace.repack is set and close() goes through its repack branch
            victim = iofix.locate(ws, "surf")
            vd = next((c for c in victim.children if getattr(c, "name", None) == "sv"), None) if victim is not None else None
            if vd is not None:
                ws.remove_entity(vd)
            del victim, vd
            out["repack_at_close"] = bool(ws.repack)
        ws.close()
        out["handle"] = iotrace.handle_state(ws)
        out["nfiles_after_close"] = iotrace.n_open_files()
        ref_ws = iodrive.open_ws(path, "r")
        for owner, member in case["members"]:
            box = {}
            d = iodrive.call_traced(lambda: box.setdefault("v", getattr(ent, member)), ws)
            rec = {"owner": owner, "member": member, "exc": d["exc"], "msg": d["msg"][:80], "calls": d["calls"],
                   "value": _digest(box.get("v")) if d["exc"] is None else None,
                   "handle_after": iotrace.handle_state(ws)}
            # the same getter on a freshly loaded twin entity of an open workspace (each getter on its own fresh entity would be
            # cleaner but costs a re-open per getter; the twin is loaded once and getters are mostly independent)
            ref = iofix.derived_targets(ref_ws)[case["target"]]()
            rbox = {}
            try:
                rbox["v"] = getattr(ref, member)
                rec["ref_exc"], rec["ref_value"] = None, _digest(rbox["v"])
            except BaseException as e:  # noqa: BLE001
                rec["ref_exc"], rec["ref_value"] = iotrace.exc_kind(e), None
            if rec["exc"] is None and rec["ref_exc"] is None and rec["value"] != rec["ref_value"]:
                # second opinion: the getter on a *fresh* entity (nothing loaded yet) of a newly opened workspace
                fw = iodrive.open_ws(path, "r")
                try:
                    fe = iofix.derived_targets(fw)[case["target"]]()
                    rec["fresh_value"] = _digest(getattr(fe, member))
                except BaseException as e:  # noqa: BLE001
                    rec["fresh_value"] = "raises " + str(iotrace.exc_kind(e))
                finally:
                    fw.close()
                    del fw
            out["getters"].append(rec)
    finally:
        if ref_ws is not None:
            ref_ws.close()
        if ws._geoh5:  # noqa: SLF001
            ws._geoh5.close()  # noqa: SLF001
        del ent, ws, ref_ws
        gc.collect()
        out["nfiles_end"] = iotrace.n_open_files()
        os.remove(path)
    return out


def drive_with(case, work):
    import gc
    import os
    import shutil
    import uuid

    import numpy as np
    from geoh5py import Workspace
    from geoh5py.objects import Points
    from geoh5py.shared.utils import fetch_active_workspace
    from vlib import iodrive, iofix, iotrace
    from vlib.ioentries import Injected

    path, log = iodrive.fresh_copy(work, "wb")
    tmp = os.path.join(work, f"tmpwb_{os.getpid()}")
    shutil.rmtree(tmp, ignore_errors=True)
    os.makedirs(tmp)
    out = {"fixture_problems": log, "ops": [], "nfiles_before": iotrace.n_open_files()}
    names = {}          # label -> entity created in this block (strong refs, like a caller's variables)
    exp = {}            # uid -> expected fields after re-open (ledger of completed operations)

    def ent_of(ws, label):
        if label in names:
            return names[label]
        if label == "root":
            return ws.root
        return iofix.locate(ws, label)

    def note(e, **fields):
        """ledger entry for an edit of an existing entity: only when the entity is on file or already expected there (an entity
        created unsaved on a read-only handle never reaches the file; editing it is a memory-only matter)"""
        if str(e.uid) in exp or getattr(e, "on_file", False):
            exp.setdefault(str(e.uid), {"exists": True}).update(fields)

    def sem(ws, op):
        """returns (thunk, commit) -- commit() records the effect of the completed operation in the ledger"""
        k = op["op"]
        if k == "create":
            par = ent_of(ws, op["parent"])
            verts = _tok_vertices(op["tok"], 4)
            box = {}

            def th():
                box["e"] = Points.create(ws, vertices=verts, name=op["name"], parent=par)

            def commit():
                e = box["e"]
                names[op["name"]] = e
                exp[str(e.uid)] = {"exists": True, "name": op["name"], "vertices": verts.tolist(), "parent": str(par.uid)}
            return th, commit
        if k == "create_unsaved":
            par = ent_of(ws, op["parent"])
            verts = _tok_vertices(op["tok"], 4)
            box = {}

            def th():
                box["e"] = ws.create_entity(Points, save_on_creation=False,
                                            entity={"vertices": verts, "name": op["name"], "parent": par})

            def commit():
                e = box["e"]
                names[op["name"]] = e
                if iotrace.handle_state(ws) in ("r+", "a"):    # on a read-only handle nothing is pending for the file
                    exp[str(e.uid)] = {"exists": True, "name": op["name"], "vertices": verts.tolist(), "parent": str(par.uid)}
            return th, commit
        if k == "add_data":
            o = ent_of(ws, op["obj"])
            if o is None:
                return None, None
            n = o.n_vertices
            vals = np.arange(n) * 1.0 + op["tok"]
            box = {}

            def th():
                box["d"] = o.add_data({op["name"]: {"values": vals}})

            def commit():
                d = box["d"]
                names[f"{op['obj']}/{op['name']}"] = d
                exp[str(d.uid)] = {"exists": True, "name": op["name"], "values": vals.tolist(), "parent": str(o.uid)}
            return th, commit
        if k == "rename":
            e = ent_of(ws, op["ent"])
            if e is None:
                return None, None
            return (lambda: setattr(e, "name", op["name"])), (lambda: note(e, name=op["name"]))
        if k == "set_vertices":
            o = ent_of(ws, op["obj"])
            if o is None:
                return None, None
            verts = _tok_vertices(op["tok"], o.n_vertices)
            return (lambda: setattr(o, "vertices", verts)), (lambda: note(o, vertices=verts.tolist()))
        if k == "set_values":
            d = names.get(f"{op['obj']}/{op['data']}")
            if d is None:
                o = ent_of(ws, op["obj"])
                d = next((c for c in (o.children if o is not None else []) if getattr(c, "name", None) == op["data"]), None)
            if d is None:
                return None, None
            vals = np.arange(len(d.values)) * 1.0 + op["tok"]
            return (lambda: setattr(d, "values", vals)), (lambda: note(d, values=vals.tolist()))
        if k == "metadata":
            e = ent_of(ws, op["ent"])
            if e is None:
                return None, None
            return (lambda: setattr(e, "metadata", dict(op["val"]))), (lambda: note(e, metadata=dict(op["val"])))
        if k == "move":
            e, q = ent_of(ws, op["ent"]), ent_of(ws, op["to"])
            if e is None or q is None:
                return None, None
            return (lambda: setattr(e, "parent", q)), (lambda: note(e, parent=str(q.uid)))
        if k == "copy":
            e = ent_of(ws, op["ent"])
            if e is None:
                return None, None
            box = {}

            def th():
                box["c"] = e.copy()

            def commit():
                c = box["c"]
                exp[str(c.uid)] = {"exists": True, "name": e.name}
            return th, commit
        if k == "remove":
            e = ent_of(ws, op["ent"])
            if e is None:
                return None, None
            uids = [str(e.uid)] + [str(c.uid) for c in getattr(e, "children", []) if hasattr(c, "uid")]

            def commit():
                for u in uids:
                    exp[u] = {"exists": False}
                for lab in [l for l, x in names.items() if str(getattr(x, "uid", "")) in uids]:
                    names.pop(lab)
            return (lambda: ws.remove_entity(e)), commit
        if k == "list":
            return (lambda: getattr(ws, op["kind"])), (lambda: None)
        if k == "gc":
            return gc.collect, (lambda: None)
        if k == "close":
            return ws.close, (lambda: None)
        if k == "open":
            return (lambda: ws.open(mode=op["mode"])), (lambda: None)
        if k == "fetch_active":
            inner, icommit = sem(ws, op["body"])
            if inner is None:
                return None, None

            def th():
                with fetch_active_workspace(ws, mode=op["mode"]):
                    inner()
            return th, icommit
        if k == "bad":
            w = op["which"]
            if w == "vertices_shape":
                return (lambda: Points.create(ws, vertices=np.zeros((3, 2)), name="bad")), (lambda: None)
            if w == "data_length":
                o = ent_of(ws, "pts")
                return (lambda: o.add_data({"bad": {"values": np.arange(3.0), "association": "nonsense"}})), (lambda: None)
            return (lambda: Points.create(ws, vertices=np.zeros((3, 3)), name="bad", parent="nope")), (lambda: None)
        return None, None

    ws = None
    exc_out = None
    flt = None
    with_trace = iotrace.Trace()
    started = []

    def begin_exit():
        nonlocal flt
        if case.get("fault"):
            flt = iotrace.arm_fault("H5Writer.save_entity")
        with_trace.__enter__()
        started.append(1)

    try:
        with Workspace(path, mode=case["mode"]) as ws:
            out["handle0"] = iotrace.handle_state(ws)
            out["ctor_mode"] = ws._mode  # noqa: SLF001
            out["ncat"] = iodrive.n_concatenators(ws)
            for i, op in enumerate(case["ops"]):
                if i >= case["k"]:
                    break
                rec = {"handle_before": iotrace.handle_state(ws)}
                if op["op"] == "list":
                    try:
                        rec["dead"] = iodrive.dead_count(ws, op["kind"])
                    except BaseException:  # noqa: BLE001
                        rec["dead"] = 0
                try:
                    th, commit = sem(ws, op)
                except BaseException as e:  # noqa: BLE001 - operands could not be prepared (e.g. closed workspace): a no-op for this run
                    th, commit = None, None
                    rec["prep"] = f"{type(e).__name__}"
                if th is None:
                    rec.update({"skipped": True, "exc": None, "msg": "", "calls": [], "entries": [], "handle_after": rec["handle_before"]})
                    out["ops"].append(rec)
                    continue
                d = iodrive.call_traced(th, ws)
                rec.update(d)
                rec["handle_after"] = iotrace.handle_state(ws)
                out["ops"].append(rec)
                del th
                if d["exc"] is not None:
                    # the operation raised by itself: re-raise something of that kind out of the block
                    out["handle_at_exit"] = iotrace.handle_state(ws)
                    begin_exit()
                    raise RuntimeError("op-raised:" + d["exc"])
                commit()
            out["handle_at_exit"] = iotrace.handle_state(ws)
            begin_exit()
            if case["k"] < len(case["ops"]):
                raise Injected("injected at position %d" % case["k"])
    except BaseException as e:  # noqa: BLE001
        exc_out = e
    finally:
        if started:
            with_trace.__exit__(None, None, None)
            out["exit_calls"] = [[c["fn"], c["mode"], c["file"], c["line"], c["handle"], c["out"], c["repack"], c["in_close"]] for c in with_trace.calls if c["ws"] == id(ws)]
            out["exit_entries"] = [[e["fn"], e["hmode"], e["out"]] for e in with_trace.entries
                                   if os.path.realpath(e["hfile"]) == os.path.realpath(path)]
        else:
            out["exit_calls"], out["exit_entries"] = [], []
        iotrace.disarm_fault()
    out["fault_fired"] = bool(flt and flt.get("fired"))
    if exc_out is None:
        out["exc"] = None
    elif isinstance(exc_out, Injected):
        out["exc"] = "Injected"
    elif isinstance(exc_out, RuntimeError) and str(exc_out).startswith("op-raised:"):
        out["exc"] = "Op:" + str(exc_out)[len("op-raised:"):]
    else:
        out["exc"] = iotrace.exc_kind(exc_out)
        out["exc_msg"] = str(exc_out)[:160]
    out["handle_after"] = iotrace.handle_state(ws) if ws is not None else None
    out["nfiles_after"] = iotrace.n_open_files()
    if ws is not None and ws._geoh5:  # noqa: SLF001 - leaked handle: release it so that the remaining checks can run
        ws._geoh5.close()  # noqa: SLF001
    # a) the file is valid and holds every completed operation: second Workspace object
    mism = []
    try:
        ws2 = Workspace(path, mode="r")
        try:
            for u, want in sorted(exp.items()):
                got = ws2.get_entity(uuid.UUID(u))[0]
                if not want.get("exists", True):
                    if got is not None:
                        mism.append(f"{u[:8]} removed but present")
                    continue
                if got is None:
                    mism.append(f"{u[:8]} ({want.get('name')}) missing")
                    continue
                if "name" in want and got.name != want["name"]:
                    mism.append(f"{u[:8]} name {got.name!r} != {want['name']!r}")
                if "vertices" in want and (got.vertices is None or np.asarray(got.vertices).tolist() != want["vertices"]):
                    mism.append(f"{u[:8]} vertices differ")
                if "values" in want and (got.values is None or np.asarray(got.values).tolist() != want["values"]):
                    mism.append(f"{u[:8]} values differ")
                if "parent" in want and str(got.parent.uid) != want["parent"]:
                    mism.append(f"{u[:8]} parent {str(got.parent.uid)[:8]} != {want['parent'][:8]}")
                if "metadata" in want and got.metadata != want["metadata"]:
                    mism.append(f"{u[:8]} metadata {got.metadata!r} != {want['metadata']!r}")
            out["second_listing"] = sorted((str(o.uid), o.name) for o in ws2.objects)
        finally:
            ws2.close()
        out["reopen_second"] = "ok"
    except BaseException as e:  # noqa: BLE001
        out["reopen_second"] = f"{type(e).__name__}: {str(e)[:120]}"
    out["mismatches"] = mism
    out["n_expected"] = len(exp)
    # b) re-opening the same object restores access
    try:
        ws.open()
        out["reopen_same_mode"] = iotrace.handle_state(ws)
        out["same_listing"] = sorted((str(o.uid), o.name) for o in ws.objects)
        probe = iofix.locate(ws, "curve") or iofix.locate(ws, "pts")
        out["same_read_ok"] = probe is None or probe.vertices is not None
        ws.close()
        out["reopen_same"] = "ok"
    except BaseException as e:  # noqa: BLE001
        out["reopen_same"] = f"{type(e).__name__}: {str(e)[:120]}"
        if ws is not None and ws._geoh5:  # noqa: SLF001
            ws._geoh5.close()  # noqa: SLF001
    # c) entities obtained inside the block, used after the close
    stale = []
    for lab, e in list(names.items())[:4]:
        d = iodrive.call_traced(lambda e=e: setattr(e, "name", e.name), ws)
        stale.append([lab, d["exc"], len(d["calls"])])
    out["use_after_close"] = stale
    names.clear()
    del ws
    gc.collect()
    out["nfiles_end"] = iotrace.n_open_files()
    shutil.rmtree(tmp, ignore_errors=True)
    os.remove(path)
    return out


# ----------------------------------------------------------------------------- Coq case terms
PY_FAIL = '{| c_fn := "<python>"; c_writer := false; c_req := R; c_fails := true; c_repack := false |}'


def _op_term_with(op, rec):
    if rec.get("skipped"):
        return "(Calls [])", "None"
    exc = rec["exc"]
    calls = rec["calls"]
    k = op["op"]
    err = K.c_err(exc, calls)
    own_fail = exc is not None and err == "None"       # a Python-level exception of the operation itself
    if k == "close":
        return "Close", err
    if k == "open":
        return "(OpenM %s)" % ("None" if op["mode"] is None else f"(Some {K.MODES[op['mode']]})"), err
    if k == "list":
        return f"(List_ {cnat(rec.get('dead', 0))})", err
    if k == "fetch_active":
        body = K._body_calls(rec)
        cs = K.c_body_rp(rec)
        if own_fail:
            cs = cs[:-1] + ("; " if cs != "[]" else "") + PY_FAIL + "]"
            err = "(Some EFail)"
        return f"(FetchActive {K.MODES[op['mode']]} {cs})", err
    cs = K.c_calls_rp(rec, calls)
    if own_fail:      # the operation's own Python code raised after (or without) its _io_call's -- also on a closed workspace
        return f"(CallsThenRaise {cs})", "(Some EFail)"
    return f"(Calls {cs})", err


def case_term(case, obs):
    if "not_driven" in obs:
        return None
    if case["kind"] == "with":
        if case.get("fault") and any(o["op"] in ("close", "fetch_active") for o in case["ops"][:case["k"]]):
            # not expressible: the driver's injected error hits the exit's final save only, the model's close_fault is a constant
            # of the run and would fail the earlier closes too (the generator no longer produces this combination)
            return None
        n = len(case["ops"])
        ops, sites, log = [], [], []
        block_err = "None"
        for op, rec in zip(case["ops"], obs["ops"]):
            t, e = _op_term_with(op, rec)
            ops.append(t)
            sites += rec["calls"]
            log += rec["entries"]
            if e != "None":
                block_err = e
        ops += ["(Calls [])"] * (n - len(ops))
        sites += obs.get("exit_calls", [])
        log += obs.get("exit_entries", [])
        exc = obs["exc"]
        if exc is None:
            oe = "None"
        elif exc == "Injected":
            oe = "(Some EInjected)"
        elif exc.startswith("Op:"):
            oe = block_err
        elif obs.get("fault_fired") and exc == "OSError":
            oe = "(Some EFail)"
        else:
            oe = {"ReadOnly": "(Some EReadOnly)", "Closed": "(Some EClosed)"}.get(exc, "(Some EFail)")
        if "handle0" not in obs:
            return "false"
        return ("agree_with %s %s %s %s %s %s %s %s %s && sites_ok IOT %s"
                % (K.c_handle(obs["handle0"]), K.MODES[obs["ctor_mode"]], cbool(bool(obs.get("fault_fired"))), cnat(obs.get("ncat", 1)),
                   clist(ops), cnat(case["k"]),
                   oe, K.c_handle(obs["handle_after"]), K.c_log(log), K.c_sites(sites)))
    if case["kind"] == "fa_exc":
        t, e = _op_term_with({"op": "fetch_active", "mode": case["req"]}, obs)
        return ("agree_run %s %s false %s [%s] [%s] [%s] %s && sites_ok IOT %s"
                % (K.c_handle(obs["handle_before"]), K.MODES[obs["ctor_mode"]], cnat(obs.get("ncat", 1)), t, e,
                   K.c_handle(obs["handle_after"]), K.c_log(obs["entries"]), K.c_sites(obs["calls"])))
    if case["kind"] == "reopen_content":
        if obs.get("open_exc") is not None:
            return "false"
        m2 = "None" if case["mode2"] is None else f"(Some {K.MODES[case['mode2']]})"
        return ("agree_run Closed %s false 1 [OpenM %s] [None] [%s] []"
                % (K.MODES[case["mode1"]], m2, K.c_handle(obs["handle_reopened"])))
    if case["kind"] == "save_fault":
        if case["via"] != "save_as":
            return None
        ops, outs, hs, sites, log = [], [], [], [], []
        for rec in obs["ops"]:
            ops.append(f"(Calls {K.c_calls_rp(rec)})")
            outs.append("None")
            hs.append(K.c_handle(rec["handle_after"]))
            sites += rec["calls"]
            log += rec["entries"]
        seqs = [("SaveAsFail", "(Some EFail)" if obs["fail_exc"] is not None else "None", obs["handle_after_fail"], obs["fail"])]
        seqs.append(("(OpenM None)", K.c_err(obs["reopen"]["exc"], obs["reopen"]["calls"]) if obs["reopen"]["exc"] is None else "(Some EFail)",
                     obs["handle_reopened"], obs["reopen"]))
        if "good" in obs:
            seqs.append(("SaveAs", "None" if obs["good"]["exc"] is None else "(Some EFail)", obs["handle_after_good"], obs["good"]))
        for t, e, h, rec in seqs:
            ops.append(t)
            outs.append(e)
            hs.append(K.c_handle(h))
            sites += rec["calls"]
            log += rec["entries"]
        fpoint = "FailCopy" if case["fault"] == "missing_dir" else "FailChecks"
        return ("agree_run_m %s %s %s false %s %s %s %s %s && sites_ok IOT %s && agree_sa %s %s %s"
                % (cbool(case["src"] == "memory"), K.c_handle(obs["handle0"]), K.MODES[obs["ctor_mode"]], cnat(obs.get("ncat", 0)),
                   clist(ops), clist(outs), clist(hs), K.c_log(log), K.c_sites(sites),
                   fpoint, cbool(bool(obs.get("ptr_valid"))), cbool(obs["reopen"]["exc"] is None)))
    if case["kind"] == "mem_dh":
        ops, outs, hs, sites, log = [], [], [], [], []
        for rec in obs["ops"]:
            ops.append(f"(Calls {K.c_calls_rp(rec)})")
            outs.append(K.c_err(rec["exc"], rec["calls"]))
            hs.append(K.c_handle(rec["handle_after"]))
            sites += rec["calls"]
            log += rec["entries"]
        sites += obs["end"]["calls"]
        log += obs["end"]["entries"]
        h0, dm, nc = K.c_handle(obs["handle0"]), K.MODES[obs["ctor_mode"]], cnat(obs.get("ncat", 1))
        if case["end"] in ("with_ok", "with_exc"):
            k = len(ops) if case["end"] == "with_ok" else len(ops)
            opsx = ops + (["(Calls [])"] if case["end"] == "with_exc" else [])
            oe = "(Some EInjected)" if obs["exc"] == "Injected" else "None"
            return ("agree_with_m true %s %s false %s %s %s %s %s %s && sites_ok IOT %s"
                    % (h0, dm, nc, clist(opsx), cnat(k), oe, K.c_handle(obs["handle_after"]), K.c_log(log), K.c_sites(sites)))
        endop = "Close" if case["end"] == "close" else "SaveAs"
        return ("agree_run_m true %s %s false %s %s %s %s %s && sites_ok IOT %s"
                % (h0, dm, nc, clist(ops + [endop]), clist(outs + [K.c_err(obs["exc"], obs["end"]["calls"])]),
                   clist(hs + [K.c_handle(obs["handle_after"])]), K.c_log(log), K.c_sites(sites)))
    if case["kind"] == "after_close":
        ops, outs, hs, sites = [], [], [], []
        for g in obs["getters"]:
            ops.append(f"(Calls {K.c_calls(g['calls'])})")
            outs.append(K.c_err(g["exc"], g["calls"]))
            hs.append(K.c_handle(g["handle_after"]))
            sites += g["calls"]
        return ("agree_run Closed %s false 1 %s %s %s [] && sites_ok IOT %s"
                % (K.MODES[case["mode"]], clist(ops), clist(outs), clist(hs), K.c_sites(sites)))
    cl = obs["closed"]
    op = K.op_term(dict(case, op="entry"), cl)
    return ("agree_run Closed RW false 1 [%s] [%s] [%s] %s && sites_ok IOT %s"
            % (op, K.c_err(cl["exc"], cl["calls"]), K.c_handle(cl["handle_after"]), K.c_log(cl["entries"]), K.c_sites(cl["calls"])))


def model_term(case):
    return None


# ----------------------------------------------------------------------------- oracle (property text, independent of the model)
def oracle(case, obs):
    if "crash" in obs:
        return [{"key": "driver-crash", "what": obs["crash"][:300]}]
    if "not_driven" in obs:
        return []
    fails = []
    if obs.get("fixture_problems"):
        fails.append({"key": "fixture-incomplete", "what": str(obs["fixture_problems"])[:300]})
    if case["kind"] == "with":
        if obs.get("fault_fired"):
            return fails           # an I/O error inside close(): outside the property's quantifier; recorded in the histogram
        if obs["handle_after"] != "closed":
            fails.append({"key": "handle-open-after-exit", "what": f"Workspace._geoh5 is still {obs['handle_after']} after the with-block (k={case['k']})"})
        if obs["nfiles_after"] != obs["nfiles_before"]:
            fails.append({"key": "hdf5-handle-leak", "what": f"{obs['nfiles_after']} open HDF5 files after the with-block, {obs['nfiles_before']} before"})
        if case["k"] < len(case["ops"]) and obs["exc"] is None:
            fails.append({"key": "exception-swallowed", "what": f"the exception raised at position {case['k']} did not leave the with-block"})
        if obs["exc"] not in (None, "Injected") and not str(obs["exc"]).startswith("Op:"):
            fails.append({"key": "exit-raised:" + str(obs["exc"]), "what": f"leaving the block raised {obs['exc']}: {obs.get('exc_msg')}"})
        if obs["reopen_second"] != "ok":
            fails.append({"key": "file-not-reopenable", "what": "a second Workspace cannot open the file: " + obs["reopen_second"]})
        for m in obs["mismatches"][:3]:
            what = m.split(" ", 1)[1] if " " in m else m
            key = "completed-op-lost:" + ("missing" if "missing" in what else "present" if "present" in what else what.split(" ")[0])
            fails.append({"key": key, "what": f"after re-open: {m} (mode {case['mode']}, k={case['k']}, ops={case['ops'][:case['k']]})"[:600]})
        if obs["reopen_same"] != "ok":
            fails.append({"key": "reopen-same-object-failed", "what": obs["reopen_same"]})
        elif obs.get("reopen_second") == "ok" and obs.get("same_listing") != obs.get("second_listing"):
            fails.append({"key": "reopen-differs", "what": "ws.open() after the close lists other objects than a second Workspace"})
        elif not obs.get("same_read_ok", True):
            fails.append({"key": "reopen-no-access", "what": "after ws.open() a lazy attribute could not be read"})
        for lab, exc, ncalls in obs.get("use_after_close", []):
            if ncalls and exc != "Closed":
                fails.append({"key": "use-after-close:" + str(exc), "what": f"entity {lab} used after close: {exc} instead of the closed-file error"})
        if obs["nfiles_end"] != obs["nfiles_before"]:
            fails.append({"key": "hdf5-handle-leak-end", "what": "open HDF5 files at the end of the case"})
        return fails
    if case["kind"] == "fa_exc":
        hb = obs["handle_before"]
        # the helper keeps the workspace when it is open and the requested mode string occurs in the handle's mode string
        reopened = hb == "closed" or case["req"] not in hb
        tag = f"{case['start']}:{case['req']}:{'raise' if case['raise'] else 'normal'}"
        if case["raise"] and obs["exc"] is None:
            fails.append({"key": "exception-swallowed:fetch_active_workspace", "what": f"the exception did not leave the block ({tag})"})
        if reopened:
            if obs["handle_after"] != "closed":
                fails.append({"key": "helper-left-workspace-open:fetch_active_workspace",
                              "what": f"fetch_active_workspace had to (re-)open the workspace ({tag}, body {case['body']}, block ended with "
                                      f"{obs['exc']}) and left it in mode {obs['handle_after']}"})
            if obs["nfiles_after"] != 0:
                fails.append({"key": "hdf5-handle-leak:fetch_active_workspace", "what": f"{obs['nfiles_after']} HDF5 file(s) open after the block ({tag})"})
            if obs["probe_exc"] != "Closed":
                fails.append({"key": "use-after-close:" + str(obs["probe_exc"]),
                              "what": f"fetch_children after the block returned/raised {obs['probe_exc']} instead of the closed-file error ({tag})"})
            if obs["geoh5_property"] != "Closed":
                fails.append({"key": "geoh5-after-close:" + str(obs["geoh5_property"]), "what": f"ws.geoh5 after the block: {obs['geoh5_property']} ({tag})"})
            if obs["persist"] is False:
                fails.append({"key": "completed-op-lost:fetch_active_workspace", "what": f"the operation completed inside the block is not in the file ({tag})"})
        elif obs["handle_after"] != hb:
            fails.append({"key": "helper-changed-handle:fetch_active_workspace", "what": f"handle {hb} -> {obs['handle_after']} although the mode was suitable ({tag})"})
        if obs["nfiles_end"] != 0:
            fails.append({"key": "hdf5-handle-leak-end", "what": "open HDF5 files at the end of the case"})
        return fails
    if case["kind"] == "reopen_content":
        if obs.get("open_exc") is not None:
            fails.append({"key": "reopen-same-object-failed", "what": f"ws.open() raised {obs['open_exc']}"})
            return fails
        if case["via"] == "rejected":
            for k, e in obs.get("rejected", {}).items():
                if e is None:
                    pass      # setters that never write through are C03's subject; what matters here is the view after re-open
        vs, vf = obs["view_same"], obs["view_file"]
        for label in sorted(vf):
            a, b = vs.get(label), vf[label]
            if a == b:
                continue
            fields = [f for f in (b or {}) if (a or {}).get(f) != b[f]] if a and b else ["entity"]
            for f in fields[:3]:
                fails.append({"key": f"reopen-stale:{label}.{f}",
                              "what": f"after close + ws.open() the {label}'s {f} is {(a or {}).get(f)!r}, the file (second Workspace) says "
                                      f"{(b or {}).get(f)!r} (via {case['via']}, held references: {case['hold']}, edits {case['edits']})"[:500]})
        if obs.get("same_object_returned"):
            fails.append({"key": "reopen-returns-old-object", "what": "after re-open get_entity returns the entity object of the previous session"})
        if obs["nfiles_end"] != 0 or obs["nfiles_mid"] != 0:
            fails.append({"key": "hdf5-handle-leak", "what": "open HDF5 files between / after the sessions"})
        return fails
    if case["kind"] == "save_fault":
        tag = f"{case['via']}:{case['src']}:{case['fault']}"
        if obs.get("fail_exc") is None:
            fails.append({"key": "unwritable-target-accepted:" + case["fault"], "what": f"{tag}: no error for a target that cannot be written"})
        if obs.get("nfiles_after_fail", 0) != 0:
            fails.append({"key": "hdf5-handle-leak:failed-" + case["via"], "what": f"{tag}: {obs['nfiles_after_fail']} HDF5 file(s) open after the failure"})
        if case["via"] != "save_as":
            return fails
        if obs["handle_after_fail"] not in ("closed",) and obs["fail_exc"] is not None:
            pass      # staying open would be acceptable too; what matters is that the content is reachable
        if obs.get("ptr_valid") is False:
            fails.append({"key": "h5file-repointed-by-failed-save_as",
                          "what": f"{tag}: after the failed save_as Workspace.h5file no longer names the source that holds the content"})
        if obs["reopen"]["exc"] is not None:
            fails.append({"key": "not-reopenable-after-failed-save_as",
                          "what": f"{tag}: after the failed save_as ({obs['fail_exc']}) ws.open() raises {obs['reopen']['exc']}: {obs['reopen']['msg']}"})
            return fails
        for label in ("view_reopened", "view_good"):
            got = obs.get(label)
            if isinstance(got, str):
                fails.append({"key": "content-unreadable-after-failed-save_as", "what": f"{tag}: [{label}] {got}"})
            elif got is not None and got != obs["expected"]:
                fails.append({"key": "content-lost-after-failed-save_as", "what": f"{tag}: [{label}] {str(got)[:200]} expected {str(obs['expected'])[:200]}"})
        if obs.get("good", {}).get("exc") is not None:
            fails.append({"key": "save_as-fails-after-failed-save_as", "what": f"{tag}: a valid save_as afterwards raised {obs['good']['exc']}: {obs['good']['msg']}"})
        if obs["nfiles_end"] != obs["nfiles_before"]:
            fails.append({"key": "hdf5-handle-leak-end", "what": "open HDF5 files at the end of the case"})
        return fails
    if case["kind"] == "mem_dh":
        end = case["end"]
        if end in ("close", "save_as") and obs.get("exc") is not None:
            fails.append({"key": f"{end}-raised:{obs['exc']}", "what": f"{end} of an in-memory workspace with drillholes raised {obs['exc']}: {obs.get('exc_msg')}"})
        if end == "with_exc" and obs.get("exc") != "Injected":
            fails.append({"key": "exception-swallowed", "what": "the exception did not leave the with-block"})
        if end != "save_as" and obs["handle_after"] != "closed":
            fails.append({"key": "handle-open-after-exit", "what": f"in-memory workspace still {obs['handle_after']} after {end}"})
        for label, got in obs["views"].items():
            if isinstance(got, str):
                fails.append({"key": f"file-not-reopenable:mem:{end}", "what": f"[{label}] {got} (extra ops {case['extra']})"})
            elif got != obs["expected"]:
                fails.append({"key": f"completed-op-lost:mem:{end}", "what": f"[{label}] drillholes after re-open {str(got)[:200]} expected {str(obs['expected'])[:200]}"})
        if obs["nfiles_end"] != obs["nfiles_before"]:
            fails.append({"key": "hdf5-handle-leak-end", "what": "open HDF5 files at the end of the case"})
        return fails
    if case["kind"] == "after_close":
        if obs["handle"] != "closed" or obs["nfiles_after_close"] != 0:
            fails.append({"key": "handle-open-after-close", "what": f"handle {obs['handle']}, {obs['nfiles_after_close']} open files after close()"})
        for g in obs["getters"]:
            name = f"{g['owner']}.{g['member']}"
            if g["exc"] == "Closed":
                continue
            if g["exc"] is not None:
                if g["ref_exc"] == g["exc"]:
                    continue               # raises the same on an open workspace: not about closing
                fails.append({"key": f"wrong-error-after-close:{name}:{g['exc']}",
                              "what": f"{name} on {case['target']} after close raises {g['exc']} ({g['msg']}) instead of Geoh5FileClosedError"})
            elif g["ref_exc"] is None and g["value"] != g["ref_value"] and g["value"] != g.get("fresh_value"):
                fails.append({"key": f"stale-or-empty-after-close:{name}",
                              "what": f"{name} on {case['target']} after close returns {g['value'][:80]}; on an open workspace {g['ref_value'][:80]}"
                                      f" (freshly loaded entity: {str(g.get('fresh_value'))[:80]})"})
        return fails
    cl, tw = obs["closed"], obs["open"]
    name = f"{case['owner']}.{case['member']}"
    if not cl["sha_same"]:
        fails.append({"key": "file-changed-after-close:" + name, "what": f"{name} on a closed workspace changed the file"})
    if cl["nfiles"] != 0:
        fails.append({"key": "handle-left-open:" + name, "what": "open HDF5 files after a call on a closed workspace"})
    reopened = cl["handle_after"] != "closed"
    if reopened and not (case["owner"] == "Workspace" and case["member"] in K.CONTROL):
        fails.append({"key": "silently-reopened:" + name, "what": f"{name} on a closed workspace left the handle {cl['handle_after']}"})
    if (case["owner"] == "Workspace" and case["member"].startswith("fetch_") and cl["exc"] is None
            and cl.get("returned") == "nonempty"):
        fails.append({"key": f"served-without-file:{name}[{case.get('arg', 'default')}]",
                      "what": f"{name}({case.get('arg', 'default operand')}) on a closed workspace returned a non-empty result instead of "
                              f"raising the closed-file error (it is one of the workspace's file readers)"})
    if cl["calls"] and cl["exc"] not in ("Closed",) and cl["calls"][0][4] == "closed":
        fails.append({"key": f"closed-call-not-refused:{name}", "what": f"{name} reached the file layer on a closed workspace and ended with {cl['exc']}"})
    return fails


def nontrivial(case, obs):
    if "not_driven" in obs or "crash" in obs:
        return False
    if case["kind"] == "with":
        wrote = sum(1 for r in obs["ops"] if any(e[0].startswith("H5Writer.") for e in r.get("entries", [])) and r["exc"] is None)
        return wrote >= 2 and case["k"] < len(case["ops"])
    if case["kind"] == "after_close":
        return any(g["calls"] for g in obs["getters"])
    if case["kind"] == "fa_exc":
        return obs["handle_before"] == "closed" or case["req"] not in obs["handle_before"]
    if case["kind"] == "reopen_content":
        return obs.get("view_file") is not None
    if case["kind"] in ("mem_dh", "save_fault"):
        return True
    return bool(obs["closed"]["calls"])


def histogram(cases, obs):
    h = {"kind": {}, "with_mode": {}, "with_len": {}, "with_k": {}, "with_exc": {}, "with_ops": {}, "fault_injected": 0,
         "fault_leaves_handle_open": 0, "expected_effects_checked": 0, "getters_after_close": {}, "getters_served_from_cache": [],
         "getters_need_file": [], "closed_entry_outcome": {}, "not_driven": 0}
    cached, need = set(), set()
    for c, o in zip(cases, obs):
        h["kind"][c["kind"]] = h["kind"].get(c["kind"], 0) + 1
        if "crash" in o:
            continue
        if "not_driven" in o:
            h["not_driven"] += 1
            continue
        if c["kind"] == "with":
            for key, val in (("with_mode", c["mode"]), ("with_len", str(len(c["ops"]))), ("with_k", str(c["k"])), ("with_exc", str(o["exc"]))):
                h[key][val] = h[key].get(val, 0) + 1
            for op in c["ops"][:c["k"]]:
                h["with_ops"][op["op"]] = h["with_ops"].get(op["op"], 0) + 1
            if o.get("fault_fired"):
                h["fault_injected"] += 1
                h["fault_leaves_handle_open"] += int(o["handle_after"] != "closed")
            h["expected_effects_checked"] += o.get("n_expected", 0)
        elif c["kind"] == "fa_exc":
            k = f"{c['start']}:{c['req']}:{'raise' if c['raise'] else 'normal'}->{o['handle_after']}/{o['exc']}"
            h.setdefault("fetch_active_exits", {})
            h["fetch_active_exits"][k] = h["fetch_active_exits"].get(k, 0) + 1
        elif c["kind"] == "reopen_content":
            k = f"{c['via']}:hold={c['hold']}:{c['mode1']}->{c['mode2']}"
            h.setdefault("reopen_content", {})
            h["reopen_content"][k] = h["reopen_content"].get(k, 0) + 1
        elif c["kind"] == "save_fault":
            k = f"{c['via']}:{c['src']}:{c['fault']}->{o.get('fail_exc')}"
            h.setdefault("failed_save_as", {})
            h["failed_save_as"][k] = h["failed_save_as"].get(k, 0) + 1
        elif c["kind"] == "mem_dh":
            h.setdefault("in_memory_drillholes", {})
            h["in_memory_drillholes"][c["end"]] = h["in_memory_drillholes"].get(c["end"], 0) + 1
        elif c["kind"] == "after_close":
            for g in o["getters"]:
                k = "Closed" if g["exc"] == "Closed" else ("value" if g["exc"] is None else "other:" + str(g["exc"]))
                h["getters_after_close"][k] = h["getters_after_close"].get(k, 0) + 1
                (need if g["calls"] else cached).add(f"{g['owner']}.{g['member']}")
        else:
            k = str(o["closed"]["exc"])
            h["closed_entry_outcome"][k] = h["closed_entry_outcome"].get(k, 0) + 1
    h["getters_need_file"] = sorted(need)
    h["getters_served_from_cache"] = sorted(cached - need)
    return h
