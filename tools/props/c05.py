"""C05 — Deletion removes exactly the entity, its descendants and all references to them; refused when allow_delete is off.

Histories (DESIGN Appendix A.1 style, entities named by creation ordinals, 0 = root) are run on a real workspace; the
driver keeps strong references only in an explicit table, drops them (+ gc.collect()) where the history says so, and
records after every operation: the children / property-group lists of every entity it still references, the registry
keys with their liveness, and a raw h5py dump (flat containers, child links, PropertyGroups entries); then again after
close, after a fresh re-open, and the outcome of copying every re-loaded object.
"""
from __future__ import annotations

import ast
import json
from pathlib import Path

from vlib import common as C
from vlib.common import cbool, clist


def cnat(n):  # plain numerals: nat_scope is the default scope in the case files
    assert 0 <= n < 4000
    return str(int(n))

ID = "C05"
PROPERTIES_V = "theories/Properties/C05.v"
CASE_IMPORTS = "From GV Require Import Prelude.Base Model.PGroups Model.Removal.\nFrom GVgen Require Import C05Cfg."
ALLOWED_AXIOMS: list = []
REFUTED = [
    "C05_no_dangling_refuted (pinned remove_data_from_groups: a group emptied during the loop makes the loop skip the next "
    "group; the checked tree must have the snapshot loop: C05_checked_tree_is_repaired)",
    "C05_old_rec_refuted (pre-repair remove_recursively skipped every second child of an object)",
    "C05_file_exact_via_parent_refuted (parent.remove_children leaves the flat node; open finding)",
    "C05_protected_descendant_partial_effect (a protected descendant refuses the request half-way; open finding)",
]
PARTIAL = [
    "C05_no_dangling_partial / C05_no_dangling_iff / C05_stored_groups_no_dangling (pinned loop: exact side condition no_skip)",
    "C05_ws_removal_file_exact / C05_visible_links_clean (file level only for removal through the workspace; through the parent: "
    "C05_parent_link_removed + C05_removed_not_yielded hold, the nodes stay: C05_file_exact_via_parent_refuted, C05_via_parent_what_remains)",
    "C05_survivors_removal_total (further removals proved; copy of a survivor is not an operation of the model: copy_ok is compared "
    "with the code on every case; missing for a theorem: members-of-groups-are-children and links-mirror-children invariants)",
]
TRUSTED = [
    "Coq 8.16.1 kernel + vm_compute (correspondence evaluation, refutation witnesses); no axioms",
    "hand-written model coq/theories/Model/{PGroups,Removal}.v; tied to the code by running both on the same histories and "
    "comparing children lists, property-group lists, registry keys/liveness, flat containers, child links and PropertyGroups "
    "entries after every operation, after close, after re-open, and the copy outcomes",
    "generated/C05Cfg.v: which of the two loops iterate over a copy is read off the ast of Workspace.remove_recursively and "
    "ObjectBase.remove_data_from_groups on every run (anything else than the two recognised loop headers refuses)",
    "Python semantics assumed: list iterator = index stepping over the current list; weak references die when the driver's "
    "table entry is deleted and gc.collect() has run (checked: liveness flags are part of the compared observation)",
    "h5py/HDF5 hard links and group deletion (exercised, observed by raw dump, not modelled beyond link sets)",
    "tools/props/c05.py (generator, driver, canonicalisation uuid -> creation ordinal, oracle)",
]
ASSUMPTIONS = [
    "operands are entities currently in the tree; identifiers are never reused (C06 covers reuse); no moves",
    "classes: ContainerGroup, Points, float Data, PropertyGroup; concatenated drillholes are not modelled (C04 covers their storage)",
    "property groups keep allow_delete = True",
]
RULE = (
    "systematic block: one object with 3 data and 1-3 property groups over every non-empty member subset and order, each data "
    "removed through either entry point; random block: 8-30 operations building nested groups/objects/data/property groups "
    "then removing through both entry points with allow_delete toggles, drops, listing getters and lookups; non-trivial = "
    "a removal of an entity that has descendants or belongs to a property group"
)
LEVEL_TEXT = (
    "Proved in Coq for all histories of create/add-data/property-group/allow_delete/remove (both entry points)/drop/listing/lookup "
    "operations: well-formedness invariants of reachable states (tree, property groups, child links, stored PropertyGroups blocks "
    "mirror memory); ws.remove_entity prunes exactly the subtree at tree level and (repaired remove_recursively) deletes exactly the "
    "subtree's nodes, and no surviving node links a removed one; after either entry point nothing of the removed subtree is attached, "
    "and after the caller dropped its references no listing and no look-up yields it; after a data removal no property group in memory "
    "and no stored block lists it (snapshot loop; exact condition no_skip for the pinned loop, iff); refusal changes nothing; further "
    "removals on survivors always end Ok/Refused. Refuted with witnesses replayed on the code: pinned group loop, pre-repair children "
    "loop, removal through the parent leaving flat nodes (open), refusal half-way on a protected descendant (open). Oracle-only: "
    "concatenated drillholes, copy of survivors. Tie: loop headers read from the ast + behavioural probe on every run, and correspondence "
    "of per-operation memory/registry/raw-HDF5 observations, the state after close/re-open and copy outcomes on generated histories."
)
TECHNIQUE = "Coq model of removal with explicit iteration-under-mutation semantics + invariant proofs + differential histories"

GEN = C.COQ / "generated" / "C05Cfg.v"


# ----------------------------------------------------------------------------- regeneration: loop headers -> cfg
def _loop_iter(src: str, cls: str, func: str, over: str):
    """Return True when `for _ in list(<over>)`, False when `for _ in <over>`; raise otherwise."""
    tree = ast.parse(src)
    for node in ast.walk(tree):
        if isinstance(node, ast.ClassDef) and node.name == cls:
            for f in node.body:
                if isinstance(f, ast.FunctionDef) and f.name == func:
                    loops = [x for x in ast.walk(f) if isinstance(x, ast.For)]
                    if len(loops) != 1:
                        raise RuntimeError(f"{cls}.{func}: expected exactly one for-loop, found {len(loops)}")
                    it = ast.unparse(loops[0].iter).replace(" ", "")
                    if it == over:
                        return False
                    if it in (f"list({over})", f"tuple({over})", f"{over}[:]", f"{over}.copy()"):
                        return True
                    raise RuntimeError(f"{cls}.{func}: unrecognised loop header `for ... in {it}` (model knows {over} and list({over}))")
    raise RuntimeError(f"{cls}.{func} not found")


def read_cfg(repo):
    repo = Path(repo)
    snap_ch = _loop_iter((repo / "geoh5py/workspace/workspace.py").read_text(), "Workspace", "remove_recursively", "entity.children")
    snap_pg = _loop_iter((repo / "geoh5py/objects/object_base.py").read_text(), "ObjectBase", "remove_data_from_groups", "self._property_groups")
    return {"snap_pg": snap_pg, "snap_ch": snap_ch}


PROBE = r"""
import gc, os, sys, tempfile, warnings
warnings.simplefilter("ignore")
import numpy as np
from geoh5py import Workspace
from geoh5py.objects import Points
d = tempfile.mkdtemp()
ws = Workspace.create(os.path.join(d, "p.geoh5"))
o = Points.create(ws, vertices=np.zeros((2, 3)))
a = o.add_data({"a": {"values": np.zeros(2)}})
g = o.add_data_to_group(a, "g")
ws.remove_entity(a)
del a, g
gc.collect()
try:
    n = len(ws.property_groups)
    print("PROBE ok" if n == 0 and not ws._property_groups else "PROBE odd")
except KeyError:
    print("PROBE keyerror")
ws.close()
"""


def probe_pg_listing(repo):
    """Does ws.property_groups survive a dead property group?  (behavioural probe of the checked tree)"""
    import subprocess

    env = dict(C.impl_env())
    env["PYTHONPATH"] = f"{repo}:{C.VERIF / 'tools'}"
    p = subprocess.run([C.PY, "-c", PROBE], capture_output=True, text=True, env=env, timeout=120)
    if "PROBE ok" in p.stdout:
        return True
    if "PROBE keyerror" in p.stdout:
        return False
    raise RuntimeError("pg-listing probe: unrecognised behaviour: " + (p.stdout + p.stderr)[-400:])


def check_gate(repo):
    """The model's gate is `negb (adel r)`: a truthiness test of entity.allow_delete at the top of Workspace.remove_entity
    (values read back from a file are numpy int8, so an identity / equality test is another function)."""
    src = (Path(repo) / "geoh5py/workspace/workspace.py").read_text()
    for node in ast.walk(ast.parse(src)):
        if isinstance(node, ast.ClassDef) and node.name == "Workspace":
            for f in node.body:
                if isinstance(f, ast.FunctionDef) and f.name == "remove_entity":
                    gates = [x for x in ast.walk(f) if isinstance(x, ast.If) and "allow_delete" in ast.unparse(x.test)]
                    if len(gates) != 1:
                        raise RuntimeError(f"Workspace.remove_entity: expected one allow_delete gate, found {len(gates)}")
                    test = ast.unparse(gates[0].test).replace(" ", "")
                    if test != "notentity.allow_delete":
                        raise RuntimeError(f"Workspace.remove_entity: gate `{ast.unparse(gates[0].test)}` is not the truthiness test "
                                           "`not entity.allow_delete` that the model transcribes")
                    if not any(isinstance(x, ast.Raise) for x in gates[0].body):
                        raise RuntimeError("Workspace.remove_entity: the allow_delete gate does not raise")
                    return "not entity.allow_delete"
    raise RuntimeError("Workspace.remove_entity not found")


def regenerate(repo):
    cfg = read_cfg(repo)
    gate = check_gate(repo)
    cfg["pg_list_ok"] = probe_pg_listing(repo)
    text = (
        "(* generated by tools/props/c05.py from the loop headers of Workspace.remove_recursively and\n"
        "   ObjectBase.remove_data_from_groups of the checked tree; do not edit *)\n"
        "From GV Require Import Model.Removal.\n"
        "Definition cur : cfg := {| snap_pg := %s; snap_ch := %s; pg_list_ok := %s |}.\n"
        % (cbool(cfg["snap_pg"]), cbool(cfg["snap_ch"]), cbool(cfg["pg_list_ok"]))
    )
    GEN.parent.mkdir(exist_ok=True)
    if not GEN.exists() or GEN.read_text() != text:
        GEN.write_text(text)
    return {"tables": {"loop_headers": cfg, "allow_delete_gate": gate}}


# ----------------------------------------------------------------------------- spec shadow (property text), used by generator and oracle
class Spec:
    """What the property text says the state is after each operation (no knowledge of the implementation's loops)."""

    def __init__(self):
        self.kind = {0: "group"}
        self.parent = {0: None}
        self.children = {0: []}  # non-PG children, in creation order
        self.groups = {}  # object -> {pg: [members]} insertion ordered
        self.adel = {0: True}
        self.removed = set()
        self.via_parent = set()
        self.foreign_pg = set()
        self.n = 1

    def attached(self, k):
        return k in self.kind and k not in self.removed

    def new(self, kind, parent):
        k = self.n
        self.n += 1
        self.kind[k] = kind
        self.parent[k] = parent
        self.adel[k] = True
        if kind in ("group", "object"):
            self.children[k] = []
        if kind == "object":
            self.groups[k] = {}
        if kind != "pg":
            self.children[parent].append(k)
        return k

    def subtree(self, e):
        out = [e]
        if self.kind[e] in ("group", "object"):
            for c in self.children[e]:
                out += self.subtree(c)
        if self.kind[e] == "object":
            out += list(self.groups[e])
        return out

    def protected_below(self, e):
        return [x for x in self.subtree(e) if x != e and not self.adel.get(x, True)]

    def remove(self, e, via_parent):
        sub = self.subtree(e)
        p = self.parent[e]
        if self.kind[e] == "pg":
            del self.groups[p][e]
        else:
            self.children[p].remove(e)
            if self.kind[e] == "data":
                for g in list(self.groups[p]):
                    if e in self.groups[p][g]:
                        self.groups[p][g].remove(e)
                        if not self.groups[p][g]:
                            del self.groups[p][g]
                            sub.append(g)
        self.removed |= set(sub)
        if via_parent:
            self.via_parent |= set(sub)
        return sub

    def apply(self, op):
        """Returns expected outcome: 'ok' | 'refused' | 'found' | 'notfound' | 'any'."""
        t = op["op"]
        if t in ("group", "object"):
            self.new(t, op["p"])
        elif t == "data":
            self.new("data", op["o"])
        elif t == "pg_new":
            g = self.new("pg", op["o"])
            mem = []
            for d in op["ds"]:
                if d in self.children[op["o"]] and self.kind[d] == "data" and d not in mem:
                    mem.append(d)
            self.groups[op["o"]][g] = mem
        elif t == "pg_add":
            o = self.parent[op["g"]]
            mem = self.groups[o][op["g"]]
            for d in op["ds"]:
                if d in self.children[o] and self.kind[d] == "data" and d not in mem:
                    mem.append(d)
        elif t == "allow_delete":
            self.adel[op["e"]] = op["val"]
        elif t == "remove_ws":
            if not self.adel[op["e"]]:
                return "refused"
            if self.protected_below(op["e"]):
                return "protected"
            self.remove(op["e"], False)
        elif t == "remove_parent":
            self.remove(op["e"], True)
        elif t == "remove_parent_many":
            # the request is made to the parent of the first entity; entities that are not its children are none of its business
            p = self.parent[op["es"][0]]
            for e in op["es"]:
                if self.attached(e) and self.parent[e] == p:
                    self.remove(e, True)
                elif self.kind[e] == "pg" and self.attached(e):
                    self.foreign_pg.add(e)  # a property group of another object in the list (kept; see the oracle)
        elif t == "lookup":
            return "any"
        return "ok"


def predict_skipped(groups, d):
    """Signature of the recorded defect: CPython's list iterator over the list remove_properties deletes from.
    groups: [(g, members)] in list order.  Returns the groups that still list d after the pinned loop."""
    gs = [(g, list(m)) for g, m in groups]
    i = 0
    while i < len(gs):
        g, m = gs[i]
        if d in m:
            m.remove(d)
        if not m:
            del gs[i]
        i += 1
    return sorted(g for g, m in gs if d in m)


# ----------------------------------------------------------------------------- generation
def _subsets(items):
    out = []
    for mask in range(1, 1 << len(items)):
        out.append([items[i] for i in range(len(items)) if mask >> i & 1])
    return out


def systematic_cases():
    """object 1 with data 2,3,4; k groups (1..3) over every non-empty member subset and order; remove each data through each entry point."""
    base = [{"op": "object", "p": 0}, {"op": "data", "o": 1}, {"op": "data", "o": 1}, {"op": "data", "o": 1}]
    subs = _subsets([2, 3, 4])
    # every order of the members inside a group matters little (remove_first); the order of the groups is what matters
    pats = [[a] for a in subs] + [[a, b] for a in subs for b in subs] + [[a, b, c] for a in subs for b in subs for c in subs]
    cases = []
    for pat in pats:
        for d in (2, 3, 4):
            for entry in ("remove_ws", "remove_parent"):
                ops = list(base) + [{"op": "pg_new", "o": 1, "ds": m} for m in pat] + [{"op": entry, "e": d}]
                cases.append({"ops": ops, "sys": True})
    return cases


def _pick(rng, xs):
    return xs[rng.below(len(xs))]


def random_history(rng):
    sp = Spec()
    ops = []

    def emit(op):
        ops.append(op)
        return sp.apply(op)

    def att(kind):
        return [k for k in sp.kind if sp.kind[k] == kind and sp.attached(k)]

    # build phase
    for _ in range(rng.range(0, 3)):
        emit({"op": "group", "p": _pick(rng, att("group"))})
    for _ in range(rng.range(1, 3)):
        emit({"op": "object", "p": _pick(rng, att("group"))})
    for o in att("object"):
        for _ in range(_pick(rng, [0, 1, 2, 2, 3, 4, 5])):
            emit({"op": "data", "o": o})
        ds = list(sp.children[o])
        if ds:
            for _ in range(_pick(rng, [0, 1, 2, 2, 3, 3])):
                k = _pick(rng, [1, 1, 1, 2, 2, 3])
                emit({"op": "pg_new", "o": o, "ds": rng.sample(ds, min(k, len(ds)))})
    # mutation phase
    halted = False
    for _ in range(rng.range(3, 14)):
        ents = [k for k in sp.kind if k != 0 and sp.attached(k)]
        if not ents:
            break
        r = rng.below(100)
        if r < 34:
            cand = ents if rng.chance(60) else ([k for k in ents if sp.kind[k] == "data"] or ents)
            e = _pick(rng, cand)
            if emit({"op": "remove_ws", "e": e}) == "protected":
                halted = True
                break  # refused half-way (protected descendant): the text does not say what the state is; stop here
        elif r < 46:
            emit({"op": "remove_parent", "e": _pick(rng, ents)})
        elif r < 52:
            # several children of one parent in one call (mixed kinds under a group)
            parents = [p for p in sp.kind if sp.attached(p) and sp.kind[p] in ("group", "object")
                       and len([c for c in sp.children[p] if sp.attached(c)]) >= 2]
            if parents:
                p = _pick(rng, parents)
                kids = [c for c in sp.children[p] if sp.attached(c)]
                es = rng.sample(kids, rng.range(2, min(3, len(kids))))
                if rng.chance(35):
                    # entities that are NOT children of that parent in the same list (any kind): they are to be left alone
                    others = [k for k in ents if sp.parent[k] != p and k not in es]
                    for x in rng.sample(others, min(len(others), rng.range(1, 2))):
                        es.insert(rng.range(1, len(es)), x)
                emit({"op": "remove_parent_many", "es": es})
            else:
                emit({"op": "remove_parent", "e": _pick(rng, ents)})
        elif r < 60:
            cand = [k for k in ents if sp.kind[k] != "pg"]
            if cand:
                e = _pick(rng, cand)
                emit({"op": "allow_delete", "e": e, "val": not sp.adel[e]})
        elif r < 68:
            emit({"op": "drop"})
        elif r < 78:
            emit({"op": "list", "k": _pick(rng, ["data", "object", "group", "pg"])})
        elif r < 84:
            emit({"op": "lookup", "e": rng.below(sp.n)})
        elif r < 90:
            objs = att("object")
            if objs:
                emit({"op": "data", "o": _pick(rng, objs)})
        elif r < 96:
            objs = [o for o in att("object") if sp.children[o]]
            if objs:
                o = _pick(rng, objs)
                if sp.groups[o] and rng.chance(40):
                    emit({"op": "pg_add", "g": _pick(rng, list(sp.groups[o])), "ds": rng.sample(sp.children[o], 1)})
                else:
                    emit({"op": "pg_new", "o": o, "ds": rng.sample(sp.children[o], min(len(sp.children[o]), rng.range(1, 3)))})
        else:
            emit({"op": "group", "p": _pick(rng, att("group"))})
    if not halted and rng.chance(30):  # leave something protected: the driver asks for its removal again after close + re-open
        cand = [k for k in sp.kind if k != 0 and sp.attached(k) and sp.kind[k] != "pg" and sp.adel[k]]
        if cand:
            emit({"op": "allow_delete", "e": _pick(rng, cand), "val": False})
    tail = rng.below(4)
    if tail >= 1:
        emit({"op": "drop"})
    if tail >= 2:
        for k in rng.shuffle(["data", "object", "group", "pg"])[: rng.range(1, 4)]:
            emit({"op": "list", "k": k})
    return {"ops": ops}


def concat_cases(rng, count):
    """Concatenated storage (DrillholeGroup): holes with depth data and/or from-to data (hence one or two property groups),
    then removals of a hole or of one data set through either entry point, optionally with allow_delete switched off.
    Oracle only (the concatenated tables are C04's model); `case_term` returns None for these."""
    cases = []
    fixed = [
        {"holes": [[2, 2], [2, 2], [1, 1]], "steps": [{"t": "hole", "k": 0, "entry": "ws", "protect": False}]},
        {"holes": [[2, 2], [2, 2], [1, 1]], "steps": [{"t": "hole", "k": 0, "entry": "parent", "protect": False}]},
        {"holes": [[2, 0], [1, 0]], "steps": [{"t": "hole", "k": 0, "entry": "ws", "protect": True}]},
        {"holes": [[2, 0], [1, 0]], "steps": [{"t": "data", "k": 0, "name": "d0", "entry": "ws", "protect": True}]},
        {"holes": [[2, 2], [1, 1]], "steps": [{"t": "data", "k": 0, "name": "i1", "entry": "ws", "protect": False},
                                                {"t": "hole", "k": 0, "entry": "ws", "protect": False}]},
    ]
    cases += [{"concat": c} for c in fixed]
    for _ in range(count):
        holes = [[rng.range(0, 2), rng.range(0, 2)] for _ in range(rng.range(1, 3))]
        steps = []
        alive = list(range(len(holes)))
        names = {k: [f"d{j}" for j in range(h[0])] + [f"i{j}" for j in range(h[1])] for k, h in enumerate(holes)}
        for _ in range(rng.range(1, 3)):
            if not alive:
                break
            k = _pick(rng, alive)
            protect = rng.chance(30)
            entry = "ws" if protect or rng.chance(60) else "parent"
            if names[k] and rng.chance(50):
                nm = _pick(rng, names[k])
                steps.append({"t": "data", "k": k, "name": nm, "entry": entry, "protect": protect})
                if not protect:
                    names[k].remove(nm)
            else:
                steps.append({"t": "hole", "k": k, "entry": entry, "protect": protect})
                if not protect:
                    alive.remove(k)
        cases.append({"concat": {"holes": holes, "steps": steps}})
    return cases


def generate(rng, tier):
    sysc = systematic_cases()
    if tier == "quick":
        # the patterns that decide the defect (first group a singleton) in full for one entry point, a sample of the rest
        keep = [c for c in sysc if len(c["ops"][4]["ds"]) == 1 and c["ops"][-1]["op"] == "remove_ws" and len(c["ops"]) <= 7]
        rest = [c for c in sysc if c not in keep]
        cases = keep + rng.sample(rest, 120)
        nrand = 260
    else:
        cases = sysc
        nrand = 6000
    for _ in range(nrand):
        cases.append(random_history(rng))
    cases += concat_cases(rng, 25 if tier == "quick" else 600)
    return cases


# ----------------------------------------------------------------------------- implementation driver
KINDS = {"data": "_data", "object": "_objects", "group": "_groups", "pg": "_property_groups"}
LISTING = {"data": "data", "object": "objects", "group": "groups", "pg": "property_groups"}


class _Run:
    def __init__(self, work):
        import os

        from geoh5py import Workspace

        self.path = os.path.join(work, "c05.geoh5")
        if os.path.exists(self.path):
            os.remove(self.path)
        self.ws = Workspace.create(self.path)
        self.tab = {0: self.ws.root}
        self.uid2ord = {self.ws.root.uid: 0}
        self.n = 1

    # -- helpers that never leave a reference behind
    def ordof(self, uid):
        import uuid

        if not isinstance(uid, uuid.UUID):
            uid = uuid.UUID(str(uid).strip("{}"))
        return self.uid2ord.get(uid, 999)

    def add(self, ent):
        k = self.n
        self.n += 1
        self.tab[k] = ent
        self.uid2ord[ent.uid] = k
        return k

    def is_attached(self, k):
        x = self.tab[k]
        root = self.ws.root
        for _ in range(200):
            if x is root:
                return True
            p = x.parent
            if p is None or not any(c is x for c in p.children):
                return False
            x = p
        return False

    def apply(self, op):
        import numpy as np
        from geoh5py.groups import ContainerGroup
        from geoh5py.objects import Points

        t = op["op"]
        ws, tab = self.ws, self.tab
        if t == "group":
            self.add(ContainerGroup.create(ws, parent=tab[op["p"]], name=f"e{self.n}"))
        elif t == "object":
            self.add(Points.create(ws, parent=tab[op["p"]], name=f"e{self.n}", vertices=np.zeros((2, 3))))
        elif t == "data":
            self.add(tab[op["o"]].add_data({f"e{self.n}": {"values": np.array([0.0, 1.0])}}))
        elif t == "pg_new":
            self.add(tab[op["o"]].add_data_to_group([tab[d] for d in op["ds"]], f"e{self.n}"))
        elif t == "pg_add":
            pg = tab[op["g"]]
            pg.parent.add_data_to_group([tab[d] for d in op["ds"]], pg)
        elif t == "allow_delete":
            tab[op["e"]].allow_delete = op["val"]
        elif t == "remove_ws":
            ws.remove_entity(tab[op["e"]])
        elif t == "remove_parent":
            tab[op["e"]].parent.remove_children([tab[op["e"]]])
        elif t == "remove_parent_many":
            tab[op["es"][0]].parent.remove_children([tab[e] for e in op["es"]])
        elif t == "drop":
            import gc

            dead = [k for k in tab if not self.is_attached(k)]
            for k in dead:
                del tab[k]
            gc.collect()
        elif t == "list":
            len(getattr(ws, LISTING[op["k"]]))
        elif t == "lookup":
            uid = [u for u, k in self.uid2ord.items() if k == op["e"]][0]
            return 3 if ws.get_entity(uid)[0] is not None else 4
        else:
            raise ValueError(t)
        return 0

    def step(self, op):
        try:
            return self.apply(op)
        except UserWarning:
            return 1
        except KeyError:
            return 2
        except Exception as e:  # noqa: BLE001
            self.last_error = f"{type(e).__name__}: {e}"[:200]
            return 9

    def mem(self):
        rows = []
        for k in sorted(self.tab):
            x = self.tab[k]
            ch = [self.ordof(c.uid) for c in getattr(x, "children", [])]
            pgs = []
            for g in getattr(x, "_property_groups", None) or []:
                pgs.append([self.ordof(g.uid), [self.ordof(u) for u in (g.properties or [])]])
            rows.append([k, ch, pgs])
        return rows

    def reg(self):
        rows = []
        for attr in KINDS.values():
            for uid, ref in getattr(self.ws, attr).items():
                rows.append([self.ordof(uid), ref() is not None])
        return sorted(rows)

    def dump(self, h5):
        import h5py

        base = h5[list(h5)[0]]
        flat, links, fpg = [], [], []
        for cont in ("Groups", "Objects", "Data"):
            if cont not in base:
                continue
            for uid, node in base[cont].items():
                k = self.ordof(uid)
                flat.append(k)
                for sub in ("Data", "Groups", "Objects"):
                    if sub in node and isinstance(node[sub], h5py.Group):
                        links += [[k, self.ordof(c)] for c in node[sub].keys()]
                if "PropertyGroups" in node:
                    for g, gh in node["PropertyGroups"].items():
                        props = gh.attrs.get("Properties", [])
                        fpg.append([self.ordof(g), [self.ordof(u) for u in (props.tolist() if hasattr(props, "tolist") else list(props))]])
        return {"flat": sorted(flat), "links": sorted(links), "fpg": sorted(fpg)}

    def observe(self, out):
        o = {"out": out, "mem": self.mem(), "reg": self.reg()}
        o.update(self.dump(self.ws.geoh5))
        return o


def _reopen_view(run, ws2):
    from geoh5py.groups import PropertyGroup

    rows = []

    def walk(x):
        k = run.ordof(x.uid)
        ch = sorted(run.ordof(c.uid) for c in getattr(x, "children", []) if not isinstance(c, PropertyGroup))
        pgs = sorted([run.ordof(g.uid), [run.ordof(u) for u in (g.properties or [])]] for g in (getattr(x, "property_groups", None) or []))
        rows.append([k, ch, pgs])
        for c in getattr(x, "children", []):
            if not isinstance(c, PropertyGroup):
                walk(c)

    walk(ws2.root)
    return sorted(rows)


OBJECT_LEVEL = ("Surveys", "Trace", "Property Group IDs", "property_group_ids")


def _concat_snapshot(ws, group, names):
    """names: uid -> readable name.  Everything a removal may or may not touch, in readable form."""

    def nm(x):
        import uuid

        if isinstance(x, bytes):
            x = x.decode()
        try:
            return names.get(uuid.UUID(str(x).strip("{}")), "?" + str(x)[:8])
        except ValueError:
            return str(x)

    snap = {"index": {}, "sizes": {}, "holes": {}, "object_ids": sorted(nm(u) for u in (group.concatenated_object_ids or []))}
    for label, rows in (group.index or {}).items():
        snap["index"][label] = sorted([nm(r["Object ID"]), nm(r["Data ID"]), int(r["Start index"]), int(r["Size"])] for r in rows)
    for label, vals in (group.data or {}).items():
        snap["sizes"][label] = int(len(vals))
    live_ids = {str(u.decode() if isinstance(u, bytes) else u).strip("{}") for u in (group.concatenated_object_ids or [])}
    for child in group.children:
        if str(child.uid) not in live_ids:
            # removed from the concatenated tables but still listed by the group: do not touch it (get_data_list() on it
            # appends an empty record to the concatenated attributes and the file can no longer be opened)
            snap["holes"][child.name] = {"data": ["<removed but listed>"], "groups": {}, "values": {}}
            continue
        dnames = sorted(n for n in child.get_data_list() if n[:1] in ("d", "i"))
        vals = {}
        for n in dnames:
            d = (child.get_data(n) or [None])[0]
            vals[n] = None if d is None or d.values is None else [None if v != v else float(v) for v in list(d.values)[:4]]
        snap["holes"][child.name] = {
            "data": dnames,
            "groups": {pg.name: sorted(nm(u) for u in (pg.properties or [])) for pg in (child.property_groups or [])},
            "values": vals,
        }
    snap["lookups"] = sorted(nm(u) for u in names if ws.get_entity(u)[0] is not None)
    return snap


def _concat_file(path, names):
    import h5py

    found = {"index": [], "attributes": []}
    with h5py.File(path, "r") as h5:
        base = h5[list(h5)[0]]
        for grp in base["Groups"].values():
            if "Concatenated Data" not in grp:
                continue
            concat = grp["Concatenated Data"]
            for label, dset in concat["Index"].items():
                if label in OBJECT_LEVEL:
                    continue
                for row in dset[:]:
                    oid = row["Object ID"]
                    oid = oid.decode() if isinstance(oid, bytes) else str(oid)
                    found["index"].append([label, oid.strip("{}")])
            blob = ""
            for key in ("Attributes", "Attributes Jsons"):
                if key in concat:
                    b = concat[key][()]
                    blob += b.decode() if isinstance(b, bytes) else str(b)
            found["attributes"] = sorted(nm for uid, nm in names.items() if str(uid) in blob)
    found["index"] = sorted([lab, names.get(__import__("uuid").UUID(o), "?" + o[:8])] for lab, o in found["index"])
    return found


def _drive_concat(spec, work):
    import os

    import numpy as np
    from geoh5py import Workspace
    from geoh5py.groups import DrillholeGroup
    from geoh5py.objects import Drillhole

    path = os.path.join(work, "c05_concat.geoh5")
    if os.path.exists(path):
        os.remove(path)
    res = {"steps": []}
    names = {}
    try:
        with Workspace.create(path, version=2.0, ga_version="4.2") as ws:
            grp = DrillholeGroup.create(ws, name="G")
            for k, (nd, ni) in enumerate(spec["holes"]):
                well = Drillhole.create(ws, collar=np.r_[10.0 * k, 0.0, 0.0], parent=grp, name=f"h{k}",
                                        surveys=np.c_[np.linspace(0, 100, 5), np.ones(5) * 45.0, np.linspace(-89, -75, 5)])
                if nd:
                    well.add_data({f"d{j}": {"depth": np.arange(6.0), "values": np.arange(6.0) + 100 * k + 10 * j} for j in range(nd)})
                if ni:
                    ft = np.c_[np.arange(0.0, 5.0), np.arange(1.0, 6.0)]
                    well.add_data({f"i{j}": {"from-to": ft, "values": np.arange(5.0) + 100 * k + 10 * j + 50} for j in range(ni)})
        with Workspace(path, version=2.0) as ws:
            grp = ws.get_entity("G")[0]
            for well in grp.children:
                names[well.uid] = well.name
                for ch in well.children:
                    names[ch.uid] = f"{well.name}.{ch.name}"
                for pg in well.property_groups or []:
                    names[pg.uid] = f"{well.name}.pg:{pg.name}"
            well = ch = pg = None  # loop variables must not keep anything alive
            res["before"] = _concat_snapshot(ws, grp, names)
            for st in spec["steps"]:
                well = ws.get_entity(f"h{st['k']}")[0]
                ent = well if st["t"] == "hole" else (well.get_data(st["name"]) or [None])[0] if well is not None else None
                if ent is None:
                    res["steps"].append({"out": "missing"})
                    continue
                try:
                    if st["protect"]:
                        ent.allow_delete = False
                    if st["entry"] == "ws":
                        ws.remove_entity(ent)
                    else:
                        ent.parent.remove_children([ent])
                    out = "ok"
                except UserWarning:
                    out = "refused"
                except Exception as e:  # noqa: BLE001
                    out = f"error:{type(e).__name__}:{str(e)[:80]}"
                del ent, well
                import gc

                gc.collect()  # the caller has dropped its own references
                res["steps"].append({"out": out, "snap": _concat_snapshot(ws, grp, names)})
        res["file"] = _concat_file(path, {u: n for u, n in names.items()})
        with Workspace(path, version=2.0) as ws:
            grp = ws.get_entity("G")[0]
            res["reopened"] = _concat_snapshot(ws, grp, names)
    finally:
        if os.path.exists(path):
            os.remove(path)
    return res


def drive_one(case, work):
    if "concat" in case:
        return _drive_concat(case["concat"], work)
    import os

    import h5py
    from geoh5py import Workspace
    from geoh5py.objects import ObjectBase

    run = _Run(work)
    res = {"per_op": [], "errors": []}
    try:
        for op in case["ops"]:
            run.last_error = None
            out = run.step(op)
            res["per_op"].append(run.observe(out))
            if run.last_error:
                res["errors"].append(run.last_error)
        run.ws.close()
        with h5py.File(run.path, "r") as h5:
            res["closed"] = run.dump(h5)
        # lookups by identifier and by name on the closed workspace's registries (no file access); oracle only
        lk = {}
        for uid, k in run.uid2ord.items():
            by_uid = run.ws.get_entity(uid)[0] is not None
            by_name = any(x is not None for x in run.ws.get_entity(f"e{k}")) if k else False
            lk[str(k)] = [by_uid, by_name]
        res["lookups"] = lk
        res["held"] = sorted(run.tab)
        ws2 = Workspace(run.path)
        res["reopened"] = _reopen_view(run, ws2)
        # entities left protected: ask the RE-OPENED workspace to remove them (the flag is now what the reader delivers)
        prot = []
        protected = {}
        for op in case["ops"]:
            if op["op"] == "allow_delete":
                protected[op["e"]] = not op["val"]
        inv = {k: u for u, k in run.uid2ord.items()}
        for k in sorted(k for k, v in protected.items() if v):
            ent = ws2.get_entity(inv[k])[0]
            if ent is None:
                continue
            try:
                ws2.remove_entity(ent)
                refused = False
            except UserWarning:
                refused = True
            except Exception as e:  # noqa: BLE001
                refused = f"{type(e).__name__}"
            del ent
            prot.append([k, refused, _reopen_view(run, ws2) != res["reopened"]])
        res["protected_reopen"] = prot
        copies = []
        objs = sorted((run.ordof(o.uid), o) for o in ws2.objects if isinstance(o, ObjectBase))
        for k, o in objs:
            try:
                o.copy()
                copies.append([k, True, None])
            except Exception as e:  # noqa: BLE001
                copies.append([k, False, type(e).__name__])
        res["copies"] = copies
        ws2.close()
    finally:
        try:
            run.ws.close()
        except Exception:  # noqa: BLE001
            pass
        if os.path.exists(run.path):
            os.remove(run.path)
    return res


# ----------------------------------------------------------------------------- Coq case terms
KCOQ = {"data": "KData", "object": "KObject", "group": "KGroup", "pg": "KPG"}


def _op_term(op):
    t = op["op"]
    if t == "group":
        return f"OGroup {cnat(op['p'])}"
    if t == "object":
        return f"OObject {cnat(op['p'])}"
    if t == "data":
        return f"OData {cnat(op['o'])}"
    if t == "pg_new":
        return f"OPgNew {cnat(op['o'])} {clist(cnat(d) for d in op['ds'])}"
    if t == "pg_add":
        return f"OPgAdd {cnat(op['g'])} {clist(cnat(d) for d in op['ds'])}"
    if t == "allow_delete":
        return f"OAllowDelete {cnat(op['e'])} {cbool(op['val'])}"
    if t == "remove_ws":
        return f"ORemoveWs {cnat(op['e'])}"
    if t == "remove_parent":
        return f"ORemoveParent {cnat(op['e'])}"
    if t == "remove_parent_many":
        return f"ORemoveParentMany {clist(cnat(e) for e in op['es'])}"
    if t == "drop":
        return "ODrop"
    if t == "list":
        return f"OList {KCOQ[op['k']]}"
    if t == "lookup":
        return f"OLookup {cnat(op['e'])}"
    raise ValueError(t)


def _ser_list(l):
    return [len(l)] + list(l)


def _ser_grps(gs):
    out = [len(gs)]
    for g, m in gs:
        out += [g] + _ser_list(m)
    return out


def _ser_mem(rows):
    out = [len(rows)]
    for k, ch, pgs in rows:
        out += [k] + _ser_list(ch) + _ser_grps(pgs)
    return out


def _ser_pairs(rows):
    out = [len(rows)]
    for a, b in rows:
        out += [a, int(b)]
    return out


def _ser_obs(o):
    return [o["out"]] + _ser_mem(o["mem"]) + _ser_pairs(o["reg"]) + _ser_list(o["flat"]) + _ser_pairs(o["links"]) + _ser_grps(o["fpg"])


def _hist_term(case):
    return clist(_op_term(op) for op in case["ops"])


HMASK = (1 << 64) - 1


def _pack(chunk):
    a = 0
    for x in chunk:
        a = (a << 8) | x
    return a


def digest(seq):
    h = 7
    seq = list(seq)
    i = 0
    while len(seq) - i >= 8:
        h = (h * 6364136223846793005 + _pack(seq[i:i + 8]) + 1) & HMASK
        i += 8
    return (h * 6364136223846793005 + _pack(seq[i:]) + 1) & HMASK


def final_ser(obs):
    c = obs["closed"]
    out = _ser_list(c["flat"]) + _ser_pairs(c["links"]) + _ser_grps(c["fpg"])
    out += _ser_mem(obs["reopened"])
    out += _ser_pairs([(k, ok) for k, ok, _ in obs["copies"]])
    return out


def _foreign_pg(case):
    """A property group of ANOTHER object in the list handed to parent.remove_children: outside the model (Removal.v,
    ORemoveParentMany), oracle only."""
    kind, parent, n = {0: "group"}, {0: None}, 1
    for op in case["ops"]:
        t = op["op"]
        if t in ("group", "object", "data", "pg_new"):
            kind[n] = "pg" if t == "pg_new" else t
            parent[n] = op.get("p", op.get("o"))
            n += 1
        elif t == "remove_parent_many":
            p = parent.get(op["es"][0])
            if any(kind.get(e) == "pg" and parent.get(e) != p for e in op["es"]):
                return True
    return False


def case_term(case, obs):
    if "concat" in case or _foreign_pg(case):
        return None  # concatenated storage / a foreign property group in a remove_children list: oracle only
    if "per_op" not in obs or "reopened" not in obs:
        return "false"
    fin = final_ser(obs)
    if any(not 0 <= x < 4000 for x in fin):
        return "false"
    return "agree cur %s [%s] [%s]" % (
        _hist_term(case), ";".join("%d%%N" % digest(_ser_obs(o)) for o in obs["per_op"]), ";".join(str(x) for x in fin))


def model_term(case):
    if "concat" in case or _foreign_pg(case):
        return None
    return "(let (l, w) := run_obs cur init %s in (l, reopen_view (close_effect w)))" % _hist_term(case)


# ----------------------------------------------------------------------------- oracle (property text; independent of the model)
def _fail(key, what):
    return {"key": key, "what": what[:400]}


def _oracle_concat(spec, obs):
    """Property text on concatenated holes: refusal changes nothing; a removed hole / data leaves no trace in the tables,
    the attributes, the look-ups and the file; survivors keep their data."""
    fails, seen = [], set()

    def add(key, what):
        if key not in seen:
            seen.add(key)
            fails.append(_fail(key, what))

    if "steps" not in obs or "before" not in obs:
        return [_fail("driver-incomplete", json.dumps(obs)[:300])]
    prev = obs["before"]
    gone = set()  # readable names (hK, hK.name, hK.pg:...) that must have disappeared
    protected = set()
    for i, (st, ob) in enumerate(zip(spec["steps"], obs["steps"])):
        out = ob["out"]
        if out == "missing":
            continue
        snap = ob["snap"]
        hole = f"h{st['k']}"
        target = hole if st["t"] == "hole" else f"{hole}.{st['name']}"
        if st["protect"]:
            protected.add(target)
        if target in protected and st["entry"] == "ws":
            if out != "refused":
                add("concat-allow-delete-ignored", f"step {i} {st}: removal of protected {target} through the workspace was not refused ({out})")
            if snap != prev and out == "refused":
                add("concat-refused-changed-state", f"step {i} {st}: refused, yet the drillhole group changed")
            if out == "refused":
                prev = snap
                continue
        if out.startswith("error"):
            add("concat-op-raised", f"step {i} {st}: {out}")
            prev = snap
            continue
        if out == "refused":
            add("concat-refused-unprotected", f"step {i} {st}: refused although allow_delete is on")
            prev = snap
            continue
        # removed: collect what has to be gone
        if st["t"] == "hole":
            newly = {n for n in prev["lookups"] if n == hole or n.startswith(hole + ".")} | {hole}
        else:
            newly = {target}
            for pg, members in prev["holes"].get(hole, {}).get("groups", {}).items():
                if members == [target]:
                    newly.add(f"{hole}.pg:{pg}")
        gone |= newly
        left_rows = [[lab, r] for lab, rows in snap["index"].items() if lab not in OBJECT_LEVEL
                     for r in rows if r[0] in gone or r[1] in gone]
        if left_rows:
            add("concat-index-keeps-removed", f"step {i} {st}: index rows of removed entities remain: {left_rows[:4]}")
        still = [n for n in snap["lookups"] if n in gone]
        still_holes = [n for n in still if "." not in n]
        if still_holes:  # same root cause as concat-hole-still-listed: the group keeps the removed hole alive
            add("concat-hole-still-listed", f"step {i} {st}: removed hole(s) {still_holes} are still found by identifier")
        if [n for n in still if "." in n]:
            add("concat-lookup-yields-removed", f"step {i} {st}: look-up by identifier still yields {[n for n in still if '.' in n]}")
        if st["t"] == "hole" and hole in snap["holes"]:
            add("concat-hole-still-listed", f"step {i} {st}: {hole} is still a child of the group")
        if st["t"] == "data" and st["name"] in snap["holes"].get(hole, {}).get("data", []):
            add("concat-data-still-listed", f"step {i} {st}: {target} is still listed by its hole")
        for h, rec in snap["holes"].items():
            for pg, members in rec["groups"].items():
                if any(m in gone for m in members):
                    add("concat-pg-lists-removed-data", f"step {i} {st}: group {pg} of {h} lists removed data {members}")
        # survivors untouched
        for h, rec in prev["holes"].items():
            if h in gone:
                continue
            now = snap["holes"].get(h)
            if now is None:
                add("concat-survivor-lost", f"step {i} {st}: hole {h} disappeared")
                continue
            want_data = [d for d in rec["data"] if f"{h}.{d}" not in gone]
            if [d for d in now["data"] if d[:1] in ("d", "i")] != [d for d in want_data if d[:1] in ("d", "i")]:
                add("concat-survivor-data-changed", f"step {i} {st}: data of {h} are {now['data']}, expected {want_data}")
            for d, v in rec["values"].items():
                if f"{h}.{d}" not in gone and now["values"].get(d) != v:
                    add("concat-survivor-values-changed", f"step {i} {st}: values of {h}.{d} are {now['values'].get(d)}, were {v}")
        prev = snap
    # file and re-open
    f = obs.get("file", {})
    bad = [r for r in f.get("index", []) if r[1] in gone]
    if bad:
        add("concat-file-keeps-removed", f"file: index rows of removed holes remain: {bad[:4]}")
    bad = [n for n in f.get("attributes", []) if n in gone]
    if bad:
        add("concat-file-keeps-removed", f"file: concatenated attributes still mention {bad[:6]}")
    ro = obs.get("reopened")
    if ro is not None:
        back = [n for n in ro["lookups"] if n in gone] + [h for h in ro["holes"] if h in gone]
        if back:
            add("concat-removed-back-after-reopen", f"after re-open {back[:6]} are found again")
        for h, rec in prev["holes"].items():
            if h not in gone and ro["holes"].get(h, {}).get("values") != rec["values"]:
                add("concat-survivor-values-changed", f"after re-open the data of {h} differ: {ro['holes'].get(h, {}).get('values')} vs {rec['values']}")
    return fails


def oracle(case, obs):
    if "crash" in obs:
        return [_fail("driver-crash", obs["crash"])]
    if "concat" in case:
        return _oracle_concat(case["concat"], obs)
    if "per_op" not in obs:
        return [_fail("driver-incomplete", json.dumps(obs)[:300])]
    fails = []
    seen = set()

    def add(key, what):
        if key not in seen:
            seen.add(key)
            fails.append(_fail(key, what))

    sp = Spec()
    expected_dangling = {}  # (object, data) -> groups predicted by the recorded signature
    prev = None
    for i, (op, o) in enumerate(zip(case["ops"], obs["per_op"])):
        t = op["op"]
        # signature bookkeeping before the spec changes
        if t in ("remove_ws", "remove_parent") and sp.kind.get(op.get("e")) == "data":
            ob = sp.parent[op["e"]]
            # the implementation's list may already hold stale members from an earlier occurrence: use the observed list
            cur = None
            if prev is not None:
                for k, _, pgs in prev["mem"]:
                    if k == ob:
                        cur = [(g, m) for g, m in pgs]
            if cur is None:
                cur = [(g, m) for g, m in sp.groups[ob].items()]
            expected_dangling[(ob, op["e"])] = predict_skipped(cur, op["e"])
        exp = sp.apply(op) if t != "drop" and t != "list" else "ok"
        out = o["out"]
        if exp == "refused":
            if out != 1:
                add("allow-delete-ignored", f"op {i} {op}: removal of an entity with allow_delete off was not refused (outcome {out})")
            elif prev is not None and any(prev[f] != o[f] for f in ("mem", "reg", "flat", "links", "fpg")):
                add("refused-changed-state", f"op {i} {op}: refused removal changed the state")
        elif exp == "protected":
            # a descendant is protected: the text does not say; whatever happens must be all-or-nothing
            if out == 1 and prev is not None and any(prev[f] != o[f] for f in ("mem", "flat", "links", "fpg")):
                add("refused-midway-partial-removal", f"op {i} {op}: refused because of a protected descendant after deleting part of the subtree")
                return fails  # the spec shadow cannot follow a half-done removal
            if out == 0:
                sp.remove(op["e"], False)
            elif out != 1:
                add(f"op-raised", f"op {i} {op}: outcome {out} {obs.get('errors')}")
        elif exp == "ok":
            if t == "list" and out == 2:
                add("pg-listing-keyerror", f"op {i}: ws.property_groups raised KeyError once a property group has died")
            elif out != 0:
                add("op-raised", f"op {i} {op}: outcome {out} {obs.get('errors')}")
        # ---- state against the text, after every operation
        rows = {k: (ch, pgs) for k, ch, pgs in o["mem"]}
        for k in sp.kind:
            if not sp.attached(k) or sp.kind[k] in ("data", "pg"):
                continue
            if k not in rows:
                add("survivor-lost", f"op {i}: surviving entity {k} is no longer reachable")
                continue
            ch, pgs = rows[k]
            ch_np = [c for c in ch if sp.kind.get(c) != "pg"]
            gone = [c for c in ch if c in sp.removed and sp.kind[c] != "pg"]  # a stale group is reported under its own key below
            if gone:
                add("children-list-yields-removed", f"op {i}: children of {k} still contain removed {gone}")
            elif ch_np != sp.children[k]:
                add("survivor-children-changed", f"op {i}: children of {k} are {ch_np}, expected {sp.children[k]}")
            if sp.kind[k] == "object":
                got = {g: m for g, m in pgs}
                want = sp.groups[k]
                if got != want:
                    dang = sorted(g for g, m in got.items() if any(d in sp.removed for d in m))
                    if dang:
                        # which removed data, and does the recorded signature predict exactly these groups?
                        ok_sig = True
                        for d in sorted({d for g in dang for d in got[g] if d in sp.removed}):
                            pred = expected_dangling.get((k, d), [])
                            if sorted(g for g in dang if d in got[g]) != pred:
                                ok_sig = False
                        # the rest must be as expected
                        rest_ok = all(got.get(g) == want.get(g) for g in set(got) | set(want) if g not in dang)
                        add("pg-lists-removed-data" if ok_sig and rest_ok else "pg-dangling-unexpected",
                            f"op {i}: property groups {dang} of object {k} still list removed data: {got}, expected {want}")
                    else:
                        add("survivor-groups-changed", f"op {i}: property groups of {k} are {got}, expected {want}")
        # ---- file
        _file_checks(sp, o, f"op {i}", add)
        # ---- listings: after a drop no removed entity may stay alive
        if t == "drop":
            listed = {g for _, _, pgs in o["mem"] for g, _ in pgs}  # groups the implementation kept (reported by the group checks)
            alive = [k for k, a in o["reg"] if a and k in sp.removed and k not in listed]
            if alive:
                add("removed-entity-alive-after-drop", f"op {i}: {alive} still alive after the caller dropped its references")
        prev = o
    # ---- after close / re-open
    _file_checks(sp, obs["closed"], "after close", add)
    want_rows = []
    for k in sorted(sp.kind):
        if sp.attached(k) and sp.kind[k] != "pg":
            ch = sorted(sp.children.get(k, []))
            pgs = sorted([g, m] for g, m in sp.groups.get(k, {}).items())
            want_rows.append([k, ch, pgs])
    if obs["reopened"] != want_rows:
        dang = any(d in sp.removed for _, _, pgs in obs["reopened"] for _, m in pgs for d in m)
        # the only difference is a property group whose stored record the recorded finding deleted?
        def without(rows):
            return [[k, ch, [x for x in pgs if x[0] not in sp.foreign_pg]] for k, ch, pgs in rows]
        foreign = "remove-children-foreign-pg" in seen and without(obs["reopened"]) == without(want_rows)
        add("remove-children-foreign-pg" if foreign else
            "pg-lists-removed-data" if dang and "pg-lists-removed-data" in seen else "reopen-differs",
            f"after re-open: {obs['reopened']} expected {want_rows}")
    for k, refused, changed in obs.get("protected_reopen", []):
        if refused is not True:
            add("allow-delete-ignored-after-reopen", f"after re-open, removal of protected entity {k} was not refused ({refused})")
        elif changed:
            add("refused-changed-state", f"after re-open, the refused removal of {k} changed the tree")
    for k, ok, err in obs["copies"]:
        if not ok:
            row = [r for r in obs["reopened"] if r[0] == k]
            stale = row and any(d not in row[0][1] for _, m in row[0][2] for d in m)
            add("copy-fails-dangling-member" if stale and err == "KeyError" else "copy-fails", f"copy of surviving object {k} raised {err}")
    # lookups after the caller dropped its references (only meaningful for entities the driver no longer holds)
    for ks, (by_uid, by_name) in obs["lookups"].items():
        k = int(ks)
        if k in sp.removed and k not in obs["held"] and (by_uid or by_name):
            add("lookup-yields-removed", f"lookup of removed entity {k} by {'uid' if by_uid else 'name'} still yields it")
    return fails


def _file_checks(sp, o, where, add):
    want_flat = sorted(k for k in sp.kind if sp.attached(k) and sp.kind[k] != "pg")
    extra = [k for k in o["flat"] if k not in want_flat]
    missing = [k for k in want_flat if k not in o["flat"]]
    if missing:
        add("survivor-missing-in-file", f"{where}: flat containers lack surviving {missing}")
    if extra:
        if all(k in sp.via_parent for k in extra):
            add("via-parent-leaves-flat-node", f"{where}: entities removed through their parent are still in the flat containers: {extra}")
        else:
            add("removed-left-in-file", f"{where}: removed entities still in the flat containers: {[k for k in extra if k not in sp.via_parent]}")
    want_links = sorted([sp.parent[k], k] for k in want_flat if k != 0)
    bad_links = [l for l in o["links"] if l not in want_links]
    if [l for l in want_links if l not in o["links"]]:
        add("survivor-link-missing", f"{where}: child links missing {[l for l in want_links if l not in o['links']]}")
    if bad_links:
        if all(p in sp.via_parent for p, _ in bad_links):
            add("via-parent-leaves-flat-node", f"{where}: nodes removed through their parent keep child links {bad_links}")
        else:
            add("link-to-removed", f"{where}: child links to or from removed entities: {bad_links}")
    want_fpg = sorted([g, m] for ob in sp.groups if sp.attached(ob) for g, m in sp.groups[ob].items())
    lost = [x for x in want_fpg if x not in o["fpg"]]
    if lost and all(x[0] in sp.foreign_pg for x in lost):
        # recorded finding; the rest of the stored groups is judged without them
        add("remove-children-foreign-pg", f"{where}: property groups {[x[0] for x in lost]} were in a list handed to ANOTHER object's "
            f"remove_children: kept in memory, their stored records are gone: {o['fpg']} expected {want_fpg}")
        want_fpg = [x for x in want_fpg if x not in lost]
    if o["fpg"] != want_fpg:
        got = {g: m for g, m in o["fpg"]}
        odd = [g for g, m in o["fpg"] if [g, m] not in want_fpg]
        if all(sp.parent.get(g) in sp.via_parent or g in sp.via_parent for g in odd) and all(x in o["fpg"] for x in want_fpg):
            add("via-parent-leaves-flat-node", f"{where}: PropertyGroups entries of nodes removed through their parent remain: {odd}")
        elif any(d in sp.removed for g in odd for d in got[g]):
            add("pg-lists-removed-data", f"{where}: stored property groups {odd} list removed data: {o['fpg']} expected {want_fpg}")
        else:
            add("file-groups-differ", f"{where}: stored property groups {o['fpg']} expected {want_fpg}")


def nontrivial(case, obs):
    if "concat" in case:
        return True
    sp = Spec()
    for op in case["ops"]:
        if op["op"] in ("remove_ws", "remove_parent") and sp.attached(op["e"]):
            e = op["e"]
            if len(sp.subtree(e)) > 1:
                return True
            if sp.kind[e] == "data" and any(e in m for m in sp.groups[sp.parent[e]].values()):
                return True
        try:
            sp.apply(op)
        except Exception:  # noqa: BLE001
            return False
    return False


def histogram(cases, obs):
    h = {"ops": {}, "length": {}, "systematic": 0, "outcomes": {}, "entities": {}, "removals_with_descendants": 0, "data_in_groups": {}}
    h["concatenated"] = sum(1 for c in cases if "concat" in c)
    for c, o in zip(cases, obs):
        if "concat" in c:
            continue
        if c.get("sys"):
            h["systematic"] += 1
        L = str(len(c["ops"]) // 5 * 5)
        h["length"][L] = h["length"].get(L, 0) + 1
        sp = Spec()
        for op in c["ops"]:
            h["ops"][op["op"]] = h["ops"].get(op["op"], 0) + 1
            if op["op"] in ("remove_ws", "remove_parent") and sp.attached(op["e"]):
                e = op["e"]
                if len(sp.subtree(e)) > 1:
                    h["removals_with_descendants"] += 1
                if sp.kind[e] == "data":
                    m = str(sum(1 for mm in sp.groups[sp.parent[e]].values() if e in mm))
                    h["data_in_groups"][m] = h["data_in_groups"].get(m, 0) + 1
            try:
                sp.apply(op)
            except Exception:  # noqa: BLE001
                break
        ne = str(sp.n // 4 * 4)
        h["entities"][ne] = h["entities"].get(ne, 0) + 1
        for po in (o.get("per_op") or []):
            k = str(po["out"])
            h["outcomes"][k] = h["outcomes"].get(k, 0) + 1
    return h
