"""C15 — ui.json validation accepts exactly the valid values, statelessly.

Case kinds
  fn     one call of a PyLite-translated (or hand-modelled primitive) function on generated values          (tie of the translator)
  rv     a ui.json built by the DRIVER from geoh5py/ui_json/templates.py + switch members; requires_value & co. per parameter
  pool   a history of EnforcerPool.enforce calls on one pool           (verdict + len(_errors) after every call)
  param  a history of `parameter.value = v` on one Parameter object    (verdict + stored value after every call)
  vdata  a history of InputValidation.validate_data calls on one object (verdict per call, rule table before/after)
  chain  one InputValidation.validate(name, value, rules) call          (accept_iff)
  infer  InputValidation._validations_from_uijson over a SEQUENCE of template-built forms in one process (first form again at the end)
  form   a history on ONE FormParameter object (forms.py / descriptors.py): constructor kwargs, member assignment, register(),
         UIJson.update(); verdict, form() and active members after every call, and the verdict of a fresh object
  ifv    a history on ONE validating InputFile: ui_json assignment(s), whole-data assignments, set_data_value; verdicts, the form
         after every call, and the verdict a brand-new InputFile gives for the same data
"""
from __future__ import annotations

import copy

from pylite import units
from props import uipv
from props.uipv import coq, coq_res, dec, enc, jd, jget, jhas, is_jdict
from vlib import common as C

ID = "C15"
PROPERTIES_V = "theories/Properties/C15.v"
_W = uipv.WORLD
W0 = ("{| w_ents := [" + "; ".join(f"({u}%N, {'KEntity' if k == 'ent' else '(KPropGroup ' + uipv.cstring(k[3:]) + ')'})" for u, k in _W["ents"].items())
      + "]; w_desc := [" + "; ".join(f"({u}%N, [" + "; ".join(f"{d}%N" for d in ds) + "])" for u, ds in _W["desc"].items()) + "] |}")
CASE_IMPORTS = ("From Coq Require Import String.\nFrom GV Require Import Prelude.Base Model.PyVal Model.UiRules Model.Enforcers Model.UiForms "
                "Model.UiCodec Model.IfValidate Model.FormParams.\n"
                "From GVgen Require Import PyLite_SharedUtils PyLite_UiUtils PyLite_Validators PyLite_Validation Table_UiValidations.\n"
                "Local Open Scope string_scope.\n"
                f"Definition W0 : world := {W0}.")
ALLOWED_AXIOMS: list = []
REFUTED = [
    "C15_pool_old_code_refuted, C15_param_old_code_refuted, C15_oneof_old_code_refuted (the pre-repair transcriptions; "
    "Model/Enforcers.v follows the repaired code for which the full statements are proved)",
]
PARTIAL: list = []
TRUSTED = [
    "Coq 8.16.1 kernel + vm_compute (correspondence evaluation); no axioms",
    "coq/theories/Model/PyVal.v: the Python value universe and primitives (==, isinstance lattice, dict order, KeyError, `in`, truthiness, "
    "uuid text, np.isfinite) - exercised per primitive by 'fn' cases",
    "tools/pylite/translate.py (ast -> Gallina; transformations listed in its docstring), cross-checked: every translated function is run "
    "against its own source on generated inputs",
    "hand-written coq/theories/Model/Enforcers.v (EnforcerPool, Parameter, Association/PropertyGroup/Shape validators, "
    "InputValidation.validate/validate_data), tied by histories run on the real objects",
    "tools/props/c15.py + uipv.py (generators, driver, tagged-JSON codec, oracles)",
    "hand-written coq/theories/Model/IfValidate.v (the rule tables a validating InputFile accumulates over ui_json assignments, the data "
    "setter, set_data_value), with _validations_from_uijson as PyLite output and base_validations extracted from constants.py; tied by "
    "histories on one InputFile object and by sequences of forms inferred in one process",
    "hand-written coq/theories/Model/FormParams.v (FormValueAccess.__set__, FormParameter.value / register / active / form, UIJson.update for "
    "one form); the Parameter class behind every member is read off the live object, MemberKeys.camel_to_snake is extracted from forms.py; "
    "tied by histories of member assignments, register(), constructor kwargs and UIJson.update on one object",
    "not modelled: TypeUIDEnforcer and the Required*Enforcers (collection checks of the UIJson class), Object/Data/File form parameter "
    "classes, pydantic forms (forms.py BaseForm family)",
]
ASSUMPTIONS = [
    "strings are printable ASCII; uuid-shaped strings use hex digits only (Python's int() leniency: sign, 0x, underscores, blanks is not modelled)",
    "one workspace (the fixed 10-entity world of tools/props/uipv.py); entities are live and the workspace is open",
    "WfUi (theorems about requires_value): switch members are booleans, group names strings, a dependency names a dict parameter whose "
    "switch member (enabled if optional else value) is boolean",
]
RULE = ("rv: 2-6 forms from all 12 templates, each optional template member present/absent independently, group / groupOptional / "
        "dependency / dependencyType / enabled switches (exhaustive 2^7 switch vectors over a 3-parameter layout in every run, "
        "random layouts besides, ~8% ill-formed members); histories of 2-5 calls with good/bad values in every order; "
        "form: one FormParameter object of 6 classes, constructor kwargs, 2-5 calls of member assignment / register / UIJson.update with "
        "accepted and rejected values in snake and camel case, unknown members; infer: 2-3 template-built forms inferred one after the other in one process, the first one again at the end; ifv: one validating "
        "InputFile serving one or two forms (second form with other - rarely the same - parameter names), whole-data assignments with "
        "valid / invalid values, set_data_value, each verdict also taken on a brand-new InputFile with the same data; association "
        "rules with parents that have nested children; "
        "non-trivial = a history with an accepted call after a rejected one, or a ui whose target has a group, dependency or optional member")
LEVEL_TEXT = ("Proved for all ui.json dictionaries with any number of parameters and group members: requires_value (PyLite translation of the "
              "source) is total on well-formed dictionaries and equals the group > dependency > optional hierarchy; the validator chain "
              "accepts iff every declared constraint holds, and validate_data on at-least-one rules accepts iff every group has a member "
              "that is not None; for the EnforcerPool / Parameter / validate_data models, whose state (_errors, stored value, rule table) "
              "is threaded explicitly through call histories, verdicts do not depend on the history (for the pool: on any left-over "
              "_errors) and a rejected value leaves the stored value and rule table unchanged (repaired code; the pre-repair "
              "transcriptions are refuted by concrete histories). Tie: translator regenerated on every run + correspondence of every "
              "translated function and of call histories on the real objects.")
TECHNIQUE = "Coq proof over PyLite-translated source + hand models, tied by differential execution in vm_compute"


def regenerate(repo):
    return units.regenerate_all(repo, C.VERIF)


# ============================================================================= generation
SWITCH_KEYS = ["optional", "enabled", "group", "groupOptional", "dependency", "dependencyType"]


def raw_form(rng, names):
    """a form-like tagged dict with arbitrary member subsets (no templates: feeds the translated functions directly)"""
    f = []
    if not rng.chance(6):
        f.append(["label", "L"])
    if not rng.chance(6):
        f.append(["value", rng.choice([True, False, 1, 0, {"f": [3, 1]}, "x", None, 2])])
    if rng.chance(40):
        f.append(["optional", rng.choice([True, True, False, None])])
    if rng.chance(45):
        f.append(["enabled", rng.choice([True, False, False, None])])
    if rng.chance(45):
        f.append(["group", rng.choice(["G1", "G1", "G2", None])])
    if rng.chance(30):
        f.append(["groupOptional", rng.choice([True, True, False])])
    if rng.chance(45) and names:
        f.append(["dependency", rng.choice(names + (["nosuch"] if rng.chance(10) else []))])
        if rng.chance(65):
            f.append(["dependencyType", rng.choice(["enabled", "disabled", "disabled", "bogus"])])
    if rng.chance(15):
        f.append(["isValue", rng.chance(50)])
        f.append(["property", rng.choice([None, {"u": 0x30}])])
    return {"d": rng.shuffle(f)}


def raw_ui(rng):
    n = rng.range(1, 6)
    names = [f"p{i}" for i in range(n)]
    d = []
    if rng.chance(30):
        d.append(["title", "T"])
    for nm in names:
        if rng.chance(12):
            d.append([nm, rng.choice([1, "s", None, {"l": [1]}, {"d": [["a", 1]]}])])
        else:
            d.append([nm, raw_form(rng, names)])
    return {"d": d}, names


def exhaustive_switch_cases():
    """2^7 switch vectors over the layout  d (bool switch), g (group mate carrying groupOptional), p (target)"""
    out = []
    for bits in range(128):
        b = [(bits >> i) & 1 for i in range(7)]
        p_opt, p_en, grp, g_en, dep, dep_dis, d_val = b
        d = {"d": [["label", "d"], ["value", bool(d_val)]]}
        g = {"d": [["label", "g"], ["value", 1], ["group", "G"], ["groupOptional", True], ["enabled", bool(g_en)]]}
        p = [["label", "p"], ["value", 1]]
        if p_opt:
            p += [["optional", True], ["enabled", bool(p_en)]]
        elif p_en:
            continue  # enabled is only a switch under optional: halves the redundant vectors
        if grp:
            p.append(["group", "G"])
        if dep:
            p.append(["dependency", "d"])
            if dep_dis:
                p.append(["dependencyType", "disabled"])
        elif dep_dis:
            continue
        ui = {"d": [["d", d], ["g", g], ["p", {"d": p}]]}
        out.append({"k": "fn", "fn": "requires_value", "args": [ui, "p"], "exhaustive": True})
        # the same vector with an optional dependency switch (enabled member instead of value)
        if dep:
            d2 = {"d": [["label", "d"], ["value", 5], ["optional", True], ["enabled", bool(d_val)]]}
            ui2 = {"d": [["d", d2], ["g", g], ["p", {"d": p}]]}
            out.append({"k": "fn", "fn": "requires_value", "args": [ui2, "p"], "exhaustive": True})
    return out


TYPE_SETS = [["str"], ["int"], ["float"], ["bool"], ["int", "float"], ["str", "UUID", "Entity"], ["list"], ["list", "str"],
             ["str", "NoneType"], ["str", "UUID", "int", "float", "Entity"], ["str", "UUID", "PropertyGroup"], ["Workspace", "str", "NoneType"]]
VALUES_POOL = [None, True, False, 0, 1, 3, {"f": [1, 0]}, {"f": [3, 1]}, {"f": "inf"}, "a", "b", "Option A", "", "inf",
               "{00000000-0000-0000-0000-000000000030}", "00000000-0000-0000-0000-000000000099", {"u": 0x30}, {"u": 0x99}, {"e": 0x30, "k": "ent"},
               {"e": 0x20, "k": "ent"}, {"e": 0x40, "k": "pg:Multi-element"}, {"e": 0x41, "k": "pg:Strike & dip"}, {"w": "WORLD"},
               {"l": ["a", "b"]}, {"l": []}, {"l": [1, "a"]}, {"t": ["a"]}, {"l": [{"u": 0x30}, {"u": 0x31}]}, {"d": [["a", 1]]}, 2 ** 70]


def gen_pool_case(rng):
    enf = []
    kinds = rng.sample(["type", "value", "uuid"], rng.range(1, 3))
    for k in kinds:
        if k == "type":
            enf.append(["type", rng.choice([["str"], ["int"], ["float"], ["int", "float"], ["bool"], ["list", "str"], ["UUID"]])])
        elif k == "value":
            enf.append(["value", rng.choice([["a", "b"], [1, 2, 3], ["a", 1, True], ["enabled", "disabled"], [{"f": [3, 1]}, "x"]])])
        else:
            enf.append(["uuid"])
    cand = [None, "a", "b", "c", 1, 3, True, {"f": [3, 1]}, {"f": [1, 0]}, {"l": ["a"]}, "00000000-0000-0000-0000-000000000099",
            {"u": 0x30}, "enabled", {"t": ["a"]}, {"d": []}, 2 ** 70]
    vals = [rng.choice(cand) for _ in range(rng.range(2, 5))]
    return {"k": "pool", "enf": enf, "vals": vals}


PARAM_CLASSES = ["StringParameter", "IntegerParameter", "FloatParameter", "NumericParameter", "BoolParameter", "StringListParameter",
                 "ValueRestricted", "TypeRestricted"]


def gen_param_case(rng):
    cls = rng.choice(PARAM_CLASSES)
    c = {"k": "param", "cls": cls}
    if cls == "ValueRestricted":
        c["restr"] = rng.choice([["a", "b"], [1, 2], ["enabled", "disabled"]])
    if cls == "TypeRestricted":
        c["restr"] = rng.choice([["str"], ["int", "float"], ["list"]])
    cand = [None, "a", "b", "zzz", 1, 2, 7, True, {"f": [3, 1]}, {"l": ["a", "b"]}, {"l": [1]}, "enabled", {"u": 0x30}]
    c["vals"] = [rng.choice(cand) for _ in range(rng.range(2, 5))]
    return c


def gen_rules(rng):
    """a per-parameter rule dict as InputValidation uses them"""
    r = []
    if rng.chance(25):
        r.append(["required", rng.chance(80)])
    if rng.chance(35):
        r.append(["optional", rng.chance(50)])
    if rng.chance(80):
        ts = list(rng.choice(TYPE_SETS))
        if rng.chance(35) and "NoneType" not in ts:
            ts.append("NoneType")
        if rng.chance(15) and "list" not in ts:
            ts.append("list")
        r.append(["types", {"l": [{"ty": t} for t in ts]}])
    if rng.chance(25):
        r.append(["uuid", None])
    if rng.chance(30):
        r.append(["association", rng.choice([{"e": 0x20, "k": "ent"}, {"e": 0x21, "k": "ent"}, {"e": 0x10, "k": "ent"}, {"w": "WORLD"}, None,
                                             {"e": 0x30, "k": "ent"}, {"l": [{"e": 0x20, "k": "ent"}]}, "parent_name", {"e": 0x40, "k": "pg:Multi-element"}])])
    if rng.chance(15):
        r.append(["property_group_type", rng.choice(["Multi-element", "Strike & dip", "3D vector"])])
    if rng.chance(30):
        r.append(["values", rng.choice([{"l": ["a", "b", "Option A"]}, {"t": ["a", "b"]}, {"l": [1, 2, 3]}, {"l": ["inf", ""]}])])
    if rng.chance(12):
        r.append(["shape", {"t": [rng.choice([1, 2, 3])]}])
    return {"d": rng.shuffle(r)}


def gen_vdata_case(rng):
    names = [f"q{i}" for i in range(rng.range(2, 4))]
    vd = []
    groups = ["g1", "g2"]
    for nm in names:
        rules = gen_rules(rng)
        rules["d"] = [kv for kv in rules["d"] if kv[0] not in ("association", "property_group_type", "shape")]
        if rng.chance(60):
            rules["d"].append(["one_of", rng.choice(groups)])
            # the group members should tolerate None so that the one_of rule decides
            for kv in rules["d"]:
                if kv[0] == "types" and {"ty": "NoneType"} not in kv[1]["l"]:
                    kv[1]["l"].append({"ty": "NoneType"})
            rules["d"] = [kv for kv in rules["d"] if kv[0] not in ("required", "optional")]
        if rng.chance(20):
            rules["d"].append(["association", rng.choice(names + ["geoh5"])])
        vd.append([nm, rules])
    datas = []
    for _ in range(rng.range(2, 4)):
        d = []
        for nm in names:
            if rng.chance(8):
                continue
            d.append([nm, rng.choice([None, None, "a", "b", 1, {"f": [3, 1]}, {"u": 0x30}, {"e": 0x30, "k": "ent"}, {"e": 0x20, "k": "ent"}, {"l": ["a"]}])])
        if rng.chance(30) and datas:
            d = copy.deepcopy(datas[-1]["d"])      # the same data again: the repeat-call pattern
        datas.append({"d": d})
    return {"k": "vdata", "validations": {"d": vd}, "datas": datas, "ignore_requirements": rng.chance(10)}


def gen_chain_case(rng):
    rules = gen_rules(rng)
    rules["d"] = [kv for kv in rules["d"] if kv[0] != "one_of"]
    return {"k": "chain", "name": "q", "value": rng.choice(VALUES_POOL), "rules": rules,
            "ignore_requirements": rng.chance(10), "ignored": rng.chance(5)}


def gen_assoc_case(rng):
    """membership of the referenced parent object / group / workspace, parents with nested children (depth >= 2)"""
    parent = rng.choice([{"e": 0x10, "k": "ent"}, {"e": 0x10, "k": "ent"}, {"e": 0x20, "k": "ent"}, {"e": 0x21, "k": "ent"},
                         {"e": 0x11, "k": "ent"}, {"w": "WORLD"}, {"e": 0x30, "k": "ent"}])
    uid = rng.choice([0x30, 0x31, 0x38, 0x20, 0x21, 0x40, 0x41, 0x10, 0x99])
    value = {"u": uid} if rng.chance(40) or uid == 0x99 else {"e": uid, "k": uipv.WORLD["ents"][uid]}
    rules = [["association", parent]]
    if rng.chance(50):
        rules.insert(0, ["types", {"l": [{"ty": t} for t in ["str", "UUID", "Entity", "PropertyGroup"]]}])
    if rng.chance(30):
        rules.append(["uuid", None])
    return {"k": "chain", "name": "q", "value": value, "rules": {"d": rules}, "ignore_requirements": False, "ignored": False}


IFV_TEMPLATES = ["bool_parameter", "integer_parameter", "float_parameter", "string_parameter", "choice_string_parameter", "file_parameter",
                 "object_parameter", "group_parameter", "data_parameter"]


def gen_ifv_forms(rng, prefix, n):
    names = [f"{prefix}{i}" for i in range(n)]
    forms = []
    for i, nm in enumerate(names):
        for _ in range(20):
            e = uipv.gen_form_entry(rng, nm, names[:i] + names[i + 1:])
            if e["tmpl"] in IFV_TEMPLATES:
                break
        else:
            e = {"name": nm, "tmpl": "float_parameter", "kw": {}, "extra": [], "drop": []}
        if e["tmpl"] == "data_parameter":
            objs = [f["name"] for f in forms if f["tmpl"] in ("object_parameter", "group_parameter")]
            e["kw"]["parent"] = rng.choice(objs) if objs else ""
            if not objs:
                e = {"name": nm, "tmpl": "integer_parameter", "kw": {"value": 3}, "extra": [], "drop": []}
        forms.append(e)
    uipv.add_switches(rng, forms, weird=0)
    ok_dep = {f["name"] for f in forms if f["tmpl"] == "bool_parameter" or "optional" in f["kw"]}
    for f in forms:          # a dependency names a boolean or an optional parameter (C15's WfUi)
        dep = [v for k2, v in f["extra"] if k2 == "dependency"]
        if dep and dep[0] not in ok_dep:
            f["extra"] = [kv for kv in f["extra"] if kv[0] not in ("dependency", "dependencyType")]
    return forms


def ifv_value(rng, entry):
    """a candidate value for one form: from its domain, or violating it"""
    t = entry["tmpl"]
    bad = [None, "seven", 1.5 and {"f": [3, 1]}, {"l": [{"f": [3, 1]}]}, {"u": 0x99}, 12, True, {"l": []}]
    if rng.chance(45):
        return rng.choice(bad)
    if t == "bool_parameter":
        return rng.chance(50)
    if t == "integer_parameter":
        return rng.choice([0, 7, -2])
    if t == "float_parameter":
        return rng.choice([{"f": [5, 1]}, {"f": "inf"}, {"f": [0, 0]}])
    if t == "string_parameter":
        return rng.choice(["xyz", "hello"])
    if t == "choice_string_parameter":
        cl = entry["kw"]["choice_list"].get("l") or entry["kw"]["choice_list"].get("t")
        return rng.choice(cl + ["quintic"]) if not entry["kw"].get("multi_select") else {"l": rng.sample(cl + ["quintic"], rng.range(0, 2))}
    if t == "file_parameter":
        return rng.choice(["a/b.chg", ""])
    if t == "object_parameter":
        return rng.choice([{"u": 0x20}, {"u": 0x21}, {"u": 0x30}, {"l": [{"u": 0x20}]}, {"u": 0x10}])
    if t == "group_parameter":
        return rng.choice([{"u": 0x10}, {"u": 0x11}, {"u": 0x20}])
    return rng.choice([{"u": 0x30}, {"u": 0x31}, {"u": 0x38}, {"u": 0x40}, {"u": 0x32}])


def gen_ifv_case(rng):
    base = [{"name": "title", "raw": "T"}, {"name": "geoh5", "raw": {"w": "WORLD"}}]
    ops = []
    n_forms = 2 if rng.chance(55) else 1
    for k in range(n_forms):
        forms = gen_ifv_forms(rng, "a" if (k == 1 and rng.chance(8)) else "ab"[k], rng.range(2, 4))   # rarely: the second form re-uses names
        ops.append({"op": "assign", "entries": base + forms})
        for j in range(rng.range(1, 3)):
            ch = [] if j == 0 and rng.chance(60) else [[f["name"], ifv_value(rng, f)] for f in rng.sample(forms, rng.range(1, 2))]
            ops.append({"op": "data", "changes": ch})
        if rng.chance(50):
            f = rng.choice(forms)
            ops.append({"op": "set", "key": f["name"], "value": ifv_value(rng, f)})
    return {"k": "ifv", "ops": ops}


FORM_CLASSES = ["FormParameter", "StringFormParameter", "BoolFormParameter", "IntegerFormParameter", "FloatFormParameter",
                "ChoiceStringFormParameter"]
FORM_MEMBER_VALUES = {
    "label": ["My label", 3, None], "enabled": [True, False, "no", 1, None], "optional": [True, False, "yes", {"f": [3, 1]}],
    "group_optional": [True, False, {"f": [3, 1]}, "true"], "main": [True, False, "x"], "group": ["G", 5, None],
    "dependency": ["other", 5, 12, None], "dependency_type": ["enabled", "disabled", "sometimes", None, {"l": ["enabled"]}],
    "group_dependency": ["other", 7], "group_dependency_type": ["enabled", "disabled", "never"], "tooltip": ["tip", 1],
    "min": [0, {"f": [0, 0]}, "low"], "max": [10, {"f": [5, 1]}, "high"], "precision": [3, "two", {"f": [3, 1]}], "line_edit": [True, "x"],
    "choice_list": [{"l": ["a", "b"]}, "abc", 5],
}
CAMEL = {"group_optional": "groupOptional", "dependency_type": "dependencyType", "group_dependency": "groupDependency",
         "group_dependency_type": "groupDependencyType", "line_edit": "lineEdit", "choice_list": "choiceList"}


def form_members(cls):
    base = ["label", "enabled", "optional", "group_optional", "main", "group", "dependency", "dependency_type", "group_dependency",
            "group_dependency_type", "tooltip"]
    extra = {"IntegerFormParameter": ["min", "max"], "FloatFormParameter": ["min", "max", "precision", "line_edit"],
             "ChoiceStringFormParameter": ["choice_list"]}.get(cls, [])
    return base + extra


def form_value_for(rng, cls):
    good = {"FormParameter": [1, "x", None, {"l": [1]}], "StringFormParameter": ["abc", "xyz"], "BoolFormParameter": [True, False],
            "IntegerFormParameter": [3, 7], "FloatFormParameter": [{"f": [3, 1]}, {"f": [1, 0]}], "ChoiceStringFormParameter": ["a", "b"]}[cls]
    return rng.choice(good) if rng.chance(70) else rng.choice([5, "zzz", {"f": [3, 1]}, True, {"l": ["a"]}, None])


def gen_form_items(rng, cls, n, with_value=False):
    ms = rng.sample(form_members(cls), n)
    items = []
    for m in ms:
        key = CAMEL.get(m, m) if rng.chance(60) else m
        items.append([key, rng.choice(FORM_MEMBER_VALUES[m])])
    if rng.chance(20):
        items.append([rng.choice(["foo", "rangeLabel", "allowComplement"]), rng.choice([1, "x", True])])
    if with_value:
        items.append(["value", form_value_for(rng, cls)])
    return rng.shuffle(items)


def gen_form_case(rng):
    cls = rng.choice(FORM_CLASSES)
    case = {"k": "form", "cls": cls, "value": form_value_for(rng, cls) if rng.chance(85) else None,
            "kwargs": gen_form_items(rng, cls, rng.range(0, 3)), "ops": []}
    if "Choice" in cls:
        case["kwargs"] = [kv for kv in case["kwargs"] if kv[0] not in ("choice_list", "choiceList")]    # given positionally below
        case["choice_list"] = ["a", "b", "c"]
        if case["value"] is None:
            case["value"] = "a"
    for _ in range(rng.range(2, 5)):
        r = rng.below(100)
        if rng.chance(25):
            case["ops"].append({"op": "validate"})
        if r < 55:
            m = rng.choice(form_members(cls) + ["value"])
            v = form_value_for(rng, cls) if m == "value" else rng.choice(FORM_MEMBER_VALUES[m])
            case["ops"].append({"op": "set", "m": m, "v": v})
        elif r < 80:
            case["ops"].append({"op": "register", "items": gen_form_items(rng, cls, rng.range(1, 3))})
        else:
            case["ops"].append({"op": "update", "items": gen_form_items(rng, cls, rng.range(1, 2), with_value=rng.chance(80))})
    return case


def gen_infer_case(rng):
    uis = []
    for k in range(rng.range(2, 3)):
        n = rng.range(2, 5)
        names = [f"p{i}" for i in range(n)]
        forms = [uipv.gen_form_entry(rng, nm, names[:i] + names[i + 1:]) for i, nm in enumerate(names)]
        uipv.add_switches(rng, forms, weird=3)
        uis.append([{"name": "title", "raw": "T"}, {"name": "geoh5", "raw": {"w": "WORLD"}}] + forms)
    uis.append(copy.deepcopy(uis[0]))          # the first form again: its rules must come out the same
    return {"k": "infer", "uis": uis}


FN_UI = ["requires_value", "group_requires_value", "dependency_requires_value", "optional_requires_value", "is_form", "truth",
         "collect", "find_all", "group_optional", "group_enabled", "is_uijson", "flatten"]


def gen_fn_case(rng):
    fn = rng.weighted([(f, 30 if f == "requires_value" else 6) for f in FN_UI] + [("validator", 45), ("iterable", 6), ("is_uuid", 10)])
    if fn == "validator":
        v = rng.choice(["OptionalValidator", "RequiredValidator", "AtLeastOneValidator", "TypeValidator", "UUIDValidator", "ValueValidator"])
        value = rng.choice(VALUES_POOL)
        if v in ("OptionalValidator", "RequiredValidator"):
            valid = rng.choice([True, False, None, 1])
        elif v == "AtLeastOneValidator":
            value = rng.choice([{"d": [["a", rng.chance(50)], ["b", rng.chance(30)]]}, {"d": []}, {"d": [["a", None]]}, "notadict", {"d": [["a", 0], ["b", "x"]]}])
            valid = None
        elif v == "TypeValidator":
            ts = rng.choice(TYPE_SETS)
            valid = rng.weighted([({"l": [{"ty": t} for t in ts]}, 80), ({"ty": ts[0]}, 10), ({"t": [{"ty": ts[0]}]}, 5), ("str", 3), ({"l": ["str"]}, 2)])
        elif v == "UUIDValidator":
            value = rng.choice(VALUES_POOL + uipv.LOOKALIKE_STRINGS)
            valid = None
        else:
            valid = rng.choice([{"l": ["a", "b", "Option A"]}, {"t": ["a", "b"]}, {"l": [1, 2, 3]}, {"l": []}, "abc", None])
        return {"k": "fn", "fn": v + ".validate", "args": ["q", value, valid]}
    if fn == "iterable":
        return {"k": "fn", "fn": "iterable", "args": [uipv.gen_value(rng, 1)]}
    if fn == "is_uuid":
        return {"k": "fn", "fn": "is_uuid", "args": [rng.choice(uipv.LOOKALIKE_STRINGS + VALUES_POOL + [10 ** 31, "0" * 31, "g" * 32, "{{" + "1" * 32, "uuid:" + "ab" * 16, "AB" * 16])]}
    ui, names = raw_ui(rng)
    p = rng.choice(names + (["nosuch"] if rng.chance(4) else []))
    if fn in ("requires_value", "group_requires_value", "dependency_requires_value", "optional_requires_value"):
        return {"k": "fn", "fn": fn, "args": [ui, p]}
    if fn == "is_form":
        return {"k": "fn", "fn": fn, "args": [rng.choice([v for _, v in ui["d"]])]}
    if fn == "truth":
        return {"k": "fn", "fn": fn, "args": [ui, p, rng.choice(["enabled", "optional", "groupOptional", "main", "isValue", "label", "bogus"])]}
    if fn in ("collect", "find_all"):
        return {"k": "fn", "fn": fn, "args": [ui, rng.choice(["group", "groupOptional", "optional", "label", "dependency"]),
                                              rng.choice([None, None, "G1", True, "p0"])]}
    if fn == "group_optional":
        return {"k": "fn", "fn": fn, "args": [ui, rng.choice(["G1", "G2", None, "nosuch"])]}
    if fn == "group_enabled":
        return {"k": "fn", "fn": fn, "args": [ui]}
    return {"k": "fn", "fn": fn, "args": [ui]}


def gen_rv_case(rng):
    n = rng.range(2, 6)
    names = [f"p{i}" for i in range(n)]
    entries = []
    for i, nm in enumerate(names):
        entries.append(uipv.gen_form_entry(rng, nm, names[:i] + names[i + 1:]))
    uipv.add_switches(rng, entries)
    if rng.chance(30):
        entries.insert(0, {"name": "title", "raw": "T"})
    return {"k": "rv", "entries": entries}


def generate(rng, tier):
    scale = 1 if tier == "quick" else 25
    cases = list(exhaustive_switch_cases())
    cases += [
        # the pre-repair witnesses: stale aggregate, stale one_of, rejected value stored, optional without enabled
        {"k": "pool", "enf": [["type", ["str"]], ["value", ["a", "b"]]], "vals": [3, "a", "a"]},
        {"k": "pool", "enf": [["type", ["str"]], ["value", ["a", "b"]]], "vals": [{"l": ["x"]}, "a"]},
        {"k": "param", "cls": "StringParameter", "vals": ["good", 5, "good2"]},
        {"k": "vdata", "validations": {"d": [["a", {"d": [["one_of", "g"], ["types", {"l": [{"ty": "str"}, {"ty": "NoneType"}]}]]}],
                                             ["b", {"d": [["one_of", "g"], ["types", {"l": [{"ty": "str"}, {"ty": "NoneType"}]}]]}]]},
         "datas": [{"d": [["a", None], ["b", None]]}, {"d": [["a", None], ["b", None]]}, {"d": [["a", "x"], ["b", None]]}], "ignore_requirements": False},
        {"k": "fn", "fn": "requires_value", "args": [{"d": [["d", {"d": [["label", "d"], ["value", True]]}],
                                                              ["p", {"d": [["label", "p"], ["value", 1], ["optional", True], ["dependency", "d"]]}]]}, "p"]},
    ]
    for _ in range(260 * scale):
        cases.append(gen_fn_case(rng))
    for _ in range(70 * scale):
        cases.append(gen_rv_case(rng))
    for _ in range(60 * scale):
        cases.append(gen_pool_case(rng))
    for _ in range(50 * scale):
        cases.append(gen_param_case(rng))
    for _ in range(60 * scale):
        cases.append(gen_vdata_case(rng))
    for _ in range(160 * scale):
        cases.append(gen_chain_case(rng))
    for _ in range(40 * scale):
        cases.append(gen_assoc_case(rng))
    for _ in range(30 * scale):
        cases.append(gen_infer_case(rng))
    for _ in range(60 * scale):
        cases.append(gen_ifv_case(rng))
    for _ in range(80 * scale):
        cases.append(gen_form_case(rng))
    return cases


# ============================================================================= driver
def _call(f, *a):
    try:
        return {"ok": f(*a)}
    except Exception as e:  # noqa: BLE001
        return {"error": type(e).__name__, "msg": str(e)[:160]}


def _encres(r, work):
    if "ok" in r:
        try:
            return {"ok": enc(r["ok"], work)}
        except uipv.NotExpressible as e:
            return {"inexpressible": str(e)}
    return r


def _verdict(f, *a):
    try:
        f(*a)
        return None
    except Exception as e:  # noqa: BLE001
        return type(e).__name__


def drive_one(case, work):
    import warnings
    warnings.simplefilter("ignore")
    k = case["k"]
    if k == "fn":
        fn = case["fn"]
        args = [dec(a, work) for a in case["args"]]
        if "." in fn:
            from geoh5py.shared import validators as V
            cls, meth = fn.split(".")
            f = getattr(getattr(V, cls), meth)
        elif fn in ("iterable", "is_uuid"):
            from geoh5py.shared import utils as SU
            f = getattr(SU, fn)
        else:
            from geoh5py.ui_json import utils as UU
            f = getattr(UU, fn)
        r = _encres(_call(f, *args), work)
        try:
            r["args_after"] = [enc(a, work) for a in args]
        except uipv.NotExpressible:
            pass
        return r
    if k == "rv":
        from geoh5py.ui_json import utils as UU
        ui = uipv.build_ui(case["entries"], work)
        obs = {"ui": enc(ui, work), "rv": {}, "grv": {}, "drv": {}}
        for name in ui:
            obs["rv"][name] = _encres(_call(UU.requires_value, ui, name), work)
            if isinstance(ui[name], dict) and "group" in ui[name]:
                obs["grv"][name] = _encres(_call(UU.group_requires_value, ui, name), work)
            if isinstance(ui[name], dict) and "dependency" in ui[name]:
                obs["drv"][name] = _encres(_call(UU.dependency_requires_value, ui, name), work)
        obs["ui_after"] = enc(ui, work)
        return obs
    if k == "pool":
        from geoh5py.shared.utils import SetDict
        from geoh5py.ui_json.enforcers import EnforcerPool

        def mk():
            kw = {}
            for e in case["enf"]:
                if e[0] == "type":
                    kw["type"] = [uipv._types()[t] for t in e[1]]
                elif e[0] == "value":
                    kw["value"] = [dec(v, work) for v in e[1]]
                else:
                    kw["uuid"] = None
            return EnforcerPool.from_validations("p", SetDict(**kw))
        pool = mk()
        order = [type(e).__name__ for e in pool.enforcers]
        seq, fresh = [], []
        for v in case["vals"]:
            val = dec(v, work)
            seq.append([_verdict(pool.enforce, val), len(pool._errors)])   # pylint: disable=protected-access
            fresh.append(_verdict(mk().enforce, dec(v, work)))
        return {"order": order, "seq": seq, "fresh": fresh}
    if k == "param":
        from geoh5py.ui_json import parameters as P

        def mk():
            if case["cls"] == "ValueRestricted":
                return P.ValueRestrictedParameter("p", [dec(v, work) for v in case["restr"]])
            if case["cls"] == "TypeRestricted":
                return P.TypeRestrictedParameter("p", [uipv._types()[t] for t in case["restr"]])
            return getattr(P, case["cls"])("p")
        par = mk()
        init = enc(par.value, work)
        seq, fresh = [], []
        for v in case["vals"]:
            def setv(p, x):
                p.value = x
            verdict = _verdict(setv, par, dec(v, work))
            seq.append([verdict, enc(par.value, work)])
            fresh.append(_verdict(setv, mk(), dec(v, work)))
        return {"init": init, "seq": seq, "fresh": fresh}
    if k == "form":
        from geoh5py.ui_json import forms as F
        from geoh5py.ui_json import parameters as P
        from geoh5py.ui_json.ui_json import UIJson
        cls = getattr(F, case["cls"])

        def build(kwargs):
            args = {"value": dec(case["value"], work)}
            if "choice_list" in case:
                args["choice_list"] = list(case["choice_list"])
            return cls("my", **args, **kwargs)

        def reflect(p):
            spec = []
            for m in p.valid_members:
                q = getattr(p, "_" + m)
                ent = {"m": m, "cls": type(q).__name__, "val": enc(q.value, work)}
                if isinstance(q, P.DynamicallyRestrictedParameter):
                    r = q.restrictions
                    r = list(r) if isinstance(r, (list, set, tuple)) else [r]
                    ent["restr"] = [enc(x, work) for x in r]
                    ent["etype"] = q._enforcer_type      # pylint: disable=protected-access
                spec.append(ent)
            return spec
        try:
            base = build({})
        except Exception as e:  # noqa: BLE001
            return {"base_error": type(e).__name__}
        obs = {"spec": reflect(base), "extra0": enc(dict(base._extra_members), work), "active0": list(base._active_members)}  # pylint: disable=protected-access

        def rebuilt(p):
            """a new object constructed from the current form() of p: what validate() should be a function of"""
            fm = dict(p.form())
            fm.pop("value", None)
            fm.pop("choice_list", None)
            args = {"value": p.value}
            if "choice_list" in case:
                args["choice_list"] = list(case["choice_list"])
            return cls("my", **args, **fm)
        kwargs = {k2: dec(v, work) for k2, v in case["kwargs"]}
        try:
            param = build(kwargs)
            obs["ctor"] = None
        except Exception as e:  # noqa: BLE001
            obs["ctor"] = type(e).__name__
            return obs
        obs["ctor_form"] = enc(param.form(), work)
        obs["ctor_active"] = list(param.active)
        vd = {k2: sorted(v) for k2, v in param.validations.items()}       # frozen at construction
        obs["validations"] = {"reqm": vd.get("required_form_members", []), "req": vd.get("required"), "other": sorted(set(vd) - {"required_form_members", "required"})}
        uij = UIJson({"title": P.StringParameter("title", "t"), "geoh5": P.WorkspaceParameter("geoh5"), "my": param})
        steps = []
        for op in case["ops"]:
            st = {}
            if op["op"] == "set":
                st["verdict"] = _verdict(setattr, param, op["m"], dec(op["v"], work))
                try:
                    fresh = build({})
                    st["fresh"] = _verdict(setattr, fresh, op["m"], dec(op["v"], work))
                except Exception:  # noqa: BLE001
                    st["fresh"] = st["verdict"]
            elif op["op"] == "validate":
                st["verdict"] = _verdict(param.validate)
                try:
                    st["fresh"] = _verdict(rebuilt(param).validate)
                except Exception as e:  # noqa: BLE001
                    st["fresh"] = "rebuild:" + type(e).__name__
            elif op["op"] == "register":
                st["verdict"] = _verdict(param.register, {k2: dec(v, work) for k2, v in op["items"]})
            else:
                st["verdict"] = _verdict(uij.update, {"my": {k2: dec(v, work) for k2, v in op["items"]}})
            try:
                st["form"] = enc(param.form(), work)
            except uipv.NotExpressible as e:
                return {"inexpressible": str(e)}
            st["active"] = list(param.active)
            steps.append(st)
        obs["steps"] = steps
        return obs
    if k == "infer":
        from geoh5py.ui_json.validation import InputValidation
        out = []
        for entries in case["uis"]:
            ui = uipv.build_ui(entries, work)
            try:
                u = enc(ui, work)
            except uipv.NotExpressible as e:
                return {"inexpressible": str(e)}
            r = _encres(_call(InputValidation._validations_from_uijson, ui), work)      # pylint: disable=protected-access
            out.append({"ui": u, "res": r})
        return {"seq": out}
    if k == "ifv":
        from geoh5py.ui_json.input_file import InputFile

        def forms_of(f):
            return enc({n: (v.get("value"), v.get("enabled")) for n, v in f.ui_json.items() if isinstance(v, dict)}, work)

        def defaults(f):
            return {n: (v["value"] if isinstance(v, dict) else v) for n, v in f.ui_json.items()}
        ifile, steps, cur_entries, loaded = None, [], None, False
        try:
            for op in case["ops"]:
                st = {"op": op["op"]}
                if op["op"] == "assign":
                    cur_entries = op["entries"]
                    ui = uipv.build_ui(cur_entries, work)
                    try:
                        if ifile is None:
                            ifile = InputFile(ui_json=ui)
                        else:
                            ifile.ui_json = ui
                    except Exception as e:  # noqa: BLE001
                        st["verdict"] = type(e).__name__
                        st["abort"] = True
                        steps.append(st)
                        break
                    st["verdict"] = None
                    st["ui"] = enc(ifile.ui_json, work)
                    loaded = False
                elif op["op"] == "data":
                    data = defaults(ifile)
                    for n, v in op["changes"]:
                        data[n] = dec(v, work)
                    st["data"] = enc(data, work)
                    before = forms_of(ifile)
                    d2 = {n: (list(v) if isinstance(v, list) else v) for n, v in data.items()}     # the very same data for a new InputFile

                    def assign(f, d):
                        f.data = d
                    st["verdict"] = _verdict(assign, ifile, data)
                    loaded = loaded or st["verdict"] is None
                    st["forms_changed"] = forms_of(ifile) != before
                    fresh = InputFile(ui_json=uipv.build_ui(cur_entries, work))
                    st["fresh"] = _verdict(assign, fresh, d2)
                elif not loaded:
                    st["op"] = "skip"           # no data accepted for the current form yet: set_data_value would work on stale data
                else:
                    st["data"] = enc(ifile.data, work)
                    before = forms_of(ifile)
                    st["verdict"] = _verdict(ifile.set_data_value, op["key"], dec(op["value"], work))
                    st["forms_changed"] = forms_of(ifile) != before
                steps.append(st)
        except uipv.NotExpressible as e:
            return {"inexpressible": str(e), "steps": steps}
        return {"steps": steps}
    if k in ("vdata", "chain"):
        from geoh5py.ui_json.validation import InputValidation
        opts = {"ignore_requirements": bool(case.get("ignore_requirements"))}
        if k == "chain":
            if case.get("ignored"):
                opts["ignore_list"] = (case["name"],)
            iv = InputValidation(validations={case["name"]: dec(case["rules"], work)}, validation_options=opts)
            rules = dec(case["rules"], work)
            return {"verdict": _verdict(iv.validate, case["name"], dec(case["value"], work), rules), "rules_after": enc(rules, work)}

        def mk():
            return InputValidation(validations=dec(case["validations"], work), validation_options=opts)
        try:
            iv = mk()
        except Exception as e:  # noqa: BLE001
            return {"ctor_error": type(e).__name__}
        before = enc(iv.validations, work)
        seq, fresh, tables = [], [], []
        for d in case["datas"]:
            seq.append(_verdict(iv.validate_data, dec(d, work)))
            tables.append(enc(iv.validations, work))
            fresh.append(_verdict(mk().validate_data, dec(d, work)))
        return {"before": before, "seq": seq, "fresh": fresh, "tables": tables}
    raise ValueError(k)


# ============================================================================= Coq case terms
FN_COQ = {f: f for f in FN_UI}
FN_COQ.update({"iterable": "iterable", "OptionalValidator.validate": "OptionalValidator_validate",
               "RequiredValidator.validate": "RequiredValidator_validate", "AtLeastOneValidator.validate": "AtLeastOneValidator_validate",
               "TypeValidator.validate": "TypeValidator_validate", "UUIDValidator.validate": "UUIDValidator_validate",
               "ValueValidator.validate": "ValueValidator_validate"})
DEFAULT_ARGS = {"collect": 3, "find_all": 3}


def cexn(name):
    if name is None:
        return "None"
    e = uipv.EXN_COQ.get(name)
    return None if e is None else f"(Some {e})"


def enf_term(enf):
    out = []
    for e in enf:
        if e[0] == "type":
            out.append("EType [" + "; ".join(coq({"ty": t})[7:-1] for t in e[1]) + "]")
        elif e[0] == "value":
            out.append("EValue [" + "; ".join(coq(v) for v in e[1]) + "]")
        else:
            out.append("EUuid")
    return "[" + "; ".join(out) + "]"


PARAM_ENF = {"StringParameter": [["type", ["str"]]], "IntegerParameter": [["type", ["int"]]], "FloatParameter": [["type", ["float"]]],
             "NumericParameter": [["type", ["int", "float"]]], "BoolParameter": [["type", ["bool"]]],
             "StringListParameter": [["type", ["list", "str"]]]}


def case_term(case, obs):
    k = case["k"]
    try:
        if k == "fn":
            if "inexpressible" in obs:
                return None
            if case["fn"] == "is_uuid":
                if "ok" not in obs:
                    return "false"
                return f"Bool.eqb (py_is_uuid {coq(case['args'][0])}) {C.cbool(obs['ok'])}"
            r = coq_res(obs)
            if r is None:
                return "false"
            args = " ".join(coq(a) for a in case["args"])
            return f"res_same ({FN_COQ[case['fn']]} {args}) {r}"
        if k == "rv":
            parts = []
            for name, r in obs["rv"].items():
                t = coq_res(r)
                parts.append("false" if t is None else f"res_same (requires_value ui {coq(name)}) {t}")
            for name, r in obs["grv"].items():
                t = coq_res(r)
                parts.append("false" if t is None else f"res_same (group_requires_value ui {coq(name)}) {t}")
            for name, r in obs["drv"].items():
                t = coq_res(r)
                parts.append("false" if t is None else f"res_same (dependency_requires_value ui {coq(name)}) {t}")
            return f"(let ui := {coq(obs['ui'])} in " + " && ".join(parts or ["true"]) + ")"
        if k == "pool":
            exp = []
            for v, n in obs["seq"]:
                e = cexn(v)
                if e is None:
                    return "false"
                exp.append(f"({e}, {n}%nat)")
            vals = "[" + "; ".join(coq(v) for v in case["vals"]) + "]"
            return f"pool_obs_eqb (snd (pool_run pool_enforce (fresh_pool {enf_term(case['enf'])}) {vals})) [" + "; ".join(exp) + "]"
        if k == "param":
            enf = PARAM_ENF.get(case["cls"])
            if enf is None:
                enf = [["value" if case["cls"] == "ValueRestricted" else "type", case["restr"]]]
            exp = []
            for v, stored in obs["seq"]:
                e = cexn(v)
                if e is None:
                    return "false"
                exp.append(f"({e}, {coq(stored)})")
            vals = "[" + "; ".join(coq(v) for v in case["vals"]) + "]"
            init = f"{{| pm_pool := fresh_pool {enf_term(enf)}; pm_val := {coq(obs['init'])} |}}"
            return f"param_obs_eqb (snd (param_run param_set {init} {vals})) [" + "; ".join(exp) + "]"
        if k == "form":
            if "inexpressible" in obs or "base_error" in obs:
                return None
            members = []
            for ent in obs["spec"]:
                c = ent["cls"]
                if "restr" in ent:
                    if ent["etype"] == "value":
                        enf = [["value", ent["restr"]]]
                    elif ent["etype"] == "type":
                        enf = [["type", [t["ty"] for t in ent["restr"]]]]
                    else:
                        return None
                elif c == "Parameter":
                    enf = []
                elif c in PARAM_ENF:
                    enf = PARAM_ENF[c]
                else:
                    return None
                members.append(f"({coq(ent['m'])[6:-1]}, {{| pm_pool := fresh_pool {enf_term(enf)}; pm_val := {coq(ent['val'])} |}})")
            f0 = ("{| f_members := [" + "; ".join(members) + f"]; f_extra := {coq(obs['extra0'])[7:-1]}; f_active := ["
                  + "; ".join(uipv.cstring(a) for a in obs["active0"]) + "] |}")

            def items_term(items):
                return "[" + "; ".join(f"({uipv.cstring(k2)}, {coq(v)})" for k2, v in items) + "]"

            def alist(a):
                return "[" + "; ".join(uipv.cstring(x) for x in a) + "]"
            ops = [f"FRegister {items_term(case['kwargs'])}"]
            e = cexn(obs["ctor"])
            if e is None:
                return "false"
            if obs["ctor"] is not None:
                return f"unit_res_eqb (snd (form_register camel_to_snake_table {f0} {items_term(case['kwargs'])})) {e}"
            exp = [f"(None, {coq(obs['ctor_form'])}, {alist(obs['ctor_active'])})"]
            for op, st in zip(case["ops"], obs["steps"]):
                e = cexn(st["verdict"])
                if e is None:
                    return "false"
                if op["op"] == "validate":
                    vd = obs["validations"]
                    if vd["other"]:
                        return None
                    ops.append(f"FValidate {alist(vd['reqm'])} {alist(vd['req'] or [])} {C.cbool(vd['req'] is not None)}")
                elif op["op"] == "set":
                    ops.append(f"FSet {uipv.cstring(op['m'])} {coq(op['v'])}")
                elif op["op"] == "register":
                    ops.append(f"FRegister {items_term(op['items'])}")
                else:
                    ops.append(f"FUpdate {items_term(op['items'])}")
                exp.append(f"({e}, {coq(st['form'])}, {alist(st['active'])})")
            return f"fobs_eqb (form_run camel_to_snake_table {f0} [" + "; ".join(ops) + "]) [" + "; ".join(exp) + "]"
        if k == "infer":
            if "seq" not in obs:
                return None
            exp = []
            for x in obs["seq"]:
                if "inexpressible" in x["res"]:
                    return None
                r = coq_res(x["res"])
                if r is None:
                    return "false"
                exp.append(r)
            return f"res_list_same (infer_seq [" + "; ".join(coq(x["ui"]) for x in obs["seq"]) + "]) [" + "; ".join(exp) + "]"
        if k == "ifv":
            if "inexpressible" in obs or any(st.get("abort") for st in obs["steps"]):
                return None
            ops, exp, ui_cur = [], [], None
            for st, op in zip(obs["steps"], case["ops"]):
                if st["op"] == "skip":
                    continue
                if st["op"] in ("data", "set") and st["verdict"] is not None and st["verdict"] not in VALIDATION_ERRORS:
                    # an exception that is not a validation verdict (e.g. TypeError raised by update_ui_values / set_enabled after an
                    # ill-typed switch value such as [] passed the type rule): outside IfValidate's verdict model, and the object is
                    # left half-updated - the history is compared up to here only (counted: histogram ifv_truncated)
                    break
                e = cexn(st["verdict"])
                if e is None:
                    return "false"
                exp.append(e)
                if st["op"] == "assign":
                    ui_cur = coq(st["ui"])
                    ops.append(f"OpAssign {ui_cur}")
                elif st["op"] == "data":
                    ops.append(f"OpData {ui_cur} {coq(st['data'])}")
                else:
                    ops.append(f"OpSet {coq(st['data'])} {coq(op['key'])} {coq(op['value'])}")
            if len(ops) < 2:
                return None
            return f"verdicts_eqb (ifv_run 8 W0 ifv_start [" + "; ".join(ops) + "]) [" + "; ".join(exp) + "]"
        opts = f"{{| ignore_requirements := {C.cbool(bool(case.get('ignore_requirements')))}; ignore_list := [" + \
               (coq(case["name"]) if case.get("ignored") else "") + "] |}"
        if k == "chain":
            e = cexn(obs["verdict"])
            if e is None:
                return "false"
            return f"verdict_eqb (iv_validate W0 {opts} {coq(case['name'])} {coq(case['value'])} {coq(case['rules'])}) {e}"
        if k == "vdata":
            if "ctor_error" in obs:
                return None
            exp = []
            for v in obs["seq"]:
                e = cexn(v)
                if e is None:
                    return "false"
                exp.append(e)
            datas = "[" + "; ".join(coq(d) for d in case["datas"]) + "]"
            return f"verdicts_eqb (iv_run (iv_validate_data W0 {opts}) {coq(obs['before'])} {datas}) [" + "; ".join(exp) + "]"
    except uipv.NotExpressible:
        return None
    return None


# ============================================================================= oracle (property text, independent of the model)
def _truthy(j):
    if j is None or j is False:
        return False
    if j is True:
        return True
    if isinstance(j, int):
        return j != 0
    if isinstance(j, str):
        return j != ""
    if isinstance(j, dict):
        if "f" in j:
            return j["f"] != [0, 0]
        for t in ("l", "t", "d"):
            if t in j:
                return len(j[t]) > 0
    return True


def _is_form(j):
    return is_jdict(j) and jhas(j, "label") and jhas(j, "value")


def wf_ui(ui):
    """the domain on which the docstring of requires_value defines an answer (twin of UiRules.wf_ui)"""
    if not is_jdict(ui):
        return False
    for name, f in ui["d"]:
        if not isinstance(name, str):
            return False
        if not _is_form(f):
            continue
        for key in ("optional", "enabled", "groupOptional"):
            if jhas(f, key) and not isinstance(jget(f, key), bool):
                return False
        if jhas(f, "group") and not isinstance(jget(f, "group"), str):
            return False
        if jhas(f, "dependency"):
            dep = jget(f, "dependency")
            if not isinstance(dep, str) or not jhas(ui, dep) or not is_jdict(jget(ui, dep)):
                return False
            d = jget(ui, dep)
            if jhas(d, "optional") and not isinstance(jget(d, "optional"), bool):
                return False
            key = "enabled" if jget(d, "optional", False) else "value"
            if jhas(d, key) and not isinstance(jget(d, key), bool):
                return False
    return True


def spec_requires(ui, p):
    """requires_value as its docstring states it: groupOptional switch > dependency switch > optional switch"""
    f = jget(ui, p)
    if not _is_form(f):
        return True
    if jhas(f, "group"):
        g = jget(f, "group")
        members = [m for _, m in ui["d"] if _is_form(m) and jhas(m, "group") and jget(m, "group") == g]
        switches = [m for m in members if jhas(m, "groupOptional")]
        if switches and jget(switches[0], "groupOptional") and not jget(switches[0], "enabled", True):
            return False
    if jhas(f, "dependency"):
        d = jget(ui, jget(f, "dependency"))
        switch = jget(d, "enabled", True) if jget(d, "optional", False) else jget(d, "value", True)
        on = switch if jget(f, "dependencyType", "enabled") == "enabled" else not switch
        if not on:
            return False
        return jget(f, "enabled", True) if jhas(f, "optional") else True
    if jhas(f, "optional"):
        return jget(f, "enabled", True)
    return True


def _isinst(v, t):
    if t == "NoneType":
        return v is None
    if t == "bool":
        return isinstance(v, bool)
    if t == "int":
        return isinstance(v, int)
    if t == "float":
        return isinstance(v, dict) and "f" in v
    if t == "str":
        return isinstance(v, str)
    if t == "UUID":
        return isinstance(v, dict) and "u" in v
    if t == "Entity":
        return isinstance(v, dict) and "e" in v and v.get("k", "ent") == "ent"
    if t == "PropertyGroup":
        return isinstance(v, dict) and "e" in v and v.get("k", "").startswith("pg:")
    if t == "Workspace":
        return isinstance(v, dict) and "w" in v
    if t in ("list", "tuple", "dict"):
        return isinstance(v, dict) and {"list": "l", "tuple": "t", "dict": "d"}[t] in v
    return False


def _jeq(a, b):
    """Python == on tagged values (numbers across bool/int/float)"""
    def num(x):
        if isinstance(x, bool):
            return int(x), 0
        if isinstance(x, int):
            return x, 0
        if isinstance(x, dict) and "f" in x and isinstance(x["f"], list):
            return x["f"][0], x["f"][1]
        return None
    na, nb = num(a), num(b)
    if na is not None and nb is not None:
        return na[0] * (1 << nb[1]) == nb[0] * (1 << na[1])
    if na is not None or nb is not None:
        return False
    return a == b


def chain_accepts(case):
    """accept_iff written from the property text; returns True/False, or None when the rules themselves are malformed"""
    rules, v = case["rules"], case["value"]
    if case.get("ignored"):
        return True
    r = {k: val for k, val in rules["d"]}
    none_ok = True
    if "required" in r and not case.get("ignore_requirements") and r["required"]:
        none_ok = False
    if "optional" in r and not _truthy(r["optional"]):
        none_ok = False
    if v is None and not none_ok:
        return False
    ts = None
    if "types" in r:
        ts = [t["ty"] for t in r["types"]["l"]]
        is_seq = isinstance(v, dict) and ("l" in v or "t" in v)
        elems = [v] if (not is_seq or ("l" in v and "list" in ts)) else (v.get("l") if "l" in v else v.get("t"))
        if not all(any(_isinst(x, t) for t in ts) for x in elems):
            return False
    if "uuid" in r and isinstance(v, str):
        try:
            import uuid
            uuid.UUID(v)
        except ValueError:
            return False
    if "association" in r:
        a = r["association"]
        if a is not None and not (isinstance(a, dict) and "l" in a):
            if not (isinstance(a, dict) and (("e" in a and a.get("k", "ent") == "ent") or "w" in a)):
                return None      # the rule does not name an entity or workspace: malformed rule table
            uid = v["u"] if isinstance(v, dict) and "u" in v else v["e"] if isinstance(v, dict) and "e" in v else None
            if uid is not None:
                inside = uid in uipv.WORLD["ents"] if "w" in a else uid in uipv.WORLD["desc"].get(a["e"], [])
                if not inside:
                    return False
    if "property_group_type" in r and v is not None:
        if not (isinstance(v, dict) and "e" in v and v.get("k", "").startswith("pg:")):
            return None          # the rule is only meaningful for property groups
        if v["k"][3:] != r["property_group_type"]:
            return False
    if "values" in r and v is not None:
        valid = r["values"]
        if not (isinstance(valid, dict) and ("l" in valid or "t" in valid)):
            return None
        allowed = valid.get("l") if "l" in valid else valid.get("t")
        elems = (v.get("l") if "l" in v else v.get("t")) if isinstance(v, dict) and ("l" in v or "t" in v) else [v]
        for x in elems:
            if isinstance(x, dict) and ("l" in x or "d" in x):
                return None
            if x is not None and not any(_jeq(x, y) for y in allowed):
                return False
    if "shape" in r and v is not None:
        n = len(v["l"]) if isinstance(v, dict) and "l" in v else 1
        if [n] != r["shape"]["t"]:
            return False
    return True


VALIDATION_ERRORS = {n for n, c in uipv.EXN_COQ.items() if "Validation" in c}


def oracle(case, obs):  # noqa: C901
    if "crash" in obs:
        return [{"key": "driver-crash", "what": obs["crash"][:300]}]
    k = case["k"]
    fails = []
    if k == "fn" and case["fn"] in ("requires_value",):
        ui, p = case["args"]
        if wf_ui(ui) and jhas(ui, p):
            exp = spec_requires(ui, p)
            if "ok" not in obs:
                key = "requires-value-keyerror-optional-without-enabled" if obs.get("error") == "KeyError" else "requires-value-raised"
                fails.append({"key": key, "what": f"requires_value raised {obs.get('error')} on a well-formed ui.json (expected {exp})"})
            elif _truthy(obs["ok"]) != bool(exp):
                fails.append({"key": "requires-value-wrong", "what": f"requires_value gave {obs['ok']}, the switch hierarchy gives {exp}"})
        if obs.get("args_after") is not None and obs["args_after"] != case["args"]:
            fails.append({"key": "requires-value-mutates", "what": "requires_value changed its arguments"})
    if k == "rv":
        ui = obs["ui"]
        if obs.get("ui_after") != ui:
            fails.append({"key": "requires-value-mutates", "what": "requires_value changed the ui.json"})
        if wf_ui(ui):
            for name, r in obs["rv"].items():
                exp = spec_requires(ui, name)
                if "ok" not in r:
                    key = "requires-value-keyerror-optional-without-enabled" if r.get("error") == "KeyError" else "requires-value-raised"
                    fails.append({"key": key, "what": f"requires_value({name}) raised {r.get('error')} on a well-formed ui.json"})
                    break
                if _truthy(r["ok"]) != bool(exp):
                    fails.append({"key": "requires-value-wrong", "what": f"requires_value({name}) gave {r['ok']}, the switch hierarchy gives {exp}"})
                    break
    if k in ("pool", "param"):
        seq_verdicts = [s[0] for s in obs["seq"]]
        if seq_verdicts != obs["fresh"]:
            i = next(i for i, (a, b) in enumerate(zip(seq_verdicts, obs["fresh"])) if a != b)
            fails.append({"key": f"{k}-verdict-depends-on-history",
                          "what": f"call {i} with {case['vals'][i]!r}: {seq_verdicts[i]} on the used object, {obs['fresh'][i]} on a fresh one"})
    if k == "pool":
        # accept iff every enforcer's rule holds (None passes the type rule)
        for v, got in zip(case["vals"], obs["fresh"]):
            bad = []
            unhash = isinstance(v, dict) and ("l" in v or "d" in v)
            for e in case["enf"]:
                if e[0] == "type" and not (v is None or any(_isinst(v, t) for t in e[1])):
                    bad.append("type")
                if e[0] == "value":
                    if unhash:
                        bad.append("unhashable")
                    elif not any(_jeq(v, y) for y in e[1]):
                        bad.append("value")
                if e[0] == "uuid" and v is not None:
                    try:
                        import uuid
                        uuid.UUID(str(dec_plain(v)))
                    except ValueError:
                        bad.append("uuid")
            accepted = got is None
            if accepted != (not bad):
                fails.append({"key": "pool-accept-iff", "what": f"value {v!r}: verdict {got}, violated rules {bad}"})
                break
    if k == "param":
        prev = obs["init"]
        for (verdict, stored), v in zip(obs["seq"], case["vals"]):
            if verdict is not None and stored != prev:
                fails.append({"key": "param-rejected-value-stored", "what": f"{v!r} was rejected ({verdict}) but the parameter now holds {stored!r}"})
                break
            if verdict is None and stored != v:
                fails.append({"key": "param-accepted-value-not-stored", "what": f"{v!r} was accepted but the parameter holds {stored!r}"})
                break
            prev = stored
    if k == "vdata" and "seq" in obs:
        if obs["seq"] != obs["fresh"]:
            i = next(i for i, (a, b) in enumerate(zip(obs["seq"], obs["fresh"])) if a != b)
            fails.append({"key": "validate-data-verdict-depends-on-history",
                          "what": f"call {i}: {obs['seq'][i]} on the used InputValidation, {obs['fresh'][i]} on a fresh one"})
        if any(t != obs["before"] for t in obs["tables"]):
            fails.append({"key": "validate-data-changes-rule-table", "what": "InputValidation.validations differs after validate_data"})
    if k == "form" and "steps" in obs:
        prev_form, prev_active = obs["ctor_form"], obs["ctor_active"]
        for i, (op, st) in enumerate(zip(case["ops"], obs["steps"])):
            changed = st["form"] != prev_form or st["active"] != prev_active
            if op["op"] == "validate":
                if not str(st.get("fresh", "")).startswith("rebuild:") and st["verdict"] != st.get("fresh"):
                    fails.append({"key": "form-validate-depends-on-construction-history",
                                  "what": f"op {i}: validate() -> {st['verdict']}, an object constructed from the same form() {st['form']!r} -> {st['fresh']}"})
                    break
                continue
            if op["op"] == "set" and st["verdict"] != st.get("fresh"):
                fails.append({"key": "form-verdict-depends-on-history",
                              "what": f"op {i}: {op['m']} = {op['v']!r} -> {st['verdict']} on the used form, {st['fresh']} on a fresh one"})
                break
            if st["verdict"] in VALIDATION_ERRORS and changed:
                single = op["op"] == "set" or (op["op"] == "register" and len(op["items"]) == 1)
                fails.append({"key": "form-rejected-member-changed-form" if single else "form-bulk-update-partially-applied",
                              "what": f"op {i} ({op['op']} {op.get('m', op.get('items'))!r}) was rejected with {st['verdict']} but form()/active "
                                      f"went from {prev_form!r} {prev_active} to {st['form']!r} {st['active']}"})
                break
            if op["op"] == "update" and st["verdict"] is None and not any(k2 == "value" for k2, _ in op["items"]) \
                    and jget(st["form"], "value") != jget(prev_form, "value"):
                fails.append({"key": "uijson-update-without-value-overwrites-value",
                              "what": f"op {i}: UIJson.update with members only replaced the value {jget(prev_form, 'value')!r} by {jget(st['form'], 'value')!r}"})
                break
            prev_form, prev_active = st["form"], st["active"]
    if k == "infer" and "seq" in obs:
        first, last = obs["seq"][0], obs["seq"][-1]
        if first["ui"] == last["ui"] and first["res"] != last["res"]:
            fails.append({"key": "inferred-rules-depend-on-history",
                          "what": f"the same form gives {first['res']} first and {last['res']} after other forms were processed"})
    if k == "ifv":
        seen, reused = {}, False
        for op in case["ops"]:
            if op["op"] == "assign":
                for e in op["entries"]:
                    if "tmpl" in e:
                        if e["name"] in seen and seen[e["name"]] != (e["tmpl"], str(e["kw"]), str(e["extra"])):
                            reused = True
                        seen[e["name"]] = (e["tmpl"], str(e["kw"]), str(e["extra"]))
        for i, st in enumerate(obs.get("steps", [])):
            if st["op"] == "data" and st["verdict"] != st.get("fresh"):
                fails.append({"key": "inputfile-stale-rules-same-parameter-name" if reused else "inputfile-verdict-depends-on-history",
                              "what": f"op {i}: data assignment -> {st['verdict']} on the re-used InputFile, {st['fresh']} on a new one"})
                break
            if st["op"] in ("data", "set") and st["verdict"] in VALIDATION_ERRORS and st.get("forms_changed"):
                fails.append({"key": "rejected-data-reached-form", "what": f"op {i} was rejected ({st['verdict']}) but the form changed"})
                break
    if k == "chain":
        exp = chain_accepts(case)
        got = obs["verdict"]
        if exp is not None:
            if exp and got is not None:
                fails.append({"key": "chain-rejects-valid", "what": f"value {case['value']!r} satisfies {case['rules']!r} but was rejected with {got}"})
            if not exp and got is None:
                fails.append({"key": "chain-accepts-invalid", "what": f"value {case['value']!r} violates {case['rules']!r} but was accepted"})
        if obs.get("rules_after") != case["rules"]:
            fails.append({"key": "chain-mutates-rules", "what": "validate changed the rule dict"})
    return fails


def dec_plain(j):
    """tagged value -> plain Python value for str(): only scalars and uuids matter"""
    if isinstance(j, dict) and "u" in j:
        import uuid
        return uuid.UUID(int=j["u"])
    if isinstance(j, dict) and "f" in j:
        f = j["f"]
        return float(f) if isinstance(f, str) and f != "npnan" else (float("nan") if f == "npnan" else f[0] / (1 << f[1]))
    if isinstance(j, dict):
        return object()
    return j


def nontrivial(case, obs):
    k = case["k"]
    if k in ("pool", "param"):
        v = [s[0] for s in obs.get("seq", [])]
        return any(a is not None and b is None for a, b in zip(v, v[1:]))
    if k == "vdata":
        v = obs.get("seq", [])
        return any(a is not None for a in v) and len(v) > 1
    if k == "fn":
        if case["fn"].endswith("requires_value"):
            ui, p = case["args"]
            f = jget(ui, p)
            return _is_form(f) and any(jhas(f, s) for s in ("group", "dependency", "optional"))
        return True
    if k == "rv":
        return any(_is_form(f) and any(jhas(f, s) for s in ("group", "dependency")) for _, f in obs.get("ui", {"d": []})["d"])
    if k == "form":
        v = [st["verdict"] for st in obs.get("steps", [])]
        return any(x in VALIDATION_ERRORS for x in v) and any(x is None for x in v)
    if k == "infer":
        return len(obs.get("seq", [])) >= 3
    if k == "ifv":
        st = obs.get("steps", [])
        return sum(1 for x in st if x["op"] == "assign") >= 2 or any(x.get("verdict") in VALIDATION_ERRORS for x in st)
    return k == "chain" and len(case["rules"]["d"]) >= 2


def histogram(cases, obs):
    h = {"kind": {}, "fn": {}, "templates": {}, "rv_outcome": {}, "switch_members": {}, "history_len": {}, "verdicts": {}, "wf_ui": {"wf": 0, "ill": 0},
         "chain_rules": {}}
    for c, o in zip(cases, obs):
        k = c["k"]
        h["kind"][k] = h["kind"].get(k, 0) + 1
        if k == "fn":
            h["fn"][c["fn"]] = h["fn"].get(c["fn"], 0) + 1
            if c["fn"] == "requires_value":
                h["wf_ui"]["wf" if wf_ui(c["args"][0]) else "ill"] += 1
                r = "ok" if "ok" in o else o.get("error", "?")
                h["rv_outcome"][r] = h["rv_outcome"].get(r, 0) + 1
        if k == "rv":
            for e in c["entries"]:
                if "tmpl" in e:
                    h["templates"][e["tmpl"]] = h["templates"].get(e["tmpl"], 0) + 1
                    for kk, _ in e["extra"]:
                        h["switch_members"][kk] = h["switch_members"].get(kk, 0) + 1
            if "ui" in o:
                h["wf_ui"]["wf" if wf_ui(o["ui"]) else "ill"] += 1
            for r in o.get("rv", {}).values():
                t = "ok" if "ok" in r else r.get("error", "?")
                h["rv_outcome"][t] = h["rv_outcome"].get(t, 0) + 1
        if k in ("pool", "param", "vdata"):
            n = str(len(c.get("vals", c.get("datas", []))))
            h["history_len"][n] = h["history_len"].get(n, 0) + 1
            for s in o.get("seq", []):
                v = s[0] if isinstance(s, list) else s
                h["verdicts"][str(v)] = h["verdicts"].get(str(v), 0) + 1
        if k == "form":
            for op, st in zip(c["ops"], o.get("steps", [])):
                key = f"form:{op['op']}:{st.get('verdict')}"
                h["verdicts"][key] = h["verdicts"].get(key, 0) + 1
        if k == "ifv":
            if any(st["op"] in ("data", "set") and st.get("verdict") is not None and st.get("verdict") not in VALIDATION_ERRORS
                   for st in o.get("steps", [])):
                h["verdicts"]["ifv_truncated"] = h["verdicts"].get("ifv_truncated", 0) + 1
            for st in o.get("steps", []):
                if st["op"] == "skip":
                    continue
                key = f"ifv:{st['op']}:{st.get('verdict')}"
                h["verdicts"][key] = h["verdicts"].get(key, 0) + 1
        if k == "chain":
            for kk, _ in c["rules"]["d"]:
                h["chain_rules"][kk] = h["chain_rules"].get(kk, 0) + 1
            h["verdicts"][str(o.get("verdict"))] = h["verdicts"].get(str(o.get("verdict")), 0) + 1
    return h
