"""Typed histories for the workspace/file model Model/WsT.v (entity TYPES: C01 / C02 / C09 type clauses).

generator -> driver on the real geoh5py (after every op: the live tree with each entity's live type, the liveness of
every `ws._types` entry, the Types container, and per stored live entity whether `node["Type"]` IS the object stored under
Types/<class>/<id> -- HDF5 object identity by address) -> Coq case term `check_history ops obs` (Model/WsTCheck.v), decided
by vm_compute.  Deterministic from vlib.common.SplitMix.  Independent oracles written from the property texts at the end.
"""
from __future__ import annotations

from vlib.common import cN, cbool, clist

# the case terms are fully qualified (WsT.Create, WsTCheck.check_history ...) so that they can sit in case files that
# import the X model, whose constructors have the same names
CASE_IMPORTS_T = "From GV Require Model.WsT Model.WsTCheck."
KINDS = {"G": "WsT.TG", "O": "WsT.TO", "D": "WsT.TD"}
OUTC = {"done": "WsT.Done", "refused": "WsT.Refused", "raised": "WsT.Raised"}
# model identifiers of the class types / their names (Model/WsT.v: root_tid = 1, name token 1)
CLS = {"root": ("G", 1, 0, 1), "group": ("G", 2, 0, 2), "points": ("O", 3, 0, 3), "curve": ("O", 4, 0, 4)}
CLASS_NAMES = {"NoType": 1, "Container Group": 2, "Points": 3, "Curve": 4}
PRIMS = {None: 0, "FLOAT": 1, "INTEGER": 2}
PRIM_ATTR = {"Float": 1, "Integer": 2}
CAN_HOLD = {("G", "G"), ("G", "O"), ("O", "D")}


# ----------------------------------------------------------------------------------------------------------- generator
def gen_history_t(rng, length):
    """Entity identifiers are never re-used (that defect is the X stream's); data type identifiers come from a small pool
    so that they are shared while live, come back after a sweep (fresh again) and come back over a stale node."""
    ops = []
    live = {0: ("G", None)}          # eid -> (kind, parent)
    nid = [0]
    tok = [20]

    def new_id():
        nid[0] += 1
        return nid[0]

    def newtok():
        tok[0] += 1
        return tok[0]

    def subtree(e):
        out, grew = {e}, True
        while grew:
            grew = False
            for x, (_, p) in live.items():
                if p in out and x not in out:
                    out.add(x)
                    grew = True
        return out

    def of_kind(k):
        return [e for e, (kk, _) in live.items() if kk == k]

    def create(cls=None, parent=None, tid=None, prim=None):
        cls = cls or rng.weighted([("group", 2), ("points", 3), ("curve", 2), ("data", 7)])
        if cls == "data":
            cands = of_kind("O")
            if not cands:
                cls = "points"
        if cls in ("points", "curve", "group"):
            cands = of_kind("G")
        p = parent if parent is not None else rng.choice(cands)
        e = new_id()
        if cls == "data":
            op = {"op": "create", "e": e, "k": "D", "cls": "data", "p": p,
                  "tid": tid if tid is not None else rng.range(10, 12), "prim": prim or rng.range(1, 2), "name": newtok()}
        else:
            k, t, pr, nm = CLS[cls]
            op = {"op": "create", "e": e, "k": k, "cls": cls, "p": p, "tid": t, "prim": pr, "name": nm}
        live[e] = (op["k"], p)
        ops.append(op)
        return e

    def remove(e, how):
        for x in subtree(e):
            live.pop(x, None)
        ops.append({"op": how, "e": e})

    g = create("group", 0)
    o = create("points", g)
    create("data", o)
    while len(ops) < length:
        w = rng.weighted([("create", 30), ("churn", 12), ("rm_ws", 12), ("rm_parent", 12), ("types", 8), ("tname", 12),
                          ("reopen", 8), ("bad", 3)])
        nonroot = [e for e in live if e != 0]
        if w == "create":
            create()
        elif w == "churn" and of_kind("O"):
            # the last user of a data type goes away, then the identifier comes back with another primitive type / name
            tid = rng.range(13, 14)
            users = [e for e in of_kind("D") if e in live]
            ob = rng.choice(of_kind("O"))
            d = create("data", ob, tid=tid, prim=rng.range(1, 2))
            remove(d if rng.chance(70) else ob, rng.choice(["rm_ws", "rm_parent", "rm_parent"]))
            if rng.chance(35):
                ops.append({"op": "types"})
            if not of_kind("O"):
                create("points", rng.choice(of_kind("G")))
            create("data", rng.choice(of_kind("O")), tid=tid, prim=rng.range(1, 2))
            del users
        elif w == "rm_ws" and nonroot:
            remove(rng.choice(nonroot), "rm_ws")
        elif w == "rm_parent" and nonroot:
            remove(rng.choice(nonroot), "rm_parent")
        elif w == "types":
            ops.append({"op": "types"})
        elif w == "tname" and of_kind("D"):
            ops.append({"op": "tname", "e": rng.choice(of_kind("D")), "name": newtok()})
        elif w == "reopen":
            ops.append({"op": "reopen"})
        elif w == "bad":
            # operands that are not live, or a parent that cannot hold the kind: refused on both sides
            if rng.chance(50):
                ops.append({"op": rng.choice(["rm_ws", "rm_parent", "tname"]), "e": nid[0] + 50, "name": newtok()})
            elif of_kind("G"):
                ops.append({"op": "create", "e": new_id(), "k": "D", "cls": "data", "p": rng.choice(of_kind("G")),
                            "tid": 10, "prim": 1, "name": newtok()})
    ops.append({"op": "reopen"})
    return ops


def cop_t(op):
    o = op["op"]
    if o == "create":
        return "WsT.Create %s %s %s %s %s %s" % (cN(op["e"]), KINDS[op["k"]], cN(op["p"]), cN(op["tid"]), cN(op["prim"]), cN(op["name"]))
    if o == "rm_ws":
        return f"WsT.RemoveWs {cN(op['e'])}"
    if o == "rm_parent":
        return f"WsT.RemoveParent {cN(op['e'])}"
    if o == "types":
        return "WsT.ListTypes"
    if o == "tname":
        return f"WsT.SetTypeName {cN(op['e'])} {cN(op['name'])}"
    if o == "reopen":
        return "WsT.Reopen"
    raise ValueError(o)


# -------------------------------------------------------------------------------------------------------------- driver
class ImplT:
    """Runs a typed history on the real geoh5py.  No strong reference to an entity or a type survives an operation."""

    def __init__(self, path):
        from geoh5py import Workspace

        self.path = path
        self.ws = Workspace.create(path)
        self.uid_of = {0: self.ws.root.uid}          # model entity id -> uuid
        self.eid_of = {self.ws.root.uid: 0}
        self._class_tids()

    def _class_tids(self):
        from geoh5py.groups import ContainerGroup
        from geoh5py.objects import Curve, Points

        self.tid_of = {self.ws.root.entity_type.uid: 1, ContainerGroup.default_type_uid(): 2,
                       Points.default_type_uid(): 3, Curve.default_type_uid(): 4}

    # -- naming
    @staticmethod
    def type_uuid(tid):
        import uuid

        return uuid.UUID(int=0xABC000 + tid)

    def tid(self, u):
        import uuid

        if not isinstance(u, uuid.UUID):
            u = uuid.UUID(str(u))
        if u in self.tid_of:
            return self.tid_of[u]
        n = u.int - 0xABC000
        return n if 10 <= n < 1000 else -1

    @staticmethod
    def name_tok(s):
        if isinstance(s, bytes):
            s = s.decode()
        if s in CLASS_NAMES:
            return CLASS_NAMES[s]
        if isinstance(s, str) and s.startswith("n") and s[1:].isdigit():
            return int(s[1:])
        return -1

    @staticmethod
    def kind_of(ent):
        from geoh5py.data import Data
        from geoh5py.groups import Group
        from geoh5py.objects import ObjectBase

        return "D" if isinstance(ent, Data) else "O" if isinstance(ent, ObjectBase) else "G" if isinstance(ent, Group) else "?"

    def in_tree(self):
        """uuid -> entity for everything reachable from the root (temporary references only)"""
        out, stack = {}, [self.ws.root]
        while stack:
            e = stack.pop()
            out[e.uid] = e
            stack.extend(getattr(e, "children", []) or [])
        return out

    def get(self, eid):
        u = self.uid_of.get(eid)
        return None if u is None else self.in_tree().get(u)

    # -- operations
    def apply(self, op):
        import gc

        try:
            return self._apply(op)
        finally:
            gc.collect()

    def _apply(self, op):
        import gc

        import numpy as np
        from geoh5py import Workspace
        from geoh5py.groups import ContainerGroup
        from geoh5py.objects import Curve, Points

        ws, o = self.ws, op["op"]
        if o == "create":
            par = self.get(op["p"])
            if par is None or self.get(op["e"]) is not None or op["e"] in self.uid_of:
                return "refused"
            if (self.kind_of(par), op["k"]) not in CAN_HOLD:
                return "refused"
            if op["cls"] == "data":
                tu = self.type_uuid(op["tid"])
                ref = ws._types.get(tu)          # peek: no clean-up side effect
                live = ref() if ref is not None else None
                if live is not None and self.kind_of_type(live) != "D":
                    del live
                    return "skip"
                prim = live.primitive_type.name if live is not None else {1: "FLOAT", 2: "INTEGER"}[op["prim"]]
                del live, ref
                vals = np.arange(par.n_vertices).astype(float if prim == "FLOAT" else "int32")
                d = par.add_data({f"d{op['e']}": {"values": vals, "entity_type": {
                    "uid": tu, "primitive_type": {1: "FLOAT", 2: "INTEGER"}[op["prim"]], "name": f"n{op['name']}"}}})
                u = d.uid
                del d
            elif op["cls"] == "group":
                u = ContainerGroup.create(ws, parent=par, name=f"e{op['e']}").uid
            else:
                cls = Points if op["cls"] == "points" else Curve
                u = cls.create(ws, parent=par, vertices=np.zeros((3, 3)), name=f"e{op['e']}").uid
            del par
            self.uid_of[op["e"]] = u
            self.eid_of[u] = op["e"]
            return "done"
        if o == "rm_ws":
            if op["e"] == 0 or self.get(op["e"]) is None:
                return "refused"
            ws.remove_entity(ws.get_entity(self.uid_of[op["e"]])[0])   # no outside reference: the final sweep sees its types dead
            return "done"
        if o == "rm_parent":
            e = self.get(op["e"])
            if op["e"] == 0 or e is None:
                return "refused"
            e.parent.remove_children([e])
            del e
            return "done"
        if o == "types":
            _ = ws.types
            del _
            return "done"
        if o == "tname":
            e = self.get(op["e"])
            if e is None:
                return "refused"
            e.entity_type.name = f"n{op['name']}"
            del e
            return "done"
        if o == "reopen":
            ws.close()
            self.ws = None
            del ws
            gc.collect()
            self.ws = Workspace(self.path)
            return "done"
        raise ValueError(o)

    @staticmethod
    def kind_of_type(t):
        from geoh5py.data import DataType
        from geoh5py.groups import GroupType
        from geoh5py.objects import ObjectType

        return "D" if isinstance(t, DataType) else "O" if isinstance(t, ObjectType) else "G" if isinstance(t, GroupType) else "?"

    # -- observation
    def dump(self):
        import gc

        import h5py

        gc.collect()
        ws = self.ws
        f = ws.geoh5
        base = list(f)[0]
        sub_of = {"G": "Group types", "O": "Object types", "D": "Data types"}
        cont_of = {"G": "Groups", "O": "Objects", "D": "Data"}

        def addr(x):
            return h5py.h5o.get_info(x.id).addr

        def ustr(u):
            return "{%s}" % u

        mem, links = [], []
        tree = self.in_tree()
        for u, e in sorted(tree.items(), key=lambda kv: self.eid_of.get(kv[0], -1)):
            k = self.kind_of(e)
            t = e.entity_type
            prim = PRIMS.get(getattr(getattr(t, "primitive_type", None), "name", None), -1)
            par = e.parent
            mem.append({"e": self.eid_of.get(u, -1), "p": 0 if u == ws.root.uid else self.eid_of.get(par.uid, -1), "k": k,
                        "tid": self.tid(t.uid), "prim": prim, "name": self.name_tok(t.name)})
            node = f[base][cont_of[k]].get(ustr(u)) if cont_of[k] in f[base] else None
            if node is None or "Type" not in node:
                links.append({"e": self.eid_of.get(u, -1), "ok": False, "via": None})
            else:
                tn = node["Type"]
                types = f[base]["Types"]
                sub = types[sub_of[k]] if sub_of[k] in types else {}
                want = sub.get(ustr(t.uid)) if hasattr(sub, "get") else None
                # is the linked object stored somewhere under Types?  (the model reads attributes of nodes in Types only)
                stored = any(addr(types[s][x]) == addr(tn) for s in types for x in types[s])
                via = None
                if stored:
                    via = [self.tid(tn.attrs["ID"]), PRIM_ATTR.get(tn.attrs.get("Primitive type"), 0), self.name_tok(tn.attrs.get("Name"))]
                links.append({"e": self.eid_of.get(u, -1), "ok": bool(want is not None and addr(want) == addr(tn)), "via": via})
            del e, t, par
        del tree
        reg = [{"tid": self.tid(k), "alive": v() is not None} for k, v in ws._types.items()]
        types_rows = []
        if "Types" in f[base]:
            for s in f[base]["Types"]:
                kk = {v: k for k, v in sub_of.items()}[s]
                for x in f[base]["Types"][s]:
                    n = f[base]["Types"][s][x]
                    types_rows.append({"k": kk, "tid": self.tid(x.strip("{}")), "prim": PRIM_ATTR.get(n.attrs.get("Primitive type"), 0),
                                       "name": self.name_tok(n.attrs.get("Name"))})
        gc.collect()
        return {"mem": mem, "reg": reg, "types": types_rows, "links": links}


def run_history_t(ops, work, tag="ht"):
    import os

    path = f"{work}/{tag}.geoh5"
    if os.path.exists(path):
        os.remove(path)
    im = ImplT(path)
    steps = []
    for op in ops:
        try:
            outc = im.apply(op)
        except Exception as e:  # noqa: BLE001
            outc = f"error:{type(e).__name__}:{str(e)[:120]}"
        st = im.dump()
        st["outcome"] = outc
        steps.append(st)
    im.ws.close()
    os.remove(path)
    return {"steps": steps}


# ----------------------------------------------------------------------------------------------------------- Coq terms
def _ok(*xs):
    return all(isinstance(x, int) and x >= 0 for x in xs)


def history_case_term_t(ops, steps):
    """`check_history ops obs`; a history is cut at the first step the model cannot express (driver 'skip' / error)."""
    n = len(ops)
    for i, st in enumerate(steps):
        if st["outcome"] not in OUTC:
            n = i
            break
    ops, steps = ops[:n], steps[:n]
    rows = []
    for st in steps:
        m = []
        for r in st["mem"]:
            if not _ok(r["e"], r["p"], r["tid"], r["prim"], r["name"]):
                return "false"
            m.append("(%s, %s, %s, %s, %s, %s)" % (cN(r["e"]), cN(r["p"]), KINDS[r["k"]], cN(r["tid"]), cN(r["prim"]), cN(r["name"])))
        g = []
        for r in st["reg"]:
            if not _ok(r["tid"]):
                return "false"
            g.append("(%s, %s)" % (cN(r["tid"]), cbool(r["alive"])))
        t = []
        for r in st["types"]:
            if not _ok(r["tid"], r["prim"], r["name"]):
                return "false"
            t.append("(%s, %s, %s, %s)" % (KINDS[r["k"]], cN(r["tid"]), cN(r["prim"]), cN(r["name"])))
        li = []
        for r in st["links"]:
            if not _ok(r["e"]) or (r["via"] is not None and not _ok(*r["via"])):
                return "false"
            via = "None" if r["via"] is None else "Some (%s, %s, %s)" % tuple(cN(x) for x in r["via"])
            li.append("(%s, %s, %s)" % (cN(r["e"]), cbool(r["ok"]), via))
        rows.append("(%s, %s, %s, %s, %s)" % (OUTC[st["outcome"]], clist(m), clist(g), clist(t), clist(li)))
    return "WsTCheck.check_history %s %s" % (clist(cop_t(o) for o in ops), clist(rows))


def model_term_t(ops):
    return "WsTCheck.trace WsT.init %s" % clist(cop_t(o) for o in ops)


# ------------------------------------------------------------------------------------------------------------- oracles
def _types_map(st):
    return {(r["k"], r["tid"]): (r["prim"], r["name"]) for r in st["types"]}


def _tainted_tids(ops, steps):
    """per step: the type identifiers whose node on file may differ from the live type object: a type was created under a
    caller-supplied identifier whose node was on file while no live registry entry held it (stale node kept untouched);
    the taint ends when the nodes of that identifier are swept or the node is rewritten by a type-attribute assignment"""
    out, cur = [], set()
    for i, op in enumerate(ops[: len(steps)]):
        st = steps[i]
        if op["op"] == "create" and i > 0 and st["outcome"] == "done":
            prev = steps[i - 1]
            on_file = any(r["tid"] == op["tid"] for r in prev["types"])
            live = any(r["tid"] == op["tid"] and r["alive"] for r in prev["reg"])
            if on_file and not live:
                cur.add(op["tid"])
        if op["op"] == "tname" and i > 0 and st["outcome"] == "done":
            cur -= {r["tid"] for r in steps[i - 1]["mem"] if r["e"] == op["e"]}
        cur &= {r["tid"] for r in st["types"]}
        out.append(set(cur))
    return out


def oracle_c02_t(ops, steps):
    """C02 text (type clauses): every entity's Type link is the very object stored under Types/<class>/<its type id>;
    no type identifier occurs twice."""
    fails = []
    for i, st in enumerate(steps):
        if str(st["outcome"]).startswith("error"):
            fails.append({"key": "t-unexpected-exception", "what": f"op {i} {ops[i]}: {st['outcome']}"})
            break
        bad = [r["e"] for r in st["links"] if not r["ok"]]
        if bad:
            fails.append({"key": "t-type-link-not-shared", "what": f"after op {i} {ops[i]}: entities {bad[:4]} do not link the node stored under their type id"})
            break
        keys = [(r["k"], r["tid"]) for r in st["types"]]
        if len(keys) != len(set(keys)):
            fails.append({"key": "t-type-id-twice", "what": f"after op {i}: {sorted(keys)}"})
            break
    return fails


def oracle_c01_t(ops, steps):
    """C01 text (type clauses): after close + open every entity has the class / primitive type / type name it had."""
    fails = []
    taint = _tainted_tids(ops, steps)
    for i, (op, st) in enumerate(zip(ops, steps)):
        if str(st["outcome"]).startswith("error"):
            fails.append({"key": "t-unexpected-exception", "what": f"op {i} {op}: {st['outcome']}"})
            break
        if op["op"] == "reopen" and i > 0 and st["outcome"] == "done":
            before = {r["e"]: (r["p"], r["k"], r["tid"], r["prim"], r["name"]) for r in steps[i - 1]["mem"]}
            after = {r["e"]: (r["p"], r["k"], r["tid"], r["prim"], r["name"]) for r in st["mem"]}
            diff = sorted(e for e in set(before) | set(after) if before.get(e) != after.get(e))
            if diff:
                # every entity holding a type whose node is a stale one is affected
                closure = {e for e, r in before.items() if r[2] in taint[i - 1]}
                key = "stale-type-reused" if set(diff) <= closure else "t-reopen-type-differs"
                fails.append({"key": key, "what": f"after op {i}: entities {diff[:4]}: live {[before.get(e) for e in diff[:3]]} reopened {[after.get(e) for e in diff[:3]]}"})
                break
    return fails


def oracle_c09_t(ops, steps):
    """C09 text (type clauses): an operation leaves every type node byte-identical except those it introduces / stops using,
    and every other entity's Type link; close + open without mutation changes nothing in the file."""
    fails = []
    for i, (op, st) in enumerate(zip(ops, steps)):
        if i == 0 or str(st["outcome"]).startswith("error"):
            continue
        a, b = _types_map(steps[i - 1]), _types_map(st)
        used_after = {r["tid"] for r in st["mem"]}
        changed = {k for k in set(a) | set(b) if a.get(k) != b.get(k)}
        o = op["op"]
        if o == "create":
            allowed = {k for k in changed if k == (op["k"], op["tid"]) and k not in a}
        elif o == "tname":
            tids = {r["tid"] for r in steps[i - 1]["mem"] if r["e"] == op["e"]}
            allowed = {k for k in changed if k[1] in tids}
        elif o in ("rm_ws", "types"):
            allowed = {k for k in changed if k not in b and k[1] not in used_after}
        else:
            allowed = set()
        if changed - allowed:
            fails.append({"key": "t-frame-type-node", "what": f"op {i} {op}: type nodes {sorted(changed - allowed)[:4]} changed: {[(a.get(k), b.get(k)) for k in sorted(changed - allowed)[:3]]}"})
            break
        la = {r["e"]: (r["ok"], r["via"]) for r in steps[i - 1]["links"]}
        lb = {r["e"]: (r["ok"], r["via"]) for r in st["links"]}
        touched = {e for e in set(la) & set(lb) if la[e] != lb[e]}
        if o == "tname":
            tids = {r["tid"] for r in steps[i - 1]["mem"] if r["e"] == op["e"]}
            touched -= {r["e"] for r in st["mem"] if r["tid"] in tids}
        if touched:
            fails.append({"key": "t-frame-type-link", "what": f"op {i} {op}: Type link of {sorted(touched)[:4]} changed"})
            break
    return fails
