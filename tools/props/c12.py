"""C12 — A copy equals its source and never disturbs it (Workspace.copy_to_parent, *.copy, copy_property_groups)."""
from __future__ import annotations

import hashlib
import json

from vlib.common import cbool, clist, cnat, copt, cz
from vlib import entsnap as S

ID = "C12"
PROPERTIES_V = "theories/Properties/C12.v"
CASE_IMPORTS = "From GV Require Import Prelude.Base Model.CopyModel.\nOpen Scope Z_scope."
ALLOWED_AXIOMS: list = []
REFUTED = ["C12_no_alias_refuted (copy and source share the metadata dict object: copy.metadata = {...} updates the source's dict in place)"]
PARTIAL = ["C12_no_alias_partial (edits of the copy leave every pre-existing entity unchanged when the edited node carries no metadata or the edit is not a metadata assignment)",
           "C12_copy_iso / C12_copy_iso_masked cover groups, objects (plain / points / cells / grid mask behaviour) and data; drillhole groups (Concatenator.copy) and linked surveys are checked by the oracle only (surveys: C20)"]
TRUSTED = [
    "Coq 8.16.1 kernel + vm_compute (correspondence evaluation); no axioms (Print Assumptions: closed)",
    "hand-written model coq/theories/Model/CopyModel.v of copy_to_parent / ObjectBase, Points, CellObject, GridObject, Group, Data .copy / copy_property_groups / Entity.metadata setter; tied to the code by running both on the same generated states",
    "tools/vlib/entsnap.py: reflection snapshot of entities (vars() through getters), uuid -> ordinal canonicalisation, attribute values hashed to 40-bit tokens (sha1; a collision could hide a difference)",
    "tools/props/c12.py (generator, driver, conversion of snapshots to Coq terms, oracle)",
    "h5py/numpy semantics and geoh5py object creation (exercised, not modelled); the file is outside the model: persistence of source and copy is checked by the oracle (re-open, per-node digests)",
]
ASSUMPTIONS = [
    "a workspace is the tree below its root; the target parent is a group/root (objects) or an object (data) outside the copied subtree",
    "coordinates and values are small integers so that float comparison is exact",
    "metadata dictionaries are the only mutable payload shared by reference that a setter updates in place (arrays are replaced by setters)",
]
RULE = (
    "every concrete class of geoh5py.objects/groups/data (reflection; UnknownData cannot be instantiated through the API) copied once per "
    "target (same parent, other group, other workspace) with children, property groups and metadata, plus random trees (groups nested "
    "up to 3 deep holding objects with data/property groups), option combinations (copy_children, clear_cache, mask, omit metadata, "
    "name override, second copy into an occupied workspace), followed by setter edits of copy nodes; non-trivial = the copied subtree "
    "has children or a mask/option is used"
)
LEVEL_TEXT = (
    "Proved for all trees (structural induction over the source subtree): the copy is the source relabelled through the uid map "
    "(classes, attributes, geometry, values, metadata cell, property groups through the map), masked copies equal the functional mask "
    "specification, the copy only appends one child to the target parent and leaves every other entity and the dict heap unchanged, uids "
    "stay unique. Refuted: no-aliasing (shared metadata dict; witness replayed, open finding); partial version excludes metadata edits. "
    "Tie: model evaluated in Coq on every generated state against the implementation's observations for all non-survey classes."
)
TECHNIQUE = "Coq model of the copy as a tree transformer with a dict heap; structural induction; vm_compute correspondence"
DRIVE_TIMEOUT = 900

SURVEYS = set(S.CURVE_LIKE[2:] + ["MTReceivers", "TipperBaseStations"])
GEO = {}
for _c in S.POINTS_LIKE:
    GEO[_c] = "GPoints"
for _c in S.SURFACE_LIKE:
    GEO[_c] = "GCells"
for _c in S.CURVE_LIKE:
    GEO[_c] = "GCurve"
for _c in S.GRID_LIKE:
    GEO[_c] = "GGrid"
for _c in S.OTHER_OBJ:
    GEO[_c] = "GPlain"
GEO["TipperBaseStations"] = "GCurve"
MODEL_GROUPS = set(S.PLAIN_GROUPS + S.OPTION_GROUPS + ["CustomGroup", "RootGroup"])
MODEL_OBJECTS = (set(S.ALL_OBJECTS) - SURVEYS - {"Drillhole"}) | {"Drillhole"}


# facts read from the source under test on every run (see regenerate): does a CustomGroup copy come back as None, and does
# clear_cache leave the cached parts of a curve behind (so that its cells are rebuilt from them)?
FLAGS = {"custom_group_copy_is_none": True, "clear_cache_keeps_parts": True}


def regenerate(repo):
    import ast
    from pathlib import Path

    repo = Path(repo)
    tree = ast.parse((repo / "geoh5py/workspace/workspace.py").read_text())
    fallback_covers_custom = False
    found = False
    for fn in ast.walk(tree):
        if isinstance(fn, ast.FunctionDef) and fn.name == "create_object_or_group":
            found = True
            for node in ast.walk(fn):
                if isinstance(node, ast.If) and isinstance(node.test, ast.Compare) and isinstance(node.test.left, ast.Name) \
                        and node.test.left.id == "entity_class" and isinstance(node.test.ops[0], (ast.Eq, ast.In, ast.Is)):
                    names = {n.id for c in node.test.comparators for n in ast.walk(c) if isinstance(n, ast.Name)} | \
                            {n.attr for c in node.test.comparators for n in ast.walk(c) if isinstance(n, ast.Attribute)}
                    if "CustomGroup" in names:
                        fallback_covers_custom = True
    if not found:
        raise RuntimeError("Workspace.create_object_or_group not found: the class dispatch of copies cannot be read")
    FLAGS["custom_group_copy_is_none"] = not fallback_covers_custom
    tree = ast.parse((repo / "geoh5py/shared/utils.py").read_text())
    fns = [fn for fn in ast.walk(tree) if isinstance(fn, ast.FunctionDef) and fn.name == "clear_array_attributes"]
    if not fns:
        raise RuntimeError("shared.utils.clear_array_attributes not found")
    consts = {n.value for n in ast.walk(fns[0]) if isinstance(n, ast.Constant) and isinstance(n.value, str)}
    FLAGS["clear_cache_keeps_parts"] = not any("parts" in c for c in consts)
    return {"tables": {"copy_flags": dict(FLAGS)}}


def tok(x):
    return int.from_bytes(hashlib.sha1(json.dumps(x, sort_keys=True, default=str).encode()).digest()[:5], "big")


# ----------------------------------------------------------------------------- generation
def obj_spec(rng, cls, rich=True):
    n = rng.range(3, 6)
    spec = {"cls": cls, "name": "o%d" % rng.below(50), "n": n, "salt": rng.below(5)}
    if cls in S.SURFACE_LIKE:
        spec["cells"] = [[rng.below(n) for _ in range(3)] for _ in range(rng.range(1, 4))]
        spec["cells"] = [c for c in spec["cells"] if len(set(c)) == 3] or [[0, 1, 2]]
    elif cls in S.CURVE_LIKE and rng.chance(50):
        spec["cells"] = [[i, i + 1] for i in range(n - 1) if not rng.chance(25)] or [[0, 1]]
    if cls == "Grid2D":
        spec["nu"], spec["nv"] = rng.range(1, 3), rng.range(1, 3)
    if rng.chance(60):
        spec["meta"] = {"k%d" % rng.below(3): rng.below(9), "s": "x%d" % rng.below(9)}
    if rng.chance(40):
        spec["attrs"] = {"visible": rng.chance(50), "public": rng.chance(50), "allow_delete": rng.chance(70)}
    spec["data"], spec["pgs"] = [], []
    if rich:
        kinds = ["FloatData", "IntegerData", "ReferencedData", "BooleanData", "TextData"]
        for k in range(rng.range(0, 4)):
            kind = rng.weighted([("FloatData", 50), ("IntegerData", 15), ("ReferencedData", 10), ("BooleanData", 5), ("TextData", 20)])
            assoc = "OBJECT" if kind == "TextData" else rng.choice(["VERTEX", "VERTEX", "CELL"])
            spec["data"].append({"kind": kind, "assoc": assoc, "seed": rng.below(1000), "name": "d%d" % k,
                                 "meta": {"dm": rng.below(9)} if rng.chance(20) else None})
        del kinds
    return spec


def finish_pgs(rng, spec):
    """property groups over same-association array data children (indices into spec['data'])."""
    byassoc = {}
    for i, d in enumerate(spec["data"]):
        if d["kind"] != "TextData":
            byassoc.setdefault(d["assoc"], []).append(i)
    for assoc, idx in byassoc.items():
        if idx and rng.chance(60):
            members = rng.sample(idx, rng.range(1, len(idx)))
            spec["pgs"].append({"name": "pg%s" % assoc[0], "members": members})


def group_spec(rng, depth, cls=None):
    cls = cls or rng.choice(["ContainerGroup", "ContainerGroup", "NoTypeGroup", "GiftoolsGroup", "AirborneTheme", "UIJsonGroup"])
    spec = {"cls": cls, "name": "g%d" % rng.below(50), "children": []}
    if rng.chance(40):
        spec["meta"] = {"gk": rng.below(9)}
    for _ in range(rng.range(0, 3)):
        if depth > 0 and rng.chance(35):
            spec["children"].append(group_spec(rng, depth - 1))
        else:
            ocls = rng.weighted([("Points", 30), ("Curve", 25), ("Surface", 15), ("Grid2D", 15), ("BlockModel", 5), ("NoTypeObject", 5), ("Label", 5)])
            o = obj_spec(rng, ocls)
            finish_pgs(rng, o)
            spec["children"].append(o)
    return spec


def default_case(cls, kind, target, rng):
    if kind == "object":
        src = obj_spec(rng, cls)
        src["meta"] = {"k": 1, "s": "x"} if cls not in SURVEYS else None
        src["data"] = [{"kind": "FloatData", "assoc": "VERTEX", "seed": 1, "name": "fv", "meta": None},
                       {"kind": "IntegerData", "assoc": "VERTEX", "seed": 2, "name": "iv", "meta": None},
                       {"kind": "FloatData", "assoc": "CELL", "seed": 3, "name": "fc", "meta": None},
                       {"kind": "TextData", "assoc": "OBJECT", "seed": 4, "name": "tx", "meta": {"dm": 1}}]
        src["pgs"] = [{"name": "pgV", "members": [0, 1]}]
    elif kind == "group":
        src = {"cls": cls, "name": "grp", "meta": {"k": 2}, "children": []}
        if cls in S.CONCAT_GROUPS:
            src["holes"] = 2
        else:
            o = obj_spec(rng, "Points")
            finish_pgs(rng, o)
            src["children"] = [o, {"cls": "ContainerGroup", "name": "sub", "children": [obj_spec(rng, "Curve")]}]
    else:  # data root
        src = obj_spec(rng, "Points", rich=False)
        src["data"] = [{"kind": cls, "assoc": "VERTEX", "seed": 5, "name": "dd", "meta": {"dm": 3} if cls != "VisualParameters" else None}]
        src["pick"] = 0
    return {"src": src, "target": target, "opts": {"copy_children": True, "clear_cache": False, "mask": None, "omit_meta": False, "name": None},
            "prefill": False, "edits": [{"path": [], "op": "meta", "val": {"edited": 1}}, {"path": [], "op": "attr", "attr": "name", "val": "renamed"}]}


def cell_mask_case(rng, cls, target, variant, rich=False):
    """CellObject.copy(mask=..., cell_mask=...): the cell mask alone, the vertex mask alone, both (the cell mask then selects
    among the cells whose vertices are all kept), or a cell mask that keeps every cell."""
    src = obj_spec(rng, cls, rich=rich)
    n = src["n"] = rng.range(5, 7)
    if cls in S.SURFACE_LIKE:
        src["cells"] = [[i, i + 1, i + 2] for i in range(n - 2)]
    else:
        src["cells"] = [[i, i + 1] for i in range(n - 1)]
    if cls in SURVEYS:
        src.pop("meta", None)
    if rich:
        finish_pgs(rng, src)
    else:
        src["data"] = [{"kind": "FloatData", "assoc": "VERTEX", "seed": 1 + rng.below(50), "name": "fv", "meta": None},
                       {"kind": "FloatData", "assoc": "CELL", "seed": 3 + rng.below(50), "name": "fc", "meta": None},
                       {"kind": "IntegerData", "assoc": "CELL", "seed": 5 + rng.below(50), "name": "ic", "meta": None},
                       {"kind": "TextData", "assoc": "OBJECT", "seed": 4, "name": "tx", "meta": None}]
        src["pgs"] = [{"name": "pgC", "members": [1, 2]}]
    cells = src["cells"]
    mask = cmask = None
    if variant in ("vertex", "both"):
        mask = [1] * n
        mask[rng.choice([0, 0, n - 1, n - 1, rng.below(n)])] = 0
    kept = [all((mask or [1] * n)[i] for i in c) for c in cells]
    if variant == "all":
        cmask = [1] * len(cells)
    elif variant in ("cell", "both"):
        idx = [i for i, k in enumerate(kept) if k]
        cmask = [0] * len(cells)
        for i in idx:
            cmask[i] = 1 if rng.chance(60) else 0
        if idx and not any(cmask):
            cmask[rng.choice(idx)] = 1
        if all(cmask) and len(idx) > 1:
            cmask[rng.choice(idx)] = 0
    opts = {"copy_children": True, "clear_cache": rich and rng.chance(15), "mask": mask, "cell_mask": cmask, "omit_meta": False, "name": None}
    return {"src": src, "target": target, "opts": opts, "prefill": False, "edits": gen_edits(rng, src, opts) if rich else []}


def gen_edits(rng, src, opts):
    """edits addressed by child-index paths below the copy root (modelled ops only)."""
    edits = []
    paths = [[]]
    if opts["copy_children"] and "pick" not in src:
        kids = src.get("children") if "children" in src else src.get("data", [])
        for i, k in enumerate(kids or []):
            paths.append([i])
            sub = k.get("children") if "children" in k else k.get("data", [])
            for j, _ in enumerate(sub or []):
                paths.append([i, j])
    for _ in range(rng.range(0, 4)):
        p = rng.choice(paths)
        op = rng.weighted([("meta", 50), ("attr", 35), ("vals", 15)])
        if op == "meta":
            edits.append({"path": p, "op": "meta", "val": {rng.choice(["k0", "k1", "new", "s"]): rng.below(9)}})
        elif op == "attr":
            a = rng.choice(["name", "visible", "public", "allow_rename"])
            edits.append({"path": p, "op": "attr", "attr": a, "val": ("n%d" % rng.below(9)) if a == "name" else rng.chance(50)})
        else:
            edits.append({"path": p, "op": "vals", "seed": rng.below(1000)})
    return edits


def generate(rng, tier):
    cases = [{"inventory": True}]
    # every class once per target
    for target in ("same", "group", "ws"):
        for cls in S.ALL_OBJECTS:
            cases.append(default_case(cls, "object", target, rng))
        for cls in S.PLAIN_GROUPS + S.OPTION_GROUPS + S.CONCAT_GROUPS + ["CustomGroup"]:
            cases.append(default_case(cls, "group", target, rng))
    for target in ("same", "object", "wsobject"):
        for kind in S.DATA_KINDS:
            cases.append(default_case(kind, "data", target, rng))
    # the witness of the aliasing defect and the self-copy
    cases.append({"src": {"cls": "Points", "name": "w", "n": 3, "salt": 0, "meta": {"k": 1}, "data": [], "pgs": []}, "target": "same",
                  "opts": {"copy_children": True, "clear_cache": False, "mask": None, "omit_meta": False, "name": None}, "prefill": False,
                  "edits": [{"path": [], "op": "meta", "val": {"k": 2}}]})
    cases.append({"src": {"cls": "ContainerGroup", "name": "selfcopy", "children": [obj_spec(rng, "Points", rich=False)]}, "target": "self",
                  "opts": {"copy_children": True, "clear_cache": False, "mask": None, "omit_meta": False, "name": None}, "prefill": False, "edits": []})
    # drillhole groups (Concatenator.copy): copy, edit the COPY, read the SOURCE for the first time afterwards, re-open both
    for target in ("ws", "group"):
        for edit in ("replace", "replace_longer", "remove", "add", "rename", "removehole", "none"):
            for which in (0, 1):
                cases.append({"dh": {"holes": [4, 6, 3], "target": target, "edit": edit, "which": which, "cls": "DrillholeGroup"}})
    cases.append({"dh": {"holes": [2, 5], "target": "ws", "edit": "replace", "which": 0, "cls": "IntegratorDrillholeGroup"}})
    # a drillhole group that also holds a non-concatenated child (an attached file)
    for target in ("ws", "group"):
        cases.append({"dh": {"holes": [3, 4], "target": target, "edit": "replace", "which": 1, "cls": "DrillholeGroup", "file": True}})
    for _ in range(6 if tier == "quick" else 200):
        cases.append({"dh": {"holes": [rng.range(1, 6) for _ in range(rng.range(2, 4))], "target": rng.choice(["ws", "ws", "group"]),
                             "edit": rng.choice(["replace", "replace", "replace_longer", "remove", "add", "rename", "removehole"]),
                             "which": rng.below(2), "cls": "DrillholeGroup"}})
    n = 140 if tier == "quick" else 5000
    for _ in range(n):
        shape = rng.weighted([("object", 45), ("group", 35), ("data", 20)])
        opts = {"copy_children": not rng.chance(15), "clear_cache": rng.chance(20), "mask": None, "omit_meta": rng.chance(10),
                "name": ("nn%d" % rng.below(9)) if rng.chance(15) else None}
        if shape == "object":
            cls = rng.weighted([("Points", 25), ("Curve", 25), ("Surface", 20), ("Grid2D", 10), ("BlockModel", 4), ("Octree", 3), ("DrapeModel", 3),
                                ("NoTypeObject", 3), ("Label", 2), ("GeoImage", 2), ("IntegratorPoints", 1), ("NeighbourhoodSurface", 1), ("AirborneMagnetics", 1)])
            src = obj_spec(rng, cls)
            finish_pgs(rng, src)
            target = rng.weighted([("same", 35), ("group", 25), ("ws", 25), ("wsgroup", 15)])
            if rng.chance(45) and GEO.get(cls) in ("GPoints", "GCells", "GCurve"):
                nn = src["n"]
                opts["mask"] = [1 if rng.chance(65) else 0 for _ in range(nn if not rng.chance(8) else nn - 1)]
            elif rng.chance(45) and cls == "Grid2D":
                opts["mask"] = [1 if rng.chance(65) else 0 for _ in range(src["nu"] * src["nv"])]
            elif rng.chance(10):
                opts["mask"] = [1, 0, 1]
        elif shape == "group":
            src = group_spec(rng, 2)
            target = rng.weighted([("same", 30), ("group", 25), ("ws", 30), ("wsgroup", 15)])
            if rng.chance(8):
                opts["mask"] = [1, 1, 0, 1]
        else:
            src = obj_spec(rng, rng.choice(["Points", "Curve", "Grid2D"]))
            if not src["data"]:
                src["data"] = [{"kind": "FloatData", "assoc": "VERTEX", "seed": 9, "name": "d0", "meta": None}]
            src["pick"] = rng.below(len(src["data"]))
            target = rng.weighted([("same", 40), ("object", 30), ("wsobject", 30)])
            if rng.chance(40) and src["data"][src["pick"]]["kind"] != "TextData" and src["cls"] != "Grid2D":
                opts["mask"] = [1 if rng.chance(60) else 0 for _ in range(src["n"])]
        cases.append({"src": src, "target": target, "opts": opts, "prefill": target.startswith("ws") and rng.chance(30),
                      "edits": gen_edits(rng, src, opts)})
    # the cell_mask keyword of CellObject.copy: every class that has cells, same and other workspace, cell mask alone / vertex mask
    # alone / both (no mask at all: the per-class default cases above); then random sources and options
    rc = rng.fork(0xCE11)
    for cls in S.CURVE_LIKE + S.SURFACE_LIKE:
        for target in ("same", "ws"):
            for variant in ("cell", "both"):
                cases.append(cell_mask_case(rc, cls, target, variant))
        if cls not in SURVEYS or tier != "quick":
            cases.append(cell_mask_case(rc, cls, rc.choice(["same", "ws"]), "vertex"))
    # a cell mask of the wrong length is refused (IndexError from the boolean index), alone and next to a fitting vertex mask
    for cls, variant in (("Curve", "cell"), ("Surface", "both")):
        c = cell_mask_case(rc, cls, "ws", variant)
        c["opts"]["cell_mask"] = c["opts"]["cell_mask"][:-1]
        cases.append(c)
    # Group.copy forwards `mask=` only: a cell_mask keyword given to a group leaves the cells of the objects below it alone
    for variant in ("cell", "both"):
        for target in ("same", "ws"):
            c = cell_mask_case(rc, rc.choice(["Curve", "Surface"]), target, variant)
            c["src"] = {"cls": "ContainerGroup", "name": "gcm", "meta": {"gk": 1}, "children": [c["src"]]}
            cases.append(c)
    for _ in range(12 if tier == "quick" else 1500):
        cls = rc.weighted([("Curve", 40), ("Surface", 40), ("AirborneMagnetics", 10), ("NeighbourhoodSurface", 10)])
        cases.append(cell_mask_case(rc, cls, rc.weighted([("same", 35), ("group", 20), ("ws", 30), ("wsgroup", 15)]),
                                    rc.weighted([("cell", 45), ("both", 35), ("all", 10), ("vertex", 10)]), rich=True))
    return cases


# ----------------------------------------------------------------------------- implementation driver
def _vals_for(kind, n, seed):
    return [((seed * 7 + i * 3) % 23) - 5 if (seed + i) % 6 else None for i in range(n)]


def _build(ws, spec, parent):
    """create the entity tree of a spec under parent; returns the root entity."""
    from geoh5py import groups as G

    cls = spec["cls"]
    if "children" in spec or cls in S.ALL_GROUPS:
        if cls == "CustomGroup":
            from geoh5py.groups import GroupType

            gt = GroupType.create_custom(ws, name="custom type", description="d")
            ent = G.CustomGroup(gt, name=spec["name"], parent=parent)
            ws.save_entity(ent)
        else:
            kw = {"name": spec["name"], "parent": parent}
            if cls in S.OPTION_GROUPS:
                kw["options"] = {"opt": 1, "nested": {"a": 2}}
            ent = getattr(G, cls).create(ws, **kw)
        if spec.get("meta") is not None:
            ent.metadata = dict(spec["meta"])
        if spec.get("holes"):
            import numpy as np
            from geoh5py.objects import Drillhole

            for h in range(spec["holes"]):
                dh = Drillhole.create(ws, name="dh%d" % h, parent=ent, collar=[float(h), 0.0, 0.0],
                                      surveys=np.array([[0.0, 0.0, -90.0], [10.0, 0.0, -90.0]]))
                dh.add_data({"assay": {"depth": np.array([1.0, 2.0, 3.0]), "values": np.array([1.0, 2.0, 3.0 + h])}})
        for c in spec.get("children", []):
            _build(ws, c, ent)
        return ent
    ent = S.make_object(ws, cls, spec, parent=parent)
    nv, nc = S.sizes(ent)
    made = []
    for d in spec.get("data", []):
        assoc = d["assoc"]
        n = nv if assoc == "VERTEX" else nc
        if d["kind"] in ("TextData", "CommentsData", "FilenameData", "BlobData", "MultiTextData", "VisualParameters"):
            assoc, n = "OBJECT", 1
        elif not n:
            assoc, n = ("CELL", nc) if nc else (("VERTEX", nv) if nv else ("OBJECT", 1))
        try:
            de = S.make_data(ent, d["kind"], assoc, _vals_for(d["kind"], n, d["seed"]), d["name"])
        except Exception:  # noqa: BLE001  a class that cannot hold this data: leave it out
            made.append(None)
            continue
        if d.get("meta") is not None and de is not None:
            de.metadata = dict(d["meta"])
        made.append(de)
    for pg in spec.get("pgs", []):
        members = [made[i] for i in pg["members"] if i < len(made) and made[i] is not None]
        if members and len({m.association for m in members}) == 1:
            ent.add_data_to_group(members, pg["name"])
    return ent


def _register_all(ws, cn):
    from geoh5py.groups import PropertyGroup

    def rec(e):
        cn.reg(e.uid)
        et = getattr(e, "entity_type", None)
        if et is not None:
            cn.reg(et.uid)
        for c in getattr(e, "children", []) or []:
            if isinstance(c, PropertyGroup):
                cn.reg(c.uid)
            else:
                rec(c)
    rec(ws.root)


def _snap(e, cn):
    """entsnap.snapshot plus sizes and metadata-dict identity."""
    from geoh5py.groups import PropertyGroup

    node = S.snapshot(e, cn, with_children=False)
    nv, nc = S.sizes(e)
    node["nv"], node["nc"] = (int(nv) if nv else None), (int(nc) if nc else None)
    node["meta_id"] = id(e.__dict__.get("_metadata")) if e.__dict__.get("_metadata") is not None else None
    node["children"] = [_snap(c, cn) for c in getattr(e, "children", []) or [] if not isinstance(c, PropertyGroup)]
    return node


def _digest(path, uids):
    """per-node digests of the file nodes of the given uuids (own attributes + own datasets, not the linked children)."""
    import h5py
    import numpy as np

    def val(x):
        return repr(np.asarray(x).tolist()).encode()

    out = {}
    with h5py.File(path, "r") as f:
        base = f[list(f)[0]]
        for kind in ("Groups", "Objects", "Data"):
            if kind not in base:
                continue
            for u in uids:
                key = "{%s}" % u
                if key not in base[kind]:
                    continue
                h = hashlib.sha1()
                node = base[kind][key]
                for k in sorted(node.attrs):
                    h.update(k.encode())
                    h.update(val(node.attrs[k]))

                def visit(name, obj, h=h):
                    if name.startswith(("Data/", "Objects/", "Groups/", "Type")) or name in ("Data", "Objects", "Groups"):
                        return
                    h.update(name.encode())
                    for k in sorted(obj.attrs):
                        h.update(k.encode())
                        h.update(val(obj.attrs[k]))
                    if isinstance(obj, h5py.Dataset):
                        h.update(val(obj[()]))
                node.visititems(visit)
                out[str(u)] = h.hexdigest()[:16]
    return out


def _subtree_uids(e):
    from geoh5py.groups import PropertyGroup

    out = [e.uid]
    for c in getattr(e, "children", []) or []:
        if not isinstance(c, PropertyGroup):
            out += _subtree_uids(c)
    return out


def _at(e, path):
    from geoh5py.groups import PropertyGroup

    for i in path:
        kids = [c for c in e.children if not isinstance(c, PropertyGroup)]
        if i >= len(kids):
            return None
        e = kids[i]
    return e


def _apply_edit(e, ed):
    import numpy as np

    if ed["op"] == "meta":
        if type(e).__name__ in SURVEYS:
            return "skipped"
        e.metadata = dict(ed["val"])
    elif ed["op"] == "attr":
        setattr(e, ed["attr"], ed["val"])
    elif ed["op"] == "vals":
        cur = getattr(e, "values", None)
        if not isinstance(cur, np.ndarray) or cur.dtype.kind != "f":
            return "skipped"
        e.values = np.array([float((ed["seed"] + 3 * i) % 17) for i in range(cur.shape[0])])
    return "ok"


def _dh_read(group):
    """{hole name: {data name: values}} through the API (first read in this session unless read before)"""
    import numpy as np
    from geoh5py.objects import Drillhole

    out = {}
    for h in group.children:
        if isinstance(h, Drillhole):
            rec = {}
            for nm in ("assay", "au", "extra"):
                dd = h.get_data(nm)
                if dd and dd[0] is not None:
                    v = dd[0].values
                    rec[nm] = None if v is None else [S.num(x) for x in np.asarray(v, dtype=float).tolist()]
            out[h.name] = rec
    return out


def drive_dh(case, work):
    """drillhole group: copy, edit the copy, then read the source (live, first read of the session) and both files"""
    import os

    import numpy as np
    from geoh5py import Workspace
    from geoh5py import groups as G
    from geoh5py.objects import Drillhole

    spec = case["dh"]
    pa, pb = f"{work}/c12dha.geoh5", f"{work}/c12dhb.geoh5"
    for p in (pa, pb):
        if os.path.exists(p):
            os.remove(p)
    obs = {"dh": True}

    def attempt(tag, fn):
        try:
            obs[tag] = fn()
        except Exception as e:  # noqa: BLE001
            obs[tag] = {"raised": type(e).__name__, "msg": str(e)[:160]}

    try:
        with Workspace.create(pa) as wa:
            g = getattr(G, spec["cls"]).create(wa, name="DH")
            for i, n in enumerate(spec["holes"]):
                off = 100.0 * (i + 1)
                h = Drillhole.create(wa, name="h%d" % i, parent=g, collar=np.r_[off, 0.0, 10.0],
                                     surveys=np.c_[np.linspace(0, 100, 5), np.ones(5) * 45.0, np.linspace(-89, -75, 5)])
                ft = np.c_[np.arange(n), np.arange(n) + 1.0]
                h.add_data({"assay": {"values": off + np.arange(n, dtype=float), "from-to": ft},
                            "au": {"values": 2 * off + np.arange(n, dtype=float), "from-to": ft}})
            if spec.get("file"):
                import tempfile

                fd, fpath = tempfile.mkstemp(suffix=".txt")
                os.write(fd, b"attached")
                os.close(fd)
                try:
                    g.add_file(fpath)
                finally:
                    os.remove(fpath)
            obs["reference"] = _dh_read(g)
            obs["ref_others"] = sorted(type(x).__name__ for x in g.children if not isinstance(x, Drillhole))
            guid = g.uid
        wa = Workspace(pa)
        wb = Workspace.create(pb)
        try:
            g = wa.get_entity(guid)[0]
            if spec["target"] == "ws":
                tws, parent = wb, wb
            else:
                tws, parent = wa, G.ContainerGroup.create(wa, name="tgt")
            try:
                c = g.copy(parent=parent)
                obs["copy_error"] = None
            except Exception as e:  # noqa: BLE001
                obs["copy_error"] = type(e).__name__ + ": " + str(e)[:160]
                c = None
            if c is not None:
                obs["copy_cls"] = type(c).__name__
                obs["copy_others"] = sorted(type(x).__name__ for x in c.children if not isinstance(x, Drillhole))
                cuid = c.uid
                attempt("copy_read", lambda: _dh_read(c))
                k = min(spec["which"], len(spec["holes"]) - 1)
                n = spec["holes"][k]

                def edit():
                    hole = [x for x in c.children if x.name == "h%d" % k][0]
                    e = spec["edit"]
                    if e == "replace":
                        hole.get_data("assay")[0].values = -1.0 - np.arange(n, dtype=float)
                    elif e == "replace_longer":
                        tws.remove_entity(hole.get_data("assay")[0])
                        ft = np.c_[np.arange(n + 2), np.arange(n + 2) + 1.0]
                        hole.add_data({"assay": {"values": -1.0 - np.arange(n + 2, dtype=float), "from-to": ft}})
                    elif e == "remove":
                        tws.remove_entity(hole.get_data("assay")[0])
                    elif e == "add":
                        hole.add_data({"extra": {"values": np.array([9.0, 8.0]), "from-to": np.array([[0.0, 1.0], [1.0, 2.0]])}})
                    elif e == "rename":
                        hole.name = "renamed"
                    elif e == "removehole":
                        tws.remove_entity(hole)
                    return "ok"
                attempt("edit", edit)
                attempt("copy_after", lambda: _dh_read(c))
            # the source: first read of this session
            attempt("src_live", lambda: _dh_read(g))
            # ordinary follow-up work on the source
            last = len(spec["holes"]) - 1

            def follow():
                hole = [x for x in g.children if x.name == "h%d" % last][0]
                hole.get_data("assay")[0].values = 7.0 + np.arange(spec["holes"][last], dtype=float)
                return "ok"
            attempt("follow_up", follow)
        finally:
            for w in (wa, wb):
                try:
                    w.close()
                except Exception:  # noqa: BLE001
                    pass

        def reread(path, uid):
            with Workspace(path) as w:
                e = w.get_entity(uid)[0]
                return None if e is None else _dh_read(e)
        attempt("src_file", lambda: reread(pa, guid))
        if c is not None:
            attempt("copy_file", lambda: reread(pb if spec["target"] == "ws" else pa, cuid))
    finally:
        for p in (pa, pb):
            if os.path.exists(p):
                os.remove(p)
    return obs


def drive_one(case, work):
    import os
    import warnings

    import numpy as np
    from geoh5py import Workspace
    from geoh5py import groups as G
    from geoh5py.objects import Points

    warnings.simplefilter("ignore")
    if case.get("inventory"):
        return {"inventory": S.inventory()}
    if "dh" in case:
        return drive_dh(case, work)
    pa, pb = f"{work}/c12a.geoh5", f"{work}/c12b.geoh5"
    for p in (pa, pb):
        if os.path.exists(p):
            os.remove(p)
    obs = {}
    try:
        wa, wb = Workspace.create(pa), Workspace.create(pb)
        src_spec = case["src"]
        by = Points.create(wa, name="bystander", vertices=np.array([[0.0, 0, 0], [1, 1, 1]]))
        by.metadata = {"by": 1}
        by.add_data({"bd": {"values": np.array([1.0, 2.0])}})
        root_ent = _build(wa, src_spec, wa.root)
        tgt_a = G.ContainerGroup.create(wa, name="tgtA")
        tgt_b = G.ContainerGroup.create(wb, name="tgtB")
        src = root_ent
        if "pick" in src_spec:
            kids = [c for c in root_ent.children if not isinstance(c, G.PropertyGroup)]
            src = kids[min(src_spec["pick"], len(kids) - 1)]
        target = case["target"]
        if target in ("object", "wsobject"):
            ospec = dict(src_spec)
            ospec = {k: v for k, v in ospec.items() if k not in ("data", "pgs", "pick", "meta")}
            ospec["name"] = "other"
            other = S.make_object(wa if target == "object" else wb, ospec["cls"], ospec)
        parent = {"same": None, "group": tgt_a, "ws": wb, "wsgroup": tgt_b, "self": src,
                  "object": None, "wsobject": None}[target]
        if target in ("object", "wsobject"):
            parent = other
        opts = case["opts"]
        kw = {}
        if src_spec["cls"] in S.ALL_GROUPS or "children" in src_spec or "pick" not in src_spec:
            kw["copy_children"] = opts["copy_children"]
        if "pick" in src_spec:
            kw.pop("copy_children", None)
        kw["clear_cache"] = opts["clear_cache"]
        if opts["mask"] is not None:
            kw["mask"] = np.array(opts["mask"], dtype=bool)
        if opts.get("cell_mask") is not None:
            kw["cell_mask"] = np.array(opts["cell_mask"], dtype=bool)
        if opts["omit_meta"]:
            kw["omit_list"] = ["_metadata"]
        if opts["name"] is not None:
            kw["name"] = opts["name"]
        if case.get("prefill"):
            src.copy(parent=parent)  # occupy the uids in the target workspace
        cn = S.Canon()
        _register_all(wa, cn)
        _register_all(wb, cn)
        real_parent = parent if parent is not None else src.parent
        if hasattr(real_parent, "root"):
            real_parent = real_parent.root
        obs["src_cls"] = type(src).__name__
        obs["src_before"] = _snap(src, cn)
        src_uids = _subtree_uids(src)
        wa.close()
        wb.close()
        obs["digest_before"] = _digest(pa, src_uids)
        wa, wb = Workspace(pa), Workspace(pb)
        # re-resolve after re-open (fresh in-memory entities, as a user would have them)
        src = wa.get_entity(src.uid)[0]
        by = wa.get_entity(by.uid)[0]
        tws = wb if target in ("ws", "wsgroup", "wsobject") else wa
        if parent is None:
            real_parent = src.parent
            parent_arg = None
        else:
            real_parent = tws.get_entity(real_parent.uid)[0]
            parent_arg = tws if target == "ws" else real_parent
        obs["wsA"] = _snap(wa.root, cn)
        obs["wsB"] = _snap(wb.root, cn)
        obs["src_reloaded"] = _snap(src, cn)
        obs["by_before"] = _snap(by, cn)
        obs["parent_before"] = S.snapshot(real_parent, cn, with_children=False)
        obs["n_old"] = len(cn.tab)
        try:
            cp = src.copy(parent=parent_arg, **kw)
            obs["error"] = None
        except RecursionError:
            obs["error"] = "RecursionError"
            obs["by_after"] = _snap(by, cn)
            obs["src_after"] = None
            try:
                wa.close()
                wb.close()
            except Exception:  # noqa: BLE001
                pass
            return obs
        except Exception as e:  # noqa: BLE001
            obs["error"] = type(e).__name__
            obs["msg"] = str(e)[:200]
            cp = None
        obs["src_after"] = _snap(src, cn) if obs["error"] != "RecursionError" else None
        obs["by_after"] = _snap(by, cn)
        if cp is not None:
            obs["copy"] = _snap(cp, cn)
            obs["parent_after"] = S.snapshot(real_parent, cn, with_children=False)
            obs["copy_parent_is_target"] = cp.parent is real_parent
            obs["uids_unique"] = len(set(_subtree_uids(tws.root))) == len(_subtree_uids(tws.root))
            # aliasing by identity
            pairs = []

            def walk(a, b, path):
                ma, mb = a.__dict__.get("_metadata"), b.__dict__.get("_metadata")
                if ma is not None and ma is mb:
                    pairs.append(path)
                ka = [c for c in getattr(a, "children", []) or [] if not isinstance(c, G.PropertyGroup)]
                kb = [c for c in getattr(b, "children", []) or [] if not isinstance(c, G.PropertyGroup)]
                if len(ka) == len(kb):
                    for i, (x, y) in enumerate(zip(ka, kb)):
                        walk(x, y, path + [i])
            walk(src, cp, [])
            obs["meta_shared_paths"] = pairs
            elog = []
            for ed in case.get("edits", []):
                node = _at(cp, ed["path"])
                if node is None:
                    elog.append("nopath")
                    continue
                try:
                    elog.append(_apply_edit(node, ed))
                except Exception as e:  # noqa: BLE001
                    elog.append("raised:" + type(e).__name__)
            obs["edit_log"] = elog
            obs["src_edited"] = _snap(src, cn)
            obs["copy_edited"] = _snap(cp, cn)
            obs["by_edited"] = _snap(by, cn)
            # API-level mutations of the copy (oracle only)
            api = []
            try:
                if hasattr(cp, "add_comment"):
                    cp.add_comment("note", "me")
                    api.append("add_comment")
                if hasattr(cp, "remove_vertices") and getattr(cp, "n_vertices", None) and cp.n_vertices > 2 and type(cp).__name__ in ("Points", "Curve"):
                    cp.remove_vertices([0])
                    api.append("remove_vertices")
                if hasattr(cp, "add_data") and getattr(cp, "n_vertices", None):
                    cp.add_data({"extra": {"values": np.arange(float(cp.n_vertices))}})
                    api.append("add_data")
                kids = [c for c in getattr(cp, "children", []) or [] if not isinstance(c, G.PropertyGroup)]
                if kids and hasattr(cp, "remove_children") and not isinstance(cp, G.Group):
                    cp.workspace.remove_entity(kids[0])
                    api.append("remove_child")
            except Exception as e:  # noqa: BLE001
                api.append("raised:" + type(e).__name__ + ":" + str(e)[:80])
            obs["api_log"] = api
            obs["src_api"] = _snap(src, cn)
            cp_uid, src_uid = cp.uid, src.uid
        wa.close()
        wb.close()
        obs["digest_after"] = _digest(pa, src_uids)
        # re-open: the files
        wa, wb = Workspace(pa), Workspace(pb)
        s2 = wa.get_entity(src_uids[0])[0]
        obs["src_reopened"] = _snap(s2, cn) if s2 is not None else None
        if cp is not None:
            tws = wb if target in ("ws", "wsgroup", "wsobject") else wa
            c2 = tws.get_entity(cp_uid)[0]
            obs["copy_reopened_cls"] = type(c2).__name__ if c2 is not None else None
        wa.close()
        wb.close()
    finally:
        for p in (pa, pb):
            if os.path.exists(p):
                os.remove(p)
    return obs


# ----------------------------------------------------------------------------- snapshots -> Coq terms
ARRAY_KEYS = ("vertices", "cells", "values", "metadata")


def _kind_of(cls):
    if cls in S.ALL_GROUPS:
        return "KGroup"
    if cls in S.ALL_OBJECTS:
        return "KObject"
    return "KData"


def _expressible_node(node):
    cls = node["cls"]
    if cls in SURVEYS or cls in S.CONCAT_GROUPS or cls.startswith("Concatenated"):
        return False
    if _kind_of(cls) == "KGroup" and cls not in MODEL_GROUPS:
        return False
    return all(_expressible_node(c) for c in node.get("children", []))


class _Intern:
    """per-case table: 40-bit tokens -> small integers (only equality of tokens matters inside one case)."""

    def __init__(self):
        self.t = {}

    def __call__(self, x):
        if x not in self.t:
            self.t[x] = 1000 + len(self.t)
        return self.t[x]


IN = [_Intern()]


def zt(x):
    return str(IN[0](x))


def zv(x):
    return "(%d)" % x if x < 0 else str(x)


def _zz(pairs):
    return clist("(%s,%s)" % (zt(a), zt(b)) for a, b in pairs)


def _vals_list(v):
    """data values as model tokens; None when the value is not an array."""
    if not isinstance(v, list):
        return None
    out = []
    for x in v:
        if x is None:
            out.append(None)
        elif isinstance(x, bool):
            out.append(int(x))
        elif isinstance(x, int) and abs(x) < 1000:
            out.append(x)
        else:
            out.append(IN[0](tok(x)))
    return out


SKIP_TYPE = [False]  # a name= override also renames a newly created entity type (finding): types left out of such cases


def _payload_parts(node):
    cls = node["cls"]
    knd = _kind_of(cls)
    geo = GEO.get(cls, "GPlain") if knd == "KObject" else "GPlain"
    a = node["attrs"]
    attrs = []
    for k in sorted(a):
        if k == "metadata":
            continue
        if k in ("vertices", "cells") and geo in ("GPoints", "GCells", "GCurve") and (k == "vertices" or geo != "GPoints"):
            continue
        if k == "values" and isinstance(a[k], list):
            continue
        attrs.append((tok(k), tok(a[k])))
    if not SKIP_TYPE[0]:
        attrs.append((tok("__type__"), tok(node.get("type"))))
    verts = [tok(r) for r in (a.get("vertices") or [])] if geo in ("GPoints", "GCells", "GCurve") else []
    cells = [[int(x) for x in c] for c in (a.get("cells") or [])] if geo in ("GCells", "GCurve") else []
    ncell = (node.get("nc") or 0) if geo == "GGrid" else 0
    vals = _vals_list(a.get("values")) if knd == "KData" else None
    asc = {"VERTEX": "AVertex", "CELL": "ACell"}.get((a.get("association") or {}).get("enum") if isinstance(a.get("association"), dict) else None, "AObject")
    md = a.get("metadata")
    mdl = None
    if isinstance(md, dict) and "dict" in md:
        mdl = sorted(((tok(k), tok(v)) for k, v in md["dict"]), key=lambda kv: IN[0](kv[0]))
    ndv = {"IntegerData": -2147483648, "ReferencedData": -2147483648, "BooleanData": 0}.get(cls)
    return dict(cls=tok(cls), knd=knd, geo=geo, asc=asc, attrs=attrs, verts=verts, cells=cells, ncell=ncell, vals=vals, meta=mdl,
                nocopy=cls == "CustomGroup" and FLAGS["custom_group_copy_is_none"], ndv=None if ndv is None else _vals_list([ndv])[0])


def _vals_term(vals):
    return "None" if vals is None else "(Some %s)" % clist("None" if v is None else "(Some %s)" % zv(v) for v in vals)


def _cells_term(cells):
    return clist(clist(cnat(x) for x in c) for c in cells)


def _payload_term(pp, meta_loc):
    return "(mkp %s %s %s %s %s %s %s %s %s %s %s %s)" % (
        zt(pp["cls"]), pp["knd"], pp["geo"], pp["asc"], _zz(pp["attrs"]), clist(zt(v) for v in pp["verts"]), _cells_term(pp["cells"]),
        cnat(pp["ncell"]), _vals_term(pp["vals"]), "None" if meta_loc is None else "(Some %d%%N)" % meta_loc, cbool(pp.get("nocopy", False)),
        "None" if pp.get("ndv") is None else "(Some %s)" % zv(pp["ndv"]))


def _ord(u):
    return int(u[1:])


class _Heap:
    def __init__(self, base):
        self.base = base
        self.ids = {}
        self.cells = []

    def loc(self, meta_id, d):
        if meta_id not in self.ids:
            self.ids[meta_id] = self.base + len(self.ids)
            self.cells.append((self.ids[meta_id], d))
        return self.ids[meta_id]


def _pg_tok(p):
    return tok([p["name"], p["association"], p["pgtype"]])


def _tree_term(node, heap):
    pp = _payload_parts(node)
    loc = heap.loc(node["meta_id"], pp["meta"]) if pp["meta"] is not None else None
    pgs = clist("(mkg %d%%N %s %s)" % (_ord(p["uid"]), zt(_pg_tok(p)), clist("%d%%N" % _ord(u) for u in (p["props"] or [])))
                for p in node.get("pgs") or [])
    return "(T (mkn %d%%N %s %s) %s)" % (_ord(node["uid"]), _payload_term(pp, loc), pgs, clist(_tree_term(c, heap) for c in node.get("children", [])))


def _cuid(u, n_old):
    return "(COld %d%%N)" % _ord(u) if _ord(u) < n_old else "CNew"


def _ctree_term(node, n_old):
    pp = _payload_parts(node)
    kids = [c["uid"] for c in node.get("children", [])]
    pgs = []
    for p in node.get("pgs") or []:
        prefs = []
        for u in p["props"] or []:
            prefs.append("(PChild %s)" % cnat(kids.index(u)) if u in kids else "(PUid %s)" % _cuid(u, n_old))
        pgs.append("(%s,%s,%s)" % (zt(_pg_tok(p)), _cuid(p["uid"], n_old), clist(prefs)))
    return "(C %s %s %s %s %s %s %s %s %s)" % (
        zt(pp["cls"]), _cuid(node["uid"], n_old), _zz(pp["attrs"]), clist(zt(v) for v in pp["verts"]), _cells_term(pp["cells"]),
        _vals_term(pp["vals"]), "None" if pp["meta"] is None else "(Some %s)" % _zz(pp["meta"]), clist(pgs),
        clist(_ctree_term(c, n_old) for c in node.get("children", [])))


ERRMAP = {"NotCopied": "ENotCopied", "ValueError": "EMaskShape", "RecursionError": "ERecursion", "KeyError": "EKeyError", "TypeError": "ETypeError", "IndexError": "EIndex"}


def case_term(case, obs):
    if case.get("inventory") or "dh" in case or "src_reloaded" not in obs or obs.get("wsA") is None:
        return None
    return _case_term_general(case, obs)


def _case_term_general(case, obs):
    if not (_expressible_node(obs["wsA"]) and _expressible_node(obs["wsB"])):
        return None
    if "getter-raised" in json.dumps([obs.get(k) for k in ("wsA", "wsB", "copy", "src_after", "src_edited", "copy_edited")]):
        return None  # a getter raised (zero-length values, finding): the observation has no value to compare
    IN[0] = _Intern()
    n_old = obs["n_old"]
    heap = _Heap(100000)
    o = case["opts"]
    SKIP_TYPE[0] = o["name"] is not None
    wa = _tree_term(obs["wsA"], heap)
    wb = _tree_term(obs["wsB"], heap)
    target = case["target"]
    sws = "false"
    tws = "true" if target in ("ws", "wsgroup", "wsobject") else "false"
    u = _ord(obs["src_reloaded"]["uid"])
    p = _ord(obs["parent_before"]["uid"])
    over = []
    if o["name"] is not None:
        over.append((tok("name"), tok(o["name"])))
    opts = "(Build_opts %s %s %s %s %s %s)" % (
        cbool(o["copy_children"] if "pick" not in case["src"] else True),
        "None" if o["mask"] is None else "(Some %s)" % clist(cbool(bool(b)) for b in o["mask"]),
        cbool(o["omit_meta"]), _zz(over), cbool(o["clear_cache"] and FLAGS["clear_cache_keeps_parts"]),
        "None" if o.get("cell_mask") is None else "(Some %s)" % clist(cbool(bool(b)) for b in o["cell_mask"]))
    world = "(Build_world %s %s %s 200000%%N)" % (wa, wb, clist("(%d%%N,%s)" % (l, _zz(d)) for l, d in heap.cells))
    dummy = "(C 0 CNew [] [] [] None None [] [])"
    if obs["error"] is None and "copy" not in obs:
        obs = dict(obs, error="NotCopied")
    if obs["error"] is not None:
        e = ERRMAP.get(obs["error"])
        if e is None:
            return "false"
        return "check_case %s %s %d%%N %s %d%%N %s [] (Some %s) %s None None None 0%%nat" % (world, sws, u, tws, p, opts, e, dummy)
    edits = []
    for ed, lg in zip(case.get("edits", []), obs.get("edit_log", [])):
        if lg != "ok":
            if lg in ("nopath", "skipped"):
                continue
            return None
        path = clist(cnat(i) for i in ed["path"])
        if ed["op"] == "meta":
            edits.append("(%s, SetMeta %s)" % (path, _zz(sorted(((tok(k), tok(v)) for k, v in ed["val"].items()), key=lambda kv: IN[0](kv[0])))))
        elif ed["op"] == "attr":
            edits.append("(%s, SetAttr %s %s)" % (path, zt(tok(ed["attr"])), zt(tok(ed["val"]))))
        elif ed["op"] == "vals":
            node = obs["copy_edited"]
            for i in ed["path"]:
                node = node["children"][i]
            n = len(node["attrs"]["values"])
            edits.append("(%s, SetVals %s)" % (path, clist("(Some %d)" % ((ed["seed"] + 3 * i) % 17) for i in range(n))))
    if any(_has_unmodelled(n) for n in (obs["copy"], obs["copy_edited"])):
        return None
    t_src0 = _ctree_term(obs["src_reloaded"], n_old)
    t_copy = _ctree_term(obs["copy"], n_old)
    t_after = _ctree_term(obs["src_after"], n_old)
    t_edited = _ctree_term(obs["src_edited"], n_old)
    t_cedited = _ctree_term(obs["copy_edited"], n_old)

    def opt(t, same_as):
        return "None" if t == same_as else "(Some %s)" % t
    return "check_case %s %s %d%%N %s %d%%N %s %s None %s %s %s %s %s" % (
        world, sws, u, tws, p, opts, clist(edits), t_copy, opt(t_after, t_src0), opt(t_edited, t_after), opt(t_cedited, t_copy),
        cnat(len(obs["parent_after"]["child_uids"])))


def _has_unmodelled(node):
    return not _expressible_node(node)


def model_term(case):
    return None


# ----------------------------------------------------------------------------- oracle (property text)
IGNORED_ATTRS = set()


def _strip_uids(x, mapping):
    """replace uid ordinals by the mapping (source uid -> copy uid) inside canonical values."""
    if isinstance(x, str) and x in mapping:
        return mapping[x]
    if isinstance(x, list):
        return [_strip_uids(y, mapping) for y in x]
    if isinstance(x, dict):
        return {k: _strip_uids(v, mapping) for k, v in x.items()}
    return x


def _norm(x):
    """True/1 and False/0 are the same stored value (int8 flags)."""
    if isinstance(x, bool):
        return int(x)
    if isinstance(x, list):
        return [_norm(y) for y in x]
    if isinstance(x, dict):
        return {k: _norm(v) for k, v in x.items()}
    return x


def _first_diff(a, b, path=""):
    a, b = _norm(a), _norm(b)
    if type(a) != type(b):
        return path or "/"
    if isinstance(a, dict):
        for k in sorted(set(a) | set(b)):
            if k not in a or k not in b:
                return path + "/" + k
            d = _first_diff(a[k], b[k], path + "/" + k)
            if d:
                return d
        return None
    if isinstance(a, list):
        if len(a) != len(b):
            return path + "#len"
        for i, (x, y) in enumerate(zip(a, b)):
            d = _first_diff(x, y, path + "/%d" % i)
            if d:
                return d
        return None
    return None if a == b else (path or "/")


def _uid_map(src, cp, m):
    m[src["uid"]] = cp["uid"]
    for a, b in zip(src.get("children", []), cp.get("children", [])):
        _uid_map(a, b, m)
    return m


def _cmp_nodes(src, cp, mapping, case, path, fails, masked, top):
    """attribute-by-attribute comparison of one source node with its copy (recursive)."""
    if src["cls"] != cp["cls"]:
        fails.append({"key": "copy-class-differs", "what": f"{path}: {src['cls']} copied as {cp['cls']}"})
        return
    sa, ca = src["attrs"], cp["attrs"]
    o = case["opts"]
    for k in sorted(set(sa) | set(ca)):
        sv, cv = _strip_uids(sa.get(k), mapping), ca.get(k)  # an attribute that is None is not listed
        if top and k == "name" and o["name"] is not None:
            sv = o["name"]
        if top and k == "metadata" and o["omit_meta"]:
            if src["cls"] in SURVEYS:
                continue
            sv = None
        if masked and k in ("vertices", "cells", "values", "parts", "current_line_id", "metadata"):
            continue  # checked by the mask expectations
        if src["cls"] in SURVEYS and k == "metadata":
            continue  # linked surveys: C20
        d = _first_diff(sv, cv)
        if d:
            key = "copy-attribute-differs:" + k
            if k == "depths" and isinstance(cv, dict) and cv == sa[k]:
                key = "drillhole-copy-depths-is-source-data"
            if k == "values" and "getter-raised" in json.dumps(cv):
                key = "empty-values-unreadable"
            fails.append({"key": key, "what": f"{path} ({src['cls']}): {k}{d}: source {str(sv)[:80]} copy {str(cv)[:80]}"})
    st, ct = _strip_uids(src.get("type"), mapping), cp.get("type")
    d = _first_diff(st, ct)
    if d:
        key = "copy-type-differs"
        if o["name"] is not None and d == "/name" and (ct or {}).get("name") == o["name"]:
            key = "copy-name-override-renames-type"
        fails.append({"key": key, "what": f"{path}: entity type {d}: source {str((st or {}).get(d[1:]))[:40]} copy {str((ct or {}).get(d[1:]))[:40]}"})


def _mask_expect(src, cp, mask, fails, path, cell_mask=None):
    """masked copy of an object: vertices/cells/data from the property text (coordinates, not indices).  A vertex mask keeps the
    selected vertices and the cells all of whose vertices are kept; a cell mask selects the cells itself (every vertex stays when
    no vertex mask is given) and CELL data follow it."""
    cls = src["cls"]
    geo = GEO.get(cls, "GPlain")
    sv, cv = src["attrs"].get("vertices"), cp["attrs"].get("vertices")
    if geo in ("GPoints", "GCells", "GCurve") and isinstance(sv, list):
        keep = [bool(b) for b in mask] if mask is not None else [True] * len(sv)
        exp_v = [r for r, k in zip(sv, keep) if k]
        if _norm(cv or []) != _norm(exp_v):
            fails.append({"key": "masked-vertices", "what": f"{path}: kept vertices differ"})
        if geo in ("GCells", "GCurve"):
            sc, cc = src["attrs"].get("cells") or [], cp["attrs"].get("cells") or []
            cell_keep = [all(keep[i] for i in c) for c in sc]
            if cell_mask is not None and len(cell_mask) == len(sc):
                cell_keep = [bool(b) for b in cell_mask]
            exp_cells = [[sv[i] for i in c] for c, k in zip(sc, cell_keep) if k]
            try:
                got_cells = [[(cv or [])[i] for i in c] for c in cc]
            except IndexError:
                got_cells = "out-of-range"
            if _norm(got_cells) != _norm(exp_cells):
                fails.append({"key": "masked-cells", "what": f"{path}: cells of the masked copy do not join the coordinates of the kept source cells"
                                                              f" ({len(cc)} cells, {len(exp_cells)} expected)"})
        else:
            cell_keep = None
        for a, b in zip(src.get("children", []), cp.get("children", [])):
            av, bv = a["attrs"].get("values"), b["attrs"].get("values")
            assoc = (a["attrs"].get("association") or {}).get("enum")
            if isinstance(av, list) and assoc in ("VERTEX", "CELL"):
                km = keep if assoc == "VERTEX" else cell_keep
                if km is None or len(km) != len(av):
                    continue
                exp = [x for x, k in zip(av, km) if k]
                if "getter-raised" in json.dumps(bv):
                    fails.append({"key": "empty-values-unreadable", "what": f"{path}/{a['attrs'].get('name')}: values of the masked copy cannot be read ({bv}); {len(exp)} values expected"})
                elif _norm(bv) != _norm(exp):
                    fails.append({"key": "masked-values", "what": f"{path}/{a['attrs'].get('name')}: values of the masked copy are not the kept values"})
            elif _first_diff(av, bv):
                fails.append({"key": "masked-values", "what": f"{path}/{a['attrs'].get('name')}: object-association values changed by the mask"})
    elif geo == "GGrid":
        keep = [bool(b) for b in mask]
        for a, b in zip(src.get("children", []), cp.get("children", [])):
            av, bv = a["attrs"].get("values"), b["attrs"].get("values")
            if isinstance(av, list) and len(av) == len(keep) and isinstance(bv, list) and len(bv) == len(av):
                kind = a["cls"]
                for x, y, k in zip(av, bv, keep):
                    if k and _norm(x) != _norm(y):
                        fails.append({"key": "masked-values", "what": f"{path}/{a['attrs'].get('name')}: a kept value changed"})
                        break
                    if not k and kind == "FloatData" and y is not None:
                        fails.append({"key": "masked-values", "what": f"{path}/{a['attrs'].get('name')}: a masked-out value is not no-data"})
                        break


def _walk_cmp(src, cp, mapping, case, path, fails, mask, top=True, cell_mask=None):
    if top and mask is not None and _kind_of(src["cls"]) == "KData":
        # Data.copy(mask=...): "array of bool defining the values to keep" - the others are dropped or become no-data
        _cmp_nodes(src, cp, mapping, case, path, fails, True, top)
        av, bv = src["attrs"].get("values"), cp["attrs"].get("values")
        if isinstance(av, list) and len(av) == len(mask):
            comp = [x for x, k in zip(av, mask) if k]
            blank = [x if k else None for x, k in zip(av, mask)]
            nd = {"IntegerData": -2147483648, "ReferencedData": 0, "BooleanData": 0}.get(src["cls"])
            blank2 = [x if k else nd for x, k in zip(av, mask)]
            blank3 = [x if k else -2147483648 for x, k in zip(av, mask)]
            if "getter-raised" in json.dumps(bv):
                fails.append({"key": "empty-values-unreadable", "what": f"values of the masked data copy cannot be read ({bv})"})
            elif _norm(bv) not in (_norm(comp), _norm(blank), _norm(blank2), _norm(blank3)):
                fails.append({"key": "masked-values", "what": f"masked data copy holds {bv}, source {av}, mask {mask}"})
        return
    masked = mask is not None and _kind_of(src["cls"]) == "KObject" and GEO.get(src["cls"]) in ("GPoints", "GCells", "GCurve", "GGrid")
    if top and cell_mask is not None and _kind_of(src["cls"]) == "KObject" and GEO.get(src["cls"]) in ("GCells", "GCurve"):
        masked = True
    else:
        cell_mask = None
    _cmp_nodes(src, cp, mapping, case, path, fails, masked, top)
    if masked:
        _mask_expect(src, cp, mask, fails, path, cell_mask)
    sk, ck = src.get("children", []), cp.get("children", [])
    if not case["opts"]["copy_children"] and top and "pick" not in case["src"]:
        if ck or cp.get("pgs"):
            fails.append({"key": "copy-children-despite-option", "what": f"{path}: copy_children=False but the copy has children"})
        return
    if len(sk) != len(ck):
        fails.append({"key": "copy-children-count", "what": f"{path} ({src['cls']}): {len(sk)} children, copy has {len(ck)}"})
        return
    for i, (a, b) in enumerate(zip(sk, ck)):
        cm = mask
        if _kind_of(src["cls"]) == "KObject":
            cm = None  # data below a masked object is checked by _mask_expect
            if masked:
                _cmp_nodes(a, b, mapping, case, path + "/%d" % i, fails, True, False)
                continue
        _walk_cmp(a, b, mapping, case, path + "/%d" % i, fails, cm, False)
    # property groups reference the copied children
    sp, cpg = src.get("pgs") or [], cp.get("pgs") or []
    if len(sp) != len(cpg):
        fails.append({"key": "copy-property-group-count", "what": f"{path}: {len(sp)} property groups, copy has {len(cpg)}"})
        return
    for g, h in zip(sp, cpg):
        if (g["name"], g["association"], g["pgtype"]) != (h["name"], h["association"], h["pgtype"]):
            fails.append({"key": "copy-property-group-attrs", "what": f"{path}: property group {g['name']} copied as {h['name']}"})
        want = [mapping.get(u, u) for u in (g["props"] or [])]
        if want != (h["props"] or []):
            fails.append({"key": "copy-property-group-members", "what": f"{path}: property group {g['name']} of the copy does not list the copies of the source members"})


def _only_metadata_differs(a, b):
    """paths where two snapshot trees differ, reduced to attribute names"""
    out = set()

    def rec(x, y):
        for k in sorted(set(x["attrs"]) | set(y["attrs"])):
            if _first_diff(x["attrs"].get(k), y["attrs"].get(k)):
                out.add(k)
        for f in ("cls", "uid", "type", "pgs", "child_uids", "parent"):
            if _first_diff(x.get(f), y.get(f)):
                out.add("#" + f)
        if len(x.get("children", [])) != len(y.get("children", [])):
            out.add("#children")
        else:
            for p, q in zip(x.get("children", []), y.get("children", [])):
                rec(p, q)
    rec(a, b)
    return out


def _mask_fits(node, mask):
    """does the mask have the shape the copied entity expects (vertices; cells for grids; values for data)?"""
    k = _kind_of(node["cls"])
    if k == "KGroup":
        return False  # a group passes the mask to every object below it: some may not fit
    if k == "KData":
        v = node["attrs"].get("values")
        return isinstance(v, list) and len(v) == len(mask)
    geo = GEO.get(node["cls"], "GPlain")
    if geo == "GGrid":
        return node.get("nc") == len(mask)
    if geo == "GPlain":
        return True
    return (node.get("nv") or 0) == len(mask)


def _has_curve(n):
    return GEO.get(n["cls"]) == "GCurve" or any(_has_curve(c) for c in n.get("children", []))


def _drop_ids(n):
    m = {k: v for k, v in n.items() if k not in ("meta_id", "children")}
    m["children"] = [_drop_ids(c) for c in n.get("children", [])]
    return m


STRUCTURAL = ("replace_longer", "remove", "add", "rename", "removehole")


def oracle_dh(case, obs):
    """drillhole group: the copy reproduces every hole with its data; the source (live, first read after the copy was edited,
    and its file after ordinary follow-up work) is what it was; the copy's file holds the edited copy."""
    fails = []
    spec = case["dh"]
    ref = obs.get("reference") or {}
    if obs.get("copy_error"):
        return [{"key": "dh-copy-refused", "what": f"copy of {spec['cls']} raised {obs['copy_error']}"}]
    cross = spec["target"] == "ws"
    shared_known = cross and spec["edit"] in STRUCTURAL   # the cross-workspace fast path shares the attribute records (open finding)

    def bad(tag):
        v = obs.get(tag)
        return isinstance(v, dict) and "raised" in v
    if obs.get("copy_cls") != "Concatenator" + spec["cls"] and obs.get("copy_cls") != spec["cls"]:
        fails.append({"key": "copy-class-differs", "what": f"{spec['cls']} copied as {obs.get('copy_cls')}"})
    if obs.get("copy_others") != obs.get("ref_others"):
        fails.append({"key": "dh-copy-other-children", "what": f"non-drillhole children of the group {obs.get('ref_others')} copied as {obs.get('copy_others')}"})
    if bad("copy_read") or obs.get("copy_read") != ref:
        fails.append({"key": "dh-copy-differs", "what": f"the copy does not reproduce the holes and their data: {str(obs.get('copy_read'))[:200]}"})
    if bad("edit"):
        fails.append({"key": "dh-shared-attribute-records" if shared_known else "dh-copy-edit-refused",
                      "what": f"edit '{spec['edit']}' of the copy raised {obs['edit']}"})
    k = min(spec["which"], len(spec["holes"]) - 1)
    # the source, read after the copy was edited
    if bad("src_live") or obs.get("src_live") != ref:
        key = "dh-shared-attribute-records" if shared_known else "dh-copy-edit-changes-source"
        fails.append({"key": key, "what": f"after edit '{spec['edit']}' of the copy (hole {k}) the source reads {str(obs.get('src_live'))[:240]}"})
    last = "h%d" % (len(spec["holes"]) - 1)
    exp_src = json.loads(json.dumps(ref))
    if obs.get("follow_up") == "ok" and last in exp_src:
        exp_src[last]["assay"] = [7 + i for i in range(spec["holes"][-1])]
    elif bad("follow_up"):
        fails.append({"key": "dh-shared-attribute-records" if shared_known else "dh-source-edit-refused-after-copy",
                      "what": f"editing the source after the copy raised {obs['follow_up']}"})
    if bad("src_file") or obs.get("src_file") != exp_src:
        key = "dh-shared-attribute-records" if shared_known else "dh-source-file-changed"
        fails.append({"key": key, "what": f"after edit '{spec['edit']}' of the copy the source file holds {str(obs.get('src_file'))[:240]}"})
    if not bad("edit") and not bad("copy_after") and (bad("copy_file") or obs.get("copy_file") != obs.get("copy_after")):
        key = "dh-shared-attribute-records" if shared_known else "dh-copy-file-differs"
        fails.append({"key": key, "what": f"the copy's file {str(obs.get('copy_file'))[:160]} differs from the live copy {str(obs.get('copy_after'))[:160]}"})
    seen, out = set(), []
    for f in fails:
        if f["key"] not in seen:
            seen.add(f["key"])
            out.append(f)
    return out


def oracle(case, obs):
    fails = []
    if "crash" in obs:
        return [{"key": "driver-crash", "what": str(obs["crash"])[:300] + " " + str(obs.get("tb", ""))[-300:]}]
    if "dh" in case:
        return oracle_dh(case, obs)
    if case.get("inventory"):
        inv = obs["inventory"]
        missing = (set(inv["objects"]) - set(S.ALL_OBJECTS)) | (set(inv["groups"]) - set(S.ALL_GROUPS)) | (set(inv["data"]) - set(S.DATA_KINDS) - set(S.UNINSTANTIABLE))
        if missing:
            fails.append({"key": "class-not-covered", "what": f"entity classes without a builder in the C12 catalogue: {sorted(missing)}"})
        return fails
    src0 = _drop_ids(obs["src_reloaded"])
    target = case["target"]
    if obs["error"] == "RecursionError":
        key = "group-copy-into-itself-recursion" if target == "self" else "copy-refused:RecursionError"
        fails.append({"key": key, "what": f"copying {obs['src_cls']} to target '{target}' ended in RecursionError"})
        if _first_diff(_drop_ids(obs["by_before"]), _drop_ids(obs["by_after"])):
            fails.append({"key": "bystander-changed-by-copy", "what": "an unrelated entity changed during the copy"})
        return fails
    mask = case["opts"]["mask"]
    if obs["error"] is not None:
        expected = False
        if target == "self":
            fails.append({"key": "group-copy-into-itself-recursion", "what": f"copying a group into itself raised {obs['error']}"})
            expected = True
        if mask is not None and obs["error"] in ("ValueError", "TypeError") and not _mask_fits(obs["src_reloaded"], mask):
            expected = True  # a mask whose shape does not fit the copied entity (or some object below a copied group) is refused
        cmk_ = case["opts"].get("cell_mask")
        if cmk_ is not None and obs["error"] == "IndexError" and GEO.get(obs["src_reloaded"]["cls"]) in ("GCells", "GCurve") \
                and len(cmk_) != len(obs["src_reloaded"]["attrs"].get("cells") or []):
            expected = True  # a cell mask that does not have one entry per cell is refused
        if not expected:
            fails.append({"key": "copy-refused:" + obs["error"], "what": f"copy of {obs['src_cls']} to {target} raised {obs['error']}: {obs.get('msg')}"})
    # source and bystanders untouched by the copy itself
    curve_clear = case["opts"]["clear_cache"] and _has_curve(obs["src_reloaded"])
    if obs.get("src_after") is not None and _first_diff(src0, _drop_ids(obs["src_after"])):
        dd = _only_metadata_differs(src0, _drop_ids(obs["src_after"]))
        key = "curve-clear-cache-regenerates-source-cells" if dd and dd <= {"cells", "values"} and curve_clear else "source-changed-by-copy:" + ",".join(sorted(dd))
        fails.append({"key": key, "what": "source subtree differs after copy at " + str(_first_diff(src0, _drop_ids(obs["src_after"])))})
    if _first_diff(_drop_ids(obs["by_before"]), _drop_ids(obs["by_after"])):
        fails.append({"key": "bystander-changed-by-copy", "what": "an unrelated entity changed during the copy"})
    if obs["error"] is None and "copy" not in obs:
        key = "custom-group-copy-returns-none" if obs["src_cls"] == "CustomGroup" else "copy-returned-none"
        fails.append({"key": key, "what": f"copy of {obs['src_cls']} to {target} returned None: nothing was copied"})
    elif obs["error"] is None:
        cp = obs["copy"]
        mapping = _uid_map(obs["src_reloaded"], cp, {})
        _walk_cmp(obs["src_reloaded"], cp, mapping, case, "", fails, mask, True, case["opts"].get("cell_mask"))
        if not obs["copy_parent_is_target"]:
            fails.append({"key": "copy-parent", "what": "the copy is not a child of the requested parent"})
        if not obs["uids_unique"]:
            fails.append({"key": "copy-duplicate-uid", "what": "the target workspace holds two entities with one uid after the copy"})
        pb, pa_ = obs["parent_before"], obs["parent_after"]
        if pa_["child_uids"][: len(pb["child_uids"])] != pb["child_uids"] or len(pa_["child_uids"]) != len(pb["child_uids"]) + 1 or pa_["child_uids"][-1] != cp["uid"]:
            if not (target == "same" and False):
                fails.append({"key": "target-parent-children", "what": "the target parent did not gain exactly the copy as a new last child"})
        # later edits of the copy do not show through in the source
        d = _only_metadata_differs(_drop_ids(obs["src_after"]), _drop_ids(obs["src_edited"]))
        if d:
            if d == {"metadata"} and obs.get("meta_shared_paths"):
                fails.append({"key": "copy-shares-metadata-dict", "what": "copy.metadata = {...} changed the source's metadata: the copy holds the same dict object as its source (paths %s)" % obs["meta_shared_paths"][:3]})
            else:
                fails.append({"key": "source-changed-by-copy-edit:" + ",".join(sorted(d)), "what": f"editing the copy changed the source: {sorted(d)}"})
        if _first_diff(_drop_ids(obs["by_before"]), _drop_ids(obs["by_edited"])):
            fails.append({"key": "bystander-changed-by-copy-edit", "what": "an unrelated entity changed when the copy was edited"})
        d2 = _only_metadata_differs(_drop_ids(obs["src_edited"]), _drop_ids(obs["src_api"]))
        if d2:
            fails.append({"key": "source-changed-by-copy-api:" + ",".join(sorted(d2)), "what": f"API calls on the copy ({obs.get('api_log')}) changed the source: {sorted(d2)}"})
        if any(str(x).startswith("raised") for x in obs.get("edit_log", [])):
            bad = [x for x in obs["edit_log"] if str(x).startswith("raised")]
            fails.append({"key": "copy-edit-refused", "what": f"a setter of the copy raised: {bad[:3]}"})
        renamed = any(e["op"] == "attr" and e["attr"] == "name" and e["path"] == [] for e in case.get("edits", []))
        if obs.get("copy_reopened_cls") != cp["cls"] and not (cp["cls"] in ("CommentsData", "VisualParameters") and renamed):
            fails.append({"key": "copy-not-stored", "what": f"after re-open the copy resolves to {obs.get('copy_reopened_cls')}, live class {cp['cls']}"})
    # the source file
    if obs.get("digest_before") != obs.get("digest_after"):
        key = "curve-clear-cache-regenerates-source-cells" if curve_clear else "source-file-changed"
        fails.append({"key": key, "what": "per-node digests of the source entities in the file changed"})
    if obs.get("src_reopened") is None or _first_diff(src0, _drop_ids(obs["src_reopened"])):
        dd = _only_metadata_differs(src0, _drop_ids(obs["src_reopened"])) if obs.get("src_reopened") else {"missing"}
        key = "curve-clear-cache-regenerates-source-cells" if dd and dd <= {"cells", "values"} and curve_clear else "source-differs-after-reopen:" + ",".join(sorted(dd))
        fails.append({"key": key, "what": "source read back from the file differs at " + str(_first_diff(src0, _drop_ids(obs["src_reopened"])) if obs.get("src_reopened") else "missing")})
    return fails


def nontrivial(case, obs):
    if case.get("inventory"):
        return False
    if "dh" in case:
        return True
    s = case["src"]
    return bool(s.get("children") or s.get("data") or case["opts"]["mask"] or case["opts"].get("cell_mask") or case.get("prefill") or case.get("edits"))


def histogram(cases, obs):
    h = {"root_class": {}, "target": {}, "mask": 0, "no_children": 0, "omit_meta": 0, "rename": 0, "prefill": 0, "edits": {}, "outcome": {},
         "alias_paths": 0, "max_depth": {}}
    h["drillhole_group_cases"] = {}
    for c, o in zip(cases, obs):
        if c.get("inventory"):
            continue
        if "dh" in c:
            kk = c["dh"]["target"] + ":" + c["dh"]["edit"]
            h["drillhole_group_cases"][kk] = h["drillhole_group_cases"].get(kk, 0) + 1
            continue
        cls = c["src"]["cls"] if "pick" not in c["src"] else c["src"]["data"][c["src"]["pick"]]["kind"]
        h["root_class"][cls] = h["root_class"].get(cls, 0) + 1
        h["target"][c["target"]] = h["target"].get(c["target"], 0) + 1
        op = c["opts"]
        h["mask"] += op["mask"] is not None
        h["cell_mask"] = h.get("cell_mask", 0) + (op.get("cell_mask") is not None)
        h["no_children"] += not op["copy_children"]
        h["omit_meta"] += bool(op["omit_meta"])
        h["rename"] += op["name"] is not None
        h["prefill"] += bool(c.get("prefill"))
        for e in c.get("edits", []):
            h["edits"][e["op"]] = h["edits"].get(e["op"], 0) + 1
        oc = "crash" if "crash" in o else (o.get("error") or "ok")
        h["outcome"][oc] = h["outcome"].get(oc, 0) + 1
        h["alias_paths"] += len(o.get("meta_shared_paths") or [])

        def depth(s):
            return 1 + max([depth(x) for x in s.get("children", [])] + [1 if s.get("data") else 0])
        dk = str(depth(c["src"]))
        h["max_depth"][dk] = h["max_depth"].get(dk, 0) + 1
    return h
