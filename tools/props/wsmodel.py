"""Shared history generator / driver / Coq emitters / raw-file tools for the workspace-file model (C01, C02, C09).

History = list of ops over model keys (kind, n); kind in "G" (ContainerGroup), "O" (Points), "D" (FloatData on vertices).
Root is ("G", 0).  Entity n is created with the explicit identifier uuid.UUID(int=n+1), so that the model and the
implementation name entities identically and identifier re-use can be forced on purpose.
"""
from __future__ import annotations

import hashlib

from vlib.common import cN, cbool, clist

KINDS = {"G": "KG", "O": "KO", "D": "KD"}
CONT = {"G": "Groups", "O": "Objects", "D": "Data"}
CONT_INV = {v: k for k, v in CONT.items()}


# ----------------------------------------------------------------------------- generation
class Shadow:
    """A light mirror of the tree used only to generate mostly-valid operands (NOT the Coq model)."""

    def __init__(self):
        self.par = {("G", 0): None}
        self.kids = {("G", 0): []}
        self.dele = {("G", 0): True}
        self.removed = []  # keys removed (candidates for identifier re-use)
        self.tainted = set()  # keys whose fate a raised removal left to the code: never re-used, never operands
        self.next = 1

    def live(self, kinds="GOD"):
        return [k for k in self.par if k[0] in kinds]

    def subtree(self, k):
        out = [k]
        for c in self.kids.get(k, []):
            out += self.subtree(c)
        return out

    def drop(self, k):
        for x in self.subtree(k):
            self.removed.append(x)
            p = self.par.pop(x)
            self.kids.pop(x, None)
            self.dele.pop(x, None)
        # detach from parent list
        for lst in self.kids.values():
            if k in lst:
                lst.remove(k)


def gen_history(rng, length, opts=None):
    opts = opts or {}
    sh = Shadow()
    ops = []
    tok = [10]

    def newtok():
        tok[0] += 1
        return tok[0]

    def create(kind=None, parent=None, reuse=False):
        kind = kind or rng.weighted([("G", 30), ("O", 35), ("D", 35)])
        if kind == "D":
            cands = sh.live("O")
        else:
            cands = sh.live("G")
        if not cands:
            kind, cands = "G", sh.live("G")
        p = parent if parent is not None else rng.choice(cands)
        n = None
        if reuse:
            old = [k for k in sh.removed if k[0] == kind and k not in sh.par and k not in sh.tainted]
            if old:
                n = rng.choice(old)[1]
        if n is None:
            n = sh.next
            sh.next += 1
        k = (kind, n)
        if k in sh.par:
            return
        sh.par[k] = p
        sh.kids[k] = []
        sh.kids[p].append(k)
        sh.dele[k] = True
        ops.append({"op": "create", "kind": kind, "n": n, "parent": list(p), "name": newtok(), "arr": newtok() if kind != "G" else 0})

    # seed a small tree so that later ops have operands
    create("G", ("G", 0))
    create("O")
    for _ in range(rng.range(1, 4)):
        create("D")
    while len(ops) < length:
        w = rng.weighted([("create", 22), ("name", 9), ("del", 6), ("arr", 9), ("move", 10), ("rm_ws", 12),
                          ("rm_parent", 10), ("sweep", 8), ("reopen", 7), ("reuse", 7), ("dup", 4)])
        nonroot = [k for k in sh.live() if k != ("G", 0)]
        if w == "create":
            create()
        elif w == "dup":
            # a creation under the identifier of a LIVE entity of the same kind: the code refuses it (RuntimeError "already
            # used"), the model answers Refused; neither may change anything (under the same parent or another one)
            c = [k for k in nonroot if k not in sh.tainted]
            if c:
                k = rng.choice(c)
                ps = sh.live("O") if k[0] == "D" else sh.live("G")
                ps = [q for q in ps if q not in sh.tainted and q not in sh.subtree(k)]
                p = sh.par[k] if rng.chance(55) or not ps else rng.choice(ps)
                ops.append({"op": "create", "kind": k[0], "n": k[1], "parent": list(p), "name": newtok(),
                            "arr": newtok() if k[0] != "G" else 0, "dup": True})
        elif w == "reuse":
            create(reuse=True)
        elif w == "name" and nonroot:
            ops.append({"op": "set_name", "e": list(rng.choice(nonroot)), "v": newtok()})
        elif w == "del" and nonroot:
            e = rng.choice(nonroot)
            b = rng.chance(40)
            sh.dele[e] = b
            ops.append({"op": "set_del", "e": list(e), "v": b})
        elif w == "arr":
            c = [k for k in nonroot if k[0] != "G"]
            if c:
                ops.append({"op": "set_arr", "e": list(rng.choice(c)), "v": newtok()})
        elif w == "move":
            c = [k for k in nonroot if k[0] in "GO"]
            if c:
                e = rng.choice(c)
                qs = [q for q in sh.live("G") if q not in sh.subtree(e) and q != sh.par[e]]
                if qs:
                    q = rng.choice(qs)
                    sh.kids[sh.par[e]].remove(e)
                    sh.par[e] = q
                    sh.kids[q].append(e)
                    ops.append({"op": "move", "e": list(e), "q": list(q)})
        elif w == "rm_ws" and nonroot:
            e = rng.choice(nonroot)
            ops.append({"op": "rm_ws", "e": list(e)})
            # shadow: mirror only when everything in the subtree is deletable; otherwise the partial effect is left to
            # the model/implementation and the shadow is resynchronised conservatively by forgetting the subtree
            # a tainted node in the subtree may still hide a protected descendant (its shadow children were forgotten), so
            # the removal may be refused again: stay conservative there too (thorough run 2, case 214: rm_ws of the
            # grand-parent of a protected data was assumed to succeed and its identifier was re-used while still live)
            clean = all(sh.dele.get(x, True) and x not in sh.tainted for x in sh.subtree(e))
            sh.drop(e) if clean else _partial(sh, e)
        elif w == "rm_parent" and nonroot:
            e = rng.choice(nonroot)
            ops.append({"op": "rm_parent", "e": list(e)})
            sh.drop(e)
        elif w == "sweep":
            ops.append({"op": "sweep", "kind": rng.choice("GOD")})
        elif w == "reopen":
            ops.append({"op": "reopen"})
    if opts.get("final_sweeps", rng.chance(50)):
        for k in rng.shuffle(list("GOD")):
            ops.append({"op": "sweep", "kind": k})
    ops.append({"op": "reopen"})
    return ops


def _partial(sh, e):
    """remove_entity raised part-way: which children went is decided by the code; stop using that subtree as operands."""
    for x in sh.subtree(e):
        sh.tainted.add(x)
        if x != e:
            sh.par.pop(x, None)
            sh.kids.pop(x, None)
            sh.dele.pop(x, None)
    sh.kids[e] = []


# ----------------------------------------------------------------------------- implementation driver
def _uuid(n):
    import uuid

    return uuid.UUID(int=n + 1)


def _arr_vertices(tok):
    import numpy as np

    return np.array([[float(tok), 0.0, 0.0], [float(tok), 1.0, 0.0]])


def _arr_values(tok):
    import numpy as np

    return np.array([float(tok), float(tok) + 0.5])


class Impl:
    """Runs a history on the real geoh5py; keeps strong references only to entities reachable from the root."""

    def __init__(self, path):
        from geoh5py import Workspace

        self.path = path
        self.ws = Workspace.create(path)
        self.root_uid = self.ws.root.uid
        self.validations = []  # one structural validation per close

    # -- naming
    def key_of(self, ent):
        from geoh5py.data import Data
        from geoh5py.groups import Group
        from geoh5py.objects import ObjectBase

        if ent.uid == self.root_uid:
            return ["G", 0]
        kind = "D" if isinstance(ent, Data) else "O" if isinstance(ent, ObjectBase) else "G" if isinstance(ent, Group) else "?"
        n = ent.uid.int - 1
        return [kind, n if 0 < n < 10**9 else -1]

    def key_of_uidstr(self, cont, s):
        import uuid

        u = uuid.UUID(s)
        if u == self.root_uid:
            return ["G", 0]
        n = u.int - 1
        return [CONT_INV.get(cont, "?"), n if 0 < n < 10**9 else -1]

    def find(self, key):
        """Entity with this model key, searched from the root (entities outside the tree are not operands)."""
        key = list(key)
        stack = [self.ws.root]
        while stack:
            e = stack.pop()
            if self.key_of(e) == key:
                return e
            stack.extend(c for c in getattr(e, "children", []) if hasattr(c, "entity_type"))
        return None

    # -- ops
    def apply(self, op):
        import gc

        from geoh5py.groups import ContainerGroup
        from geoh5py.objects import Points

        ws = self.ws
        o = op["op"]
        try:
            if o == "create":
                p = self.find(op["parent"])
                if p is None:
                    return "refused"
                name = f"n{op['name']}"
                try:
                    if op["kind"] == "G":
                        ContainerGroup.create(ws, uid=_uuid(op["n"]), name=name, parent=p)
                    elif op["kind"] == "O":
                        Points.create(ws, uid=_uuid(op["n"]), name=name, parent=p, vertices=_arr_vertices(op["arr"]))
                    else:
                        p.add_data({name: {"values": _arr_values(op["arr"]), "uid": _uuid(op["n"])}})
                except RuntimeError as e:
                    if op.get("dup") and "already used" in str(e):
                        del p, e
                        gc.collect()
                        return "refused"   # Workspace.register refused the duplicate identifier
                    raise
                del p
            elif o in ("set_name", "set_del", "set_arr"):
                e = self.find(op["e"])
                if e is None:
                    return "refused"
                if o == "set_name":
                    e.name = f"n{op['v']}"
                elif o == "set_del":
                    e.allow_delete = bool(op["v"])
                elif op["e"][0] == "O":
                    e.vertices = _arr_vertices(op["v"])
                else:
                    e.values = _arr_values(op["v"])
                del e
            elif o == "move":
                e, q = self.find(op["e"]), self.find(op["q"])
                if e is None or q is None:
                    return "refused"
                e.parent = q
                del e, q
            elif o == "rm_ws":
                e = self.find(op["e"])
                if e is None:
                    return "refused"
                try:
                    ws.remove_entity(e)
                except UserWarning:
                    del e
                    gc.collect()
                    return "raised"
                del e
            elif o == "rm_parent":
                e = self.find(op["e"])
                if e is None:
                    return "refused"
                e.parent.remove_children([e])
                del e
            elif o == "sweep":
                _ = {"G": lambda: ws.groups, "O": lambda: ws.objects, "D": lambda: ws.data}[op["kind"]]()
                del _
            elif o == "reopen":
                from geoh5py import Workspace

                ws.close()
                self.ws = None
                del ws
                gc.collect()
                self.validations.append(validate_geoh5(self.path))
                self.ws = Workspace(self.path)
            else:
                raise ValueError(o)
        finally:
            gc.collect()
        return "done"

    # -- observations
    def dump_mem(self):
        rows = []

        def arr_of(e, kind):
            import numpy as np

            if kind == "O":
                v = e.vertices
                return int(v[0][0]) if v is not None and len(v) else -1
            if kind == "D":
                v = e.values
                return int(np.asarray(v).ravel()[0]) if v is not None and len(v) else -1
            return 0

        def name_of(s):
            return int(s[1:]) if isinstance(s, str) and s.startswith("n") and s[1:].isdigit() else (0 if s == "Workspace" else -1)

        def walk(e, pkey):
            k = self.key_of(e)
            kids = [c for c in getattr(e, "children", []) if hasattr(c, "entity_type")]
            rows.append({"key": k, "name": name_of(e.name) if k != ["G", 0] else 0, "del": bool(e.allow_delete) if k != ["G", 0] else True,
                         "arr": arr_of(e, k[0]), "parent": pkey, "kids": [self.key_of(c) for c in kids]})
            for c in kids:
                walk(c, k)

        walk(self.ws.root, ["G", 0])
        return rows

    def dump_file(self, f=None):
        return dump_file_handle(f if f is not None else self.ws.geoh5, self)


def _addr(obj):
    import h5py

    return h5py.h5o.get_info(obj.id).addr


def dump_file_handle(f, namer):
    proj = f[list(f)[0]]
    nodes = []
    for cont in ("Groups", "Objects", "Data"):
        if cont not in proj:
            continue
        for us in proj[cont]:
            node = proj[cont][us]
            key = namer.key_of_uidstr(cont, us)
            nm = node.attrs.get("Name", None)
            if isinstance(nm, bytes):
                nm = nm.decode()
            name = int(nm[1:]) if isinstance(nm, str) and nm.startswith("n") and nm[1:].isdigit() else (0 if key == ["G", 0] else -1)
            arr = 0
            try:
                if cont == "Objects" and "Vertices" in node:
                    arr = int(node["Vertices"][0][0])
                elif cont == "Data" and "Data" in node:
                    arr = int(node["Data"][0])
            except Exception:  # noqa: BLE001
                arr = -1
            links = []
            for sub in ("Data", "Groups", "Objects"):
                if sub in node and not hasattr(node[sub], "shape"):
                    for cu in node[sub]:
                        ck = namer.key_of_uidstr(sub, cu)
                        same = None
                        if sub in proj and cu in proj[sub]:
                            same = _addr(node[sub][cu]) == _addr(proj[sub][cu])
                        links.append([ck, same])
            nodes.append({"key": key, "name": name, "del": bool(node.attrs.get("Allow delete", 1)) if key != ["G", 0] else True, "arr": arr, "links": links})
    root = None
    if "Root" in proj:
        rid = proj["Root"].attrs.get("ID")
        if isinstance(rid, bytes):
            rid = rid.decode()
        rk = namer.key_of_uidstr("Groups", rid)
        same = None
        if "Groups" in proj and rid in proj["Groups"]:
            same = _addr(proj["Root"]) == _addr(proj["Groups"][rid])
        root = [rk, same]
    return {"nodes": nodes, "root": root}


def node_digests(f):
    """Per stored node (entities, types, project header): digest of attributes, datasets and link names -> C09."""
    import numpy as np

    proj = f[list(f)[0]]
    out = {}

    def dig(node, with_links=True):
        h = hashlib.sha256()
        for k in sorted(node.attrs):
            v = node.attrs[k]
            h.update(repr((k, np.asarray(v).tolist() if hasattr(v, "tolist") or isinstance(v, (list, tuple)) else v)).encode())
        for name in sorted(node):
            item = node.get(name, getlink=True)
            obj = node[name]
            if hasattr(obj, "shape"):
                h.update(name.encode())
                h.update(repr(obj.dtype).encode())
                h.update(np.asarray(obj[()]).tobytes() if obj.dtype.kind not in "OSUV" else repr(obj[()].tolist() if hasattr(obj[()], "tolist") else obj[()]).encode())
                for k in sorted(obj.attrs):
                    h.update(repr((k, obj.attrs[k])).encode())
            elif with_links:
                if name == "Type":
                    h.update(b"Type->" + str(obj.attrs.get("ID")).encode())
                elif name == "PropertyGroups":
                    for pg in sorted(obj):
                        h.update(pg.encode())
                        for k in sorted(obj[pg].attrs):
                            h.update(repr((k, np.asarray(obj[pg].attrs[k]).tolist())).encode())
        return h.hexdigest()

    def links(node):
        out = []
        for sub in ("Data", "Groups", "Objects"):
            if sub in node and not hasattr(node[sub], "shape"):
                out += [(sub, cu, _addr(node[sub][cu])) for cu in node[sub]]
        return sorted(out)

    hh = hashlib.sha256()
    for k in sorted(proj.attrs):
        hh.update(repr((k, np.asarray(proj.attrs[k]).tolist())).encode())
    out["header"] = {"content": hh.hexdigest(), "links": []}
    for cont in ("Groups", "Objects", "Data"):
        if cont in proj:
            for us in proj[cont]:
                out[f"{cont}/{us}"] = {"content": dig(proj[cont][us]), "links": links(proj[cont][us]), "addr": _addr(proj[cont][us])}
    if "Types" in proj:
        for tc in proj["Types"]:
            for us in proj["Types"][tc]:
                out[f"Types/{tc}/{us}"] = {"content": dig(proj["Types"][tc][us], with_links=False), "links": [], "addr": _addr(proj["Types"][tc][us])}
    return out


def validate_geoh5(path):
    """Independent structural validator of a closed geoh5 file (C02 oracle), written from the format description.
    Returns a list of {"key", "what"}; keys name the clause that fails."""
    import h5py

    fails = []
    with h5py.File(path, "r") as f:
        tops = list(f)
        if len(tops) != 1:
            return [{"key": "project-group", "what": f"{len(tops)} top-level groups"}]
        proj = f[tops[0]]
        for c in ("Data", "Groups", "Objects", "Types"):
            if c not in proj:
                fails.append({"key": "container-missing", "what": c})
        if "Root" not in proj:
            return fails + [{"key": "root-missing", "what": "no Root link"}]
        flat = {}
        for cont in ("Groups", "Objects", "Data"):
            for us in proj.get(cont, {}):
                node = proj[cont][us]
                if us in flat:
                    fails.append({"key": "identifier-twice", "what": f"{us} in {flat[us][0]} and {cont}"})
                flat[us] = (cont, node)
        rootid = proj["Root"].attrs.get("ID")
        rootid = rootid.decode() if isinstance(rootid, bytes) else rootid
        if rootid not in proj.get("Groups", {}) or _addr(proj["Groups"][rootid]) != _addr(proj["Root"]):
            fails.append({"key": "root-link", "what": "Root is not a hard link to a node of the Groups container"})
        # reachability and single parent
        reach = set()
        stack = [rootid]
        while stack:
            u = stack.pop()
            if u in reach or u not in flat:
                continue
            reach.add(u)
            node = flat[u][1]
            for sub in ("Data", "Groups", "Objects"):
                if sub in node and not hasattr(node[sub], "shape"):
                    stack.extend(node[sub])
        parents = {}
        for us, (cont, node) in flat.items():
            if us not in reach:
                continue  # an unreachable node is reported once as an orphan; its links do not make it anybody's parent
            for sub in ("Data", "Groups", "Objects"):
                if sub in node and not hasattr(node[sub], "shape"):
                    for cu in node[sub]:
                        if cu not in proj.get(sub, {}):
                            fails.append({"key": "child-link-dangling", "what": f"{cont}/{us}/{sub}/{cu} has no flat entry", "node": f"{cont}/{us}"})
                        elif _addr(proj[sub][cu]) != _addr(node[sub][cu]):
                            fails.append({"key": "child-link-not-hard-link", "what": f"{cont}/{us}/{sub}/{cu} is not the flat node", "node": f"{cont}/{us}"})
                        parents.setdefault(cu, []).append(us)
            if "PropertyGroups" in node:
                kids = set(node["Data"]) if "Data" in node else set()
                for pg in node["PropertyGroups"]:
                    props = node["PropertyGroups"][pg].attrs.get("Properties", [])
                    for pu in list(props):
                        pu = pu.decode() if isinstance(pu, bytes) else str(pu)
                        if pu not in kids:
                            fails.append({"key": "property-group-foreign-data", "what": f"{cont}/{us} group {pg} lists {pu}"})
        for us, (cont, node) in flat.items():
            if us != rootid and us not in reach:
                # an unreachable node is reported once, as an orphan; its own attributes/links are not examined further
                fails.append({"key": "orphan-" + cont.lower(), "what": f"{cont}/{us} is not reachable from Root ({len(parents.get(us, []))} parent links)", "node": f"{cont}/{us}"})
                continue
            idv = node.attrs.get("ID")
            idv = idv.decode() if isinstance(idv, bytes) else idv
            if idv != us:
                fails.append({"key": "id-mismatch", "what": f"{cont}/{us} has ID {idv}", "node": f"{cont}/{us}"})
            if "Type" not in node:
                fails.append({"key": "type-link-missing", "what": f"{cont}/{us}", "node": f"{cont}/{us}"})
            else:
                tid = node["Type"].attrs.get("ID")
                tid = tid.decode() if isinstance(tid, bytes) else tid
                tcont = {"Groups": "Group types", "Objects": "Object types", "Data": "Data types"}[cont]
                if "Types" not in proj or tcont not in proj["Types"] or tid not in proj["Types"][tcont]:
                    fails.append({"key": "type-not-shared", "what": f"{cont}/{us} Type {tid} is not under Types/{tcont}", "node": f"{cont}/{us}"})
                elif _addr(proj["Types"][tcont][tid]) != _addr(node["Type"]):
                    fails.append({"key": "type-not-shared", "what": f"{cont}/{us} Type link is not the node under Types/{tcont}/{tid}", "node": f"{cont}/{us}"})
            if us == rootid:
                if parents.get(us):
                    fails.append({"key": "root-has-parent", "what": us, "node": f"{cont}/{us}"})
                continue
            n = len(parents.get(us, []))
            if n != 1:
                fails.append({"key": "parent-count", "what": f"{cont}/{us} has {n} parents", "node": f"{cont}/{us}"})
    return fails


# ----------------------------------------------------------------------------- Coq emitters
def ckey(k):
    return f"({KINDS[k[0]]}, {cN(k[1])})"


def cop(op):
    o = op["op"]
    if o == "create":
        return f"Create {KINDS[op['kind']]} {cN(op['n'])} {ckey(op['parent'])} {cN(op['name'])} {cN(op['arr'])}"
    if o == "set_name":
        return f"SetName {ckey(op['e'])} {cN(op['v'])}"
    if o == "set_del":
        return f"SetDel {ckey(op['e'])} {cbool(op['v'])}"
    if o == "set_arr":
        return f"SetArr {ckey(op['e'])} {cN(op['v'])}"
    if o == "move":
        return f"Move {ckey(op['e'])} {ckey(op['q'])}"
    if o == "rm_ws":
        return f"RemoveWs {ckey(op['e'])}"
    if o == "rm_parent":
        return f"RemoveParent {ckey(op['e'])}"
    if o == "sweep":
        return f"Sweep {KINDS[op['kind']]}"
    if o == "reopen":
        return "Reopen"
    raise ValueError(o)


def _ok_key(k):
    return k[0] in KINDS and isinstance(k[1], int) and k[1] >= 0


def cattrs(r):
    return "{| aname := %s; adel := %s; aarr := %s |}" % (cN(r["name"]), cbool(r["del"]), cN(r["arr"]))


def cmemdump(rows):
    out = []
    for r in rows:
        if not (_ok_key(r["key"]) and _ok_key(r["parent"]) and all(_ok_key(k) for k in r["kids"]) and r["name"] >= 0 and r["arr"] >= 0):
            return None
        out.append("(%s, %s, %s, %s)" % (ckey(r["key"]), cattrs(r), ckey(r["parent"]), clist(ckey(k) for k in r["kids"])))
    return clist(out)


def cfiledump(d):
    out = []
    for r in d["nodes"]:
        if not (_ok_key(r["key"]) and all(_ok_key(l[0]) for l in r["links"]) and r["name"] >= 0 and r["arr"] >= 0):
            return None
        links = clist("(%s, %s)" % (ckey(l[0]), "None" if l[1] is None else f"Some {cbool(l[1])}") for l in r["links"])
        out.append("(%s, %s, %s)" % (ckey(r["key"]), cattrs(r), links))
    if d["root"] is None:
        root = "None"
    else:
        if not _ok_key(d["root"][0]):
            return None
        root = "Some (%s, %s)" % (ckey(d["root"][0]), "None" if d["root"][1] is None else f"Some {cbool(d['root'][1])}")
    return "(%s, %s)" % (clist(out), root)


OUTC = {"done": "Done", "refused": "Refused", "raised": "Raised"}


def history_case_term(ops, steps):
    """steps: list of {"outcome","mem","file"} per op, as observed on the implementation."""
    rows = []
    for st in steps:
        m, f = cmemdump(st["mem"]), cfiledump(st["file"])
        if m is None or f is None or st["outcome"] not in OUTC:
            return "false"
        rows.append(f"({OUTC[st['outcome']]}, {m}, {f})")
    return "check_history %s %s" % (clist(cop(o) for o in ops), clist(rows))


def run_history(ops, work, tag="h", want_digests=False):
    """Run a history on the implementation; per op: outcome, live tree dump, raw file dump (+ node digests)."""
    import os

    path = f"{work}/{tag}.geoh5"
    if os.path.exists(path):
        os.remove(path)
    im = Impl(path)
    steps = []
    digests = [node_digests(im.ws.geoh5)] if want_digests else []
    for op in ops:
        try:
            outc = im.apply(op)
        except Exception as e:  # noqa: BLE001
            outc = f"error:{type(e).__name__}:{str(e)[:120]}"
        st = {"outcome": outc, "mem": im.dump_mem(), "file": im.dump_file()}
        steps.append(st)
        if want_digests:
            digests.append(node_digests(im.ws.geoh5))
    root_path = "Groups/{%s}" % im.root_uid
    im.ws.close()
    final_validation = validate_geoh5(path)
    os.remove(path)
    return {"steps": steps, "digests": digests if want_digests else None, "validations": im.validations,
            "final_validation": final_validation, "root_path": root_path}


# ============================================================================= extended model (Model/WsX.v)
# property groups and copies; identifiers are the uuid's integer minus one (arbitrary size), so that the fresh
# identifiers the code draws for copies and groups can be carried by the operations of the history.
def gen_history_x(rng, length):
    """history for the extended model: the base generator's ops interleaved with pg_add / pg_remove / copy."""
    base = gen_history(rng, length, {"final_sweeps": rng.chance(50)})
    ops = []
    live_data = {}   # object key -> list of data keys (shadow, conservative)
    groups = {("G", 0)}
    objs = set()
    pgn = [0]
    copied = False
    seen_keys = set()
    xmoved = set()   # data moved by this layer: the base shadow still files them under their old object
    for op in base:
        if op["op"] == "create":
            k0 = (op["kind"], op["n"])
            if k0 in seen_keys and (copied or k0 in xmoved) and not op.get("dup"):
                # the base generator's shadow does not know the copies and the data moves of this layer: it cannot tell whether
                # this key is free (thorough run 3: a data moved to another object survived the removal of its old parent,
                # and the base generator re-used its identifier)
                continue
            seen_keys.add(k0)
        ops.append(op)
        o = op["op"]
        if o == "create":
            k = (op["kind"], op["n"])
            if op["kind"] == "G":
                groups.add(k)
            elif op["kind"] == "O":
                objs.add(k)
                live_data.setdefault(k, [])
            else:
                live_data.setdefault(tuple(op["parent"]), []).append(k)
        elif o in ("rm_ws", "rm_parent"):
            k = tuple(op["e"])
            groups.discard(k)
            objs.discard(k)
            for lst in live_data.values():
                if k in lst:
                    lst.remove(k)
        if o in ("reopen", "sweep") or not rng.chance(45):
            continue
        w = rng.weighted([("pg_add", 40), ("pg_remove", 10), ("copy", 38), ("move_data", 12), ("pg_chain", 8)])
        cands = [k for k in objs if live_data.get(k)]
        if w == "pg_chain":
            # several property groups of one object that share a data X, the earlier ones holding X alone (a group that
            # becomes empty deletes itself while the object walks its groups), then X leaves the object by one of the routes
            if cands:
                ob = rng.choice(sorted(cands))
                x = rng.choice(live_data[ob])
                others = [d for d in live_data[ob] if d != x]
                for j in range(rng.range(2, 3)):
                    pgn[0] += 1
                    ms = [x] if j == 0 or not others or rng.chance(40) else [x] + rng.sample(others, rng.range(1, min(2, len(others))))
                    ops.append({"op": "pg_add", "o": list(ob), "name": 500 + pgn[0], "members": [list(m) for m in ms], "g": None})
                route = rng.weighted([("rm_ws", 35), ("rm_parent", 35), ("move", 30)])
                if route == "move" and len(objs) >= 2:
                    q = rng.choice(sorted(k for k in objs if k != ob))
                    live_data[ob].remove(x)
                    live_data.setdefault(q, []).append(x)
                    xmoved.add(tuple(x))
                    ops.append({"op": "move", "e": list(x), "q": list(q)})
                elif route != "move":
                    live_data[ob].remove(x)
                    ops.append({"op": route, "e": list(x)})
            continue
        if w == "move_data":
            if cands and len(objs) >= 2:
                ob = rng.choice(sorted(cands))
                dk = rng.choice(live_data[ob])
                q = rng.choice(sorted(k for k in objs if k != ob))
                live_data[ob].remove(dk)
                live_data.setdefault(q, []).append(dk)
                xmoved.add(tuple(dk))
                ops.append({"op": "move", "e": list(dk), "q": list(q)})
            continue
        if w == "pg_add" and cands:
            ob = rng.choice(sorted(cands))
            ms = rng.sample(live_data[ob], rng.range(1, min(3, len(live_data[ob]))))
            if rng.chance(15):
                ms = ms + [["D", 9999]]          # not a child: skipped by the API
            foreign = sorted(d for k, lst in live_data.items() if k != ob for d in lst)
            if foreign and rng.chance(25):
                ms = ms + [rng.choice(foreign)]  # a live data of ANOTHER object, given by identifier: skipped as well
            if rng.chance(10):
                ms = [["D", 9998]]               # nothing valid: the API raises
            pgn[0] = pgn[0] + 1 if rng.chance(60) else max(1, pgn[0])   # new name, or an existing one again
            ops.append({"op": "pg_add", "o": list(ob), "name": 500 + pgn[0], "members": [list(m) for m in ms], "g": None})
        elif w == "pg_remove" and cands:
            ops.append({"op": "pg_remove", "o": list(rng.choice(sorted(cands))), "which": rng.below(3), "g": None})
        elif w == "copy":
            pool = sorted(objs) + sorted(g for g in groups if g != ("G", 0))
            if pool:
                e = rng.choice(pool)
                q = rng.choice(sorted(groups))
                ops.append({"op": "copy", "e": list(e), "q": list(q), "ids": None})
                copied = True
            elif cands:
                ob = rng.choice(sorted(cands))
                ops.append({"op": "copy", "e": list(rng.choice(live_data[ob])), "q": list(rng.choice(sorted(objs))), "ids": None})
    return ops


class ImplX(Impl):
    def key_of(self, ent):
        k = super().key_of(ent)
        if k != ["G", 0]:
            k[1] = ent.uid.int - 1
        return k

    def key_of_uidstr(self, cont, s):
        import uuid

        u = uuid.UUID(s)
        if u == self.root_uid:
            return ["G", 0]
        return [CONT_INV.get(cont, "?"), u.int - 1]

    @staticmethod
    def _pgname(s):
        return int(s[1:]) if isinstance(s, str) and s.startswith("n") and s[1:].isdigit() else -1

    def pgs_of(self, e):
        out = []
        for pg in (getattr(e, "property_groups", None) or []):
            out.append([pg.uid.int - 1, self._pgname(pg.name), [["D", u.int - 1] for u in (pg.properties or [])]])
        return out

    def apply(self, op):
        import gc

        o = op["op"]
        if o not in ("pg_add", "pg_remove", "copy"):
            return super().apply(op)
        try:
            if o == "pg_add":
                ob = self.find(op["o"])
                if ob is None:
                    return "refused"
                ents = []
                for m in op["members"]:
                    c = [c for c in ob.children if hasattr(c, "entity_type") and self.key_of(c) == list(m)]
                    if c:
                        ents.append(c[0])
                    else:
                        import uuid

                        ents.append(uuid.UUID(int=m[1] + 1))   # an identifier that is not a child of the object
                try:
                    pg = ob.add_data_to_group(ents, f"n{op['name']}")
                except ValueError:
                    return "raised"
                op["g"] = pg.uid.int - 1
                del pg, ents
            elif o == "pg_remove":
                ob = self.find(op["o"])
                if ob is None:
                    return "refused"
                pgs = list(ob.property_groups or [])
                if not pgs:
                    op["g"] = 1
                    return "refused"
                pg = pgs[op["which"] % len(pgs)]
                op["g"] = pg.uid.int - 1
                self.ws.remove_entity(pg)
                del pg, pgs
            else:
                e, q = self.find(op["e"]), self.find(op["q"])
                if e is None or q is None:
                    op["ids"] = []
                    return "refused"
                x = q
                while x is not None and x is not self.ws.root:
                    if x is e:
                        op["ids"] = []
                        return "refused"
                    x = x.parent
                from geoh5py.data import Data
                from geoh5py.groups import Group
                from geoh5py.objects import ObjectBase

                ok = (isinstance(e, Data) and isinstance(q, ObjectBase)) or (not isinstance(e, Data) and isinstance(q, Group))
                if not ok:
                    op["ids"] = []
                    return "refused"
                c = e.copy(parent=q)

                def ids(t):
                    out = [t.uid.int - 1]
                    kids = [k for k in getattr(t, "children", []) if hasattr(k, "entity_type")]
                    if isinstance(t, ObjectBase):
                        out += [k.uid.int - 1 for k in kids] + [pg.uid.int - 1 for pg in (t.property_groups or [])]
                    else:
                        for k in kids:
                            out += ids(k)
                    return out

                op["ids"] = ids(c)
                del c, e, q
        finally:
            gc.collect()
        return "done"

    def dump_mem(self):
        rows = super().dump_mem()
        # attach property groups (objects only)
        byk = {}

        def walk(e):
            byk[tuple(self.key_of(e))] = self.pgs_of(e)
            for c in getattr(e, "children", []):
                if hasattr(c, "entity_type"):
                    walk(c)

        walk(self.ws.root)
        for r in rows:
            r["pgs"] = byk.get(tuple(r["key"]), [])
        return rows

    def dump_file(self, f=None):
        d = super().dump_file(f)
        f = f if f is not None else self.ws.geoh5
        proj = f[list(f)[0]]
        for n in d["nodes"]:
            n["pgs"] = []
            cont = CONT[n["key"][0]]
            import uuid

            us = "{%s}" % (self.root_uid if n["key"] == ["G", 0] else uuid.UUID(int=n["key"][1] + 1))
            node = proj[cont].get(us)
            if node is not None and "PropertyGroups" in node:
                for pu in node["PropertyGroups"]:
                    a = node["PropertyGroups"][pu].attrs
                    nm = a.get("Group Name")
                    nm = nm.decode() if isinstance(nm, bytes) else nm
                    props = a.get("Properties", [])
                    mem = []
                    for x in list(props) if hasattr(props, "__iter__") and not isinstance(props, (str, bytes)) else []:
                        x = x.decode() if isinstance(x, bytes) else str(x)
                        mem.append(["D", uuid.UUID(x).int - 1])
                    n["pgs"].append([uuid.UUID(pu).int - 1, self._pgname(nm), mem])
        return d


def cattrs_x(r, sort_pgs=False):
    pgs = r.get("pgs", [])
    if any(g[1] < 0 for g in pgs):
        return None
    if sort_pgs:
        pgs = sorted(pgs, key=lambda g: g[0])
    return "{| aname := %s; adel := %s; aarr := %s; apgs := %s |}" % (
        cN(r["name"]), cbool(r["del"]), cN(r["arr"]),
        clist("(%s, %s, %s)" % (cN(g[0]), cN(g[1]), clist(ckey(m) for m in g[2])) for g in pgs))


def cop_x(op):
    o = op["op"]
    if o == "pg_add":
        return f"PgAdd {ckey(op['o'])} {cN(op['g'] if op['g'] is not None else 1)} {cN(op['name'])} {clist(ckey(m) for m in op['members'])}"
    if o == "pg_remove":
        return f"PgRemove {ckey(op['o'])} {cN(op['g'] if op['g'] is not None else 1)}"
    if o == "copy":
        return f"Copy {ckey(op['e'])} {ckey(op['q'])} {clist(cN(i) for i in (op['ids'] or []))}"
    return cop(op)


def truncate_x(ops, steps):
    """The extended model keeps an object's data children and its property groups in two lists; Python keeps them in ONE
    children list, whose interleaving decides which property groups a removal that is refused half-way (a protected data
    child) has already deleted.  Histories are compared up to (not including) the first such step."""
    for i, (op, st) in enumerate(zip(ops, steps)):
        if op["op"] == "rm_ws" and st["outcome"] == "raised" and i > 0 and any(r.get("pgs") for r in steps[i - 1]["mem"]):
            return ops[:i], steps[:i], True
    return ops, steps, False


def history_case_term_x(ops, steps):
    ops, steps, _ = truncate_x(ops, steps)
    rows = []
    for st in steps:
        m = []
        for r in st["mem"]:
            a = cattrs_x(r)
            if a is None or not (_ok_key(r["key"]) and _ok_key(r["parent"]) and r["name"] >= 0 and r["arr"] >= 0):
                return "false"
            m.append("(%s, %s, %s, %s)" % (ckey(r["key"]), a, ckey(r["parent"]), clist(ckey(k) for k in r["kids"])))
        fr = []
        for r in st["file"]["nodes"]:
            a = cattrs_x(r)   # the file lists the blocks by name: compared as a set inside Coq
            if a is None or not _ok_key(r["key"]) or r["name"] < 0 or r["arr"] < 0:
                return "false"
            links = clist("(%s, %s)" % (ckey(l[0]), "None" if l[1] is None else f"Some {cbool(l[1])}") for l in r["links"])
            fr.append("(%s, %s, %s)" % (ckey(r["key"]), a, links))
        root = st["file"]["root"]
        rt = "None" if root is None else "Some (%s, %s)" % (ckey(root[0]), "None" if root[1] is None else f"Some {cbool(root[1])}")
        if st["outcome"] not in OUTC:
            return "false"
        rows.append(f"({OUTC[st['outcome']]}, {clist(m)}, ({clist(fr)}, {rt}))")
    return "check_history %s %s" % (clist(cop_x(o) for o in ops), clist(rows))


def run_history_x(ops, work, tag="hx", want_digests=False):
    import copy
    import os

    ops = copy.deepcopy(ops)
    path = f"{work}/{tag}.geoh5"
    if os.path.exists(path):
        os.remove(path)
    im = ImplX(path)
    steps = []
    digests = [node_digests(im.ws.geoh5)] if want_digests else []
    for op in ops:
        try:
            outc = im.apply(op)
        except Exception as e:  # noqa: BLE001
            outc = f"error:{type(e).__name__}:{str(e)[:120]}"
        steps.append({"outcome": outc, "mem": im.dump_mem(), "file": im.dump_file()})
        if want_digests:
            digests.append(node_digests(im.ws.geoh5))
    root_path = "Groups/{%s}" % im.root_uid
    im.ws.close()
    final_validation = validate_geoh5(path)
    os.remove(path)
    return {"ops_filled": ops, "steps": steps, "digests": digests if want_digests else None, "validations": im.validations,
            "final_validation": final_validation, "root_path": root_path}


# ============================================================================= two workspaces, copies between them
def gen_history_w(rng, length):
    """ops carry "ws"; workspace 0 is built with the usual ops, subtrees are copied into workspace 1 (identifiers kept when
    free there), workspace 1 removes / renames / sweeps / re-opens copies; the forced pattern "copy, detach the copy through
    its parent, change the source, copy again" produces the stale-node re-use without any caller-supplied identifier."""
    ops = []
    par = {("G", 0): None}
    kids = {("G", 0): []}
    in_b = {}            # key -> parent key in workspace 1 (copies that kept their identifier)
    nxt = [1]
    tok = [10]

    def t():
        tok[0] += 1
        return tok[0]

    def create(kind, parent):
        k = (kind, nxt[0])
        nxt[0] += 1
        par[k] = parent
        kids[k] = []
        kids[parent].append(k)
        ops.append({"ws": 0, "op": "create", "kind": kind, "n": k[1], "parent": list(parent), "name": t(), "arr": t() if kind != "G" else 0})
        return k

    def subtree(k):
        out = [k]
        for c in kids.get(k, []):
            out += subtree(c)
        return out

    g = create("G", ("G", 0))
    o = create("O", g)
    for _ in range(rng.range(1, 3)):
        create("D", o)
    while len(ops) < length:
        w = rng.weighted([("create", 20), ("set", 14), ("pg", 8), ("copy_x", 18), ("b_rm_parent", 10), ("b_rm_ws", 6), ("b_set", 8),
                          ("b_sweep", 6), ("reopen", 6), ("a_rm", 4)])
        live = [k for k in par if k != ("G", 0)]
        if w == "create":
            kind = rng.weighted([("G", 25), ("O", 35), ("D", 40)])
            cands = [k for k in par if k[0] == ("O" if kind == "D" else "G")]
            if cands:
                create(kind, rng.choice(sorted(cands)))
        elif w == "set" and live:
            e = rng.choice(sorted(live))
            if e[0] != "G" and rng.chance(50):
                ops.append({"ws": 0, "op": "set_arr", "e": list(e), "v": t()})
            else:
                ops.append({"ws": 0, "op": "set_name", "e": list(e), "v": t()})
        elif w == "pg":
            obs_ = [k for k in par if k[0] == "O" and kids.get(k)]
            if obs_:
                ob = rng.choice(sorted(obs_))
                ms = rng.sample(kids[ob], rng.range(1, min(2, len(kids[ob]))))
                ops.append({"ws": 0, "op": "pg_add", "o": list(ob), "name": 500 + rng.range(1, 2), "members": [list(m) for m in ms], "g": None})
        elif w == "copy_x":
            pool = [k for k in live if k[0] in "GO"]
            if pool:
                e = rng.choice(sorted(pool))
                qs = [("G", 0)] + [k for k in in_b if k[0] == "G"]
                q = rng.choice(sorted(qs))
                ops.append({"ws": 0, "op": "copy_x", "e": list(e), "q": list(q), "ids": None})
                for k in subtree(e):
                    in_b.setdefault(k, q if k == e else par[k])
                if rng.chance(45):   # forced pattern
                    ops.append({"ws": 1, "op": "rm_parent", "e": list(e)})
                    for k in subtree(e):
                        in_b.pop(k, None)
                    if rng.chance(50):
                        ops.append({"ws": 0, "op": "set_name", "e": list(e), "v": t()})
                    if rng.chance(30):
                        ops.append({"ws": 1, "op": "sweep", "kind": rng.choice("GOD")})
                    ops.append({"ws": 0, "op": "copy_x", "e": list(e), "q": [ "G", 0], "ids": None})
                    for k in subtree(e):
                        in_b.setdefault(k, ("G", 0) if k == e else par[k])
        elif w in ("b_rm_parent", "b_rm_ws") and in_b:
            e = rng.choice(sorted(in_b))
            ops.append({"ws": 1, "op": "rm_parent" if w == "b_rm_parent" else "rm_ws", "e": list(e)})
            for k in [x for x in subtree(e)] + [e]:
                in_b.pop(k, None)
        elif w == "b_set" and in_b:
            e = rng.choice(sorted(in_b))
            ops.append({"ws": 1, "op": "set_name", "e": list(e), "v": t()})
        elif w == "b_sweep":
            ops.append({"ws": 1, "op": "sweep", "kind": rng.choice("GOD")})
        elif w == "reopen":
            ops.append({"ws": rng.below(2), "op": "reopen"})
        elif w == "a_rm" and live:
            e = rng.choice(sorted(live))
            ops.append({"ws": 0, "op": rng.choice(["rm_ws", "rm_parent"]), "e": list(e)})
            for k in subtree(e):
                par.pop(k, None)
                kids.pop(k, None)
            for lst in kids.values():
                if e in lst:
                    lst.remove(e)
    ops += [{"ws": 1, "op": "reopen"}, {"ws": 0, "op": "reopen"}]
    return ops


def run_history_w(ops, work, tag="hw"):
    import copy
    import gc
    import os

    ops = copy.deepcopy(ops)
    paths = [f"{work}/{tag}_a.geoh5", f"{work}/{tag}_b.geoh5"]
    for p in paths:
        if os.path.exists(p):
            os.remove(p)
    ims = [ImplX(paths[0]), ImplX(paths[1])]
    steps = []
    for op in ops:
        i = op["ws"]
        try:
            if op["op"] == "copy_x":
                src, tgt = ims[i], ims[1 - i]
                e, q = src.find(op["e"]), tgt.find(op["q"])
                from geoh5py.groups import Group
                from geoh5py.objects import ObjectBase

                if e is None or q is None or not isinstance(q, Group) or e is src.ws.root:
                    op["ids"] = []
                    outc = "refused"
                else:
                    c = e.copy(parent=q)
                    drawn = []

                    def walk(a, b):
                        if a.uid != b.uid:
                            drawn.append(b.uid.int - 1)
                        ka = [k for k in getattr(a, "children", []) if hasattr(k, "entity_type")]
                        kb = [k for k in getattr(b, "children", []) if hasattr(k, "entity_type")]
                        if isinstance(a, ObjectBase):
                            for x, y in zip(ka, kb):
                                if x.uid != y.uid:
                                    drawn.append(y.uid.int - 1)
                            for x, y in zip(a.property_groups or [], b.property_groups or []):
                                if x.uid != y.uid:
                                    drawn.append(y.uid.int - 1)
                        else:
                            for x, y in zip(ka, kb):
                                walk(x, y)

                    walk(e, c)
                    op["ids"] = drawn
                    outc = "done"
                    del c, e, q
                gc.collect()
            else:
                outc = ims[i].apply(op)
        except Exception as ex:  # noqa: BLE001
            import traceback

            outc = f"error:{type(ex).__name__}:{str(ex)[:120]} @ {traceback.format_exc().strip().splitlines()[-3][:120]}"
        if any(im.ws is None for im in ims):
            # a close / open that raised leaves no workspace to observe: the history ends here (the oracle reports it)
            steps.append({"outcome": outc if outc.startswith("error") else "error:workspace-lost", "a": steps[-1]["a"] if steps else None, "b": steps[-1]["b"] if steps else None})
            ops = ops[: len(steps)]
            break
        steps.append({"outcome": outc, "a": {"mem": ims[0].dump_mem(), "file": ims[0].dump_file()},
                      "b": {"mem": ims[1].dump_mem(), "file": ims[1].dump_file()}})
    vals = []
    for im, p in zip(ims, paths):
        try:
            if im.ws is not None:
                im.ws.close()
            vals.append(validate_geoh5(p))
        except Exception as ex:  # noqa: BLE001
            vals.append([{"key": "file-unreadable", "what": f"{type(ex).__name__}: {str(ex)[:120]}"}])
        os.remove(p)
    return {"w": True, "ops_filled": ops, "steps": steps, "validations": [im.validations for im in ims], "final_validation": vals}


def _side_term(d):
    m = []
    for r in d["mem"]:
        a = cattrs_x(r)
        if a is None or not (_ok_key(r["key"]) and _ok_key(r["parent"]) and r["name"] >= 0 and r["arr"] >= 0):
            return None
        m.append("(%s, %s, %s, %s)" % (ckey(r["key"]), a, ckey(r["parent"]), clist(ckey(k) for k in r["kids"])))
    fr = []
    for r in d["file"]["nodes"]:
        a = cattrs_x(r)
        if a is None or not _ok_key(r["key"]) or r["name"] < 0 or r["arr"] < 0:
            return None
        links = clist("(%s, %s)" % (ckey(l[0]), "None" if l[1] is None else f"Some {cbool(l[1])}") for l in r["links"])
        fr.append("(%s, %s, %s)" % (ckey(r["key"]), a, links))
    root = d["file"]["root"]
    rt = "None" if root is None else "Some (%s, %s)" % (ckey(root[0]), "None" if root[1] is None else f"Some {cbool(root[1])}")
    return f"({clist(m)}, ({clist(fr)}, {rt}))"


def wop_term(op):
    i = "true" if op["ws"] == 1 else "false"
    if op["op"] == "copy_x":
        return f"CopyX {i} {ckey(op['e'])} {ckey(op['q'])} {clist(cN(x) for x in (op['ids'] or []))}"
    return f"On {i} ({cop_x(op)})"


def world_stale_before(ops, steps, k, side_i):
    """did an entity get created / copied over an already present flat node of workspace side_i before step k?"""
    side = "ab"[side_i]
    for j in range(1, k):
        o = ops[j]
        into = (o["op"] == "copy_x" and (1 - o["ws"]) == side_i) or (o["op"] == "create" and o["ws"] == side_i)
        if into and steps[j][side] and steps[j - 1][side]:
            had = {tuple(n["key"]) for n in steps[j - 1][side]["file"]["nodes"]}
            now = {tuple(r["key"]) for r in steps[j][side]["mem"]} - {tuple(r["key"]) for r in steps[j - 1][side]["mem"]}
            if had & now:
                return True
    return False


def world_case_term(ops, steps):
    # a re-open that RAISES after a stale-node re-use in that workspace (two resurrected objects carrying one property-group
    # identifier: "Key already used" while loading) is a consequence of the recorded defect the loader model does not
    # reproduce; such histories are compared up to that step
    for k, (op, st) in enumerate(zip(ops, steps)):
        if op["op"] == "reopen" and str(st["outcome"]).startswith("error") and world_stale_before(ops, steps, k, op["ws"]):
            ops, steps = ops[:k], steps[:k]
            break
    # same truncation rule as the single-workspace stream
    for k, (op, st) in enumerate(zip(ops, steps)):
        if op["op"] == "rm_ws" and st["outcome"] == "raised" and k > 0 and any(r.get("pgs") for side in ("a", "b") for r in steps[k - 1][side]["mem"]):
            ops, steps = ops[:k], steps[:k]
            break
    rows = []
    for st in steps:
        a, b = _side_term(st["a"]), _side_term(st["b"])
        if a is None or b is None or st["outcome"] not in OUTC:
            return "false"
        rows.append(f"({OUTC[st['outcome']]}, {a}, {b})")
    return "check_world %s %s" % (clist(wop_term(o) for o in ops), clist(rows))
