"""C13 — Spatial selection returns exactly what lies inside the box.

Points/Curve/Surface objects on an integer lattice and 2-D / 3-D boxes through lattice points: the real
mask_by_extent / copy_from_extent / Data.mask_by_extent (and, for axis-aligned Grid2D objects, copy_from_extent) are run
and compared with the Gallina model (Model/Extent.v, Model/Geometry.v) evaluated inside Coq; the oracle recomputes the
selection from the property text with exact integer arithmetic.
"""
from __future__ import annotations

from vlib.common import cbool, clist, cnat, cz

from props import c07 as G

ID = "C13"
PROPERTIES_V = "theories/Properties/C13.v"
CASE_IMPORTS = "From GV Require Import Prelude.Base Model.Geometry Model.Extent."
ALLOWED_AXIOMS: list = []
REFUTED = [
    "C13_subgrid_minimal_refuted (pinned tree, Grid2D.copy_from_extent: when the selected columns/rows have a gap - reachable on "
    "rotated grids - the sub-grid is narrower than the bounding rectangle and misplaced; replayed on the implementation "
    "(finding grid-subgrid-gap); the same statement is proved for the repaired code as C13_subgrid_minimal_repaired)",
]
PARTIAL = [
    "C13_subgrid_minimal (pinned index computation, under contiguity of the selected columns and rows; the checked tree is "
    "covered by C13_subgrid_minimal_repaired)",
    "Grid2D: for unrotated, undipped grids the selection matrix is computed in the model from the cell-centre formula "
    "(C13_grid_selection_matrix) and the copied values are characterised (C13_grid_copy_values); for rotated / dipped grids "
    "the selection matrix is an input of the model (recomputed by the driver from the observed centroids): rotation/dip "
    "arithmetic is exercised at 0 and atan(3/4) degrees, not modelled",
    "block models, octrees and drillholes: C13_located_mask_exact / C13_located_none_iff hold for any location list; that "
    "the list is the object's centroids is C17's subject (here: observed and checked against the mid-point formula by the "
    "oracle); copy_from_extent of block models / octrees is modelled for the children's values "
    "(C13_grid_object_copy_values), of drillholes not",
    "groups: C13_group_copy characterises Group.copy_from_extent given the children's own results; children are "
    "Points/Curve/Surface and one level of sub-group in the correspondence",
    "C13_copy_total excludes objects with per-element text data",
]
TRUSTED = [
    "Coq 8.16.1 kernel + vm_compute (correspondence evaluation); no axioms (Print Assumptions: closed)",
    "hand-written models coq/theories/Model/Extent.v (utils.mask_by_extent, box_intersect, Points/CellObject.mask_by_extent, "
    "Data.mask_by_extent, EntityContainer.copy_from_extent, index part of Grid2D.copy_from_extent) and Model/Geometry.v "
    "(masked copy); tied to the code by running both on the same generated inputs",
    "numpy comparison / boolean indexing / kron / argmax semantics, geoh5py object creation (exercised, not modelled)",
    "tools/props/c13.py (generator, driver, int<->float canonicalisation on an integer lattice, oracle)",
]
ASSUMPTIONS = [
    "coordinates, box bounds, grid origins and cell sizes are small integers so that float comparisons are exact",
    "objects are Points, Curve, Surface (data: float/int/bool) and Grid2D with dip = 0 and rotation 0 or atan(3/4) (cell size 5, "
    "so cell centres sit on half-integers and box bounds on integers never touch them), float cell data",
    "block models (integer delimiters, no rotation), octrees (base cells only) and drillholes (collar) are covered for "
    "mask_by_extent only; groups hold Points/Curve/Surface children and at most one sub-group",
]
RULE = (
    "Points/Curve/Surface (80%): 1-12 vertices on the lattice [-3,3]^2 x [-1,1], cells with unreferenced vertices (30%) "
    "and unordered cells (30%), 0-3 data children; boxes with bounds on lattice values (so points on faces, edges and "
    "corners are common), 2-D and 3-D, degenerate (lo = hi), covering, disjoint from the bounding box, touching it, "
    "and inverted (lo > hi, refused); inverse flag 35%. Grid2D (25%): 1-6 x 1-6 cells, integer origin; axis-aligned with "
    "integer cell sizes and boxes on half-cell coordinates, or rotated by atan(3/4) with cell size 5 and thin or wide boxes "
    "on integer bounds (thin boxes select non-adjacent columns). non-trivial = the box keeps some but not all elements (vertices or grid cells)"
)
LEVEL_TEXT = (
    "Proved for all vertex lists, cells, boxes (2-D or 3-D) and both values of inverse: the mask of a point cloud is the "
    "closed-box test xor inverse on x,y(,z) and is None exactly when the box misses the bounding box; curves and surfaces "
    "keep exactly the vertices used by a cell all of whose vertices qualify and return None exactly when the box misses the "
    "bounding box or no cell qualifies; the extent copy is the C07 selection for that mask (same coordinates, data follow, "
    "every kept vertex is used by a kept cell). For Grid2D the index arithmetic is modelled: the selected rectangle is the "
    "bounding rectangle of the selected cells for the repaired code (all selections) and, for the pinned tree, when the "
    "selected rows/columns are contiguous; refuted otherwise with a witness replayed on a rotated grid (recorded finding). "
    "For unrotated grids the selection matrix is the closed-box test of the centre formula and the copied values are the "
    "source's at selected cells and no-data elsewhere in the sub-grid; any object selected through a location list (block "
    "model / octree centroids, drillhole collar) selects exactly the locations in the closed box; a group's copy holds exactly "
    "the children whose own copy is not None. "
    "Tie: in-Coq differential correspondence on generated inputs; the repair flag is read off the source."
)
TECHNIQUE = "Coq proof over a hand model + in-Coq differential correspondence"

_FILL = None


def detect_fill(repo) -> bool:
    """Does Grid2D.copy_from_extent fill the span between the first and last selected column/row? (fail-closed)"""
    import ast
    from pathlib import Path

    tree = ast.parse((Path(repo) / "geoh5py/objects/grid2d.py").read_text())
    fn = None
    for node in ast.walk(tree):
        if isinstance(node, ast.FunctionDef) and node.name == "copy_from_extent":
            fn = node
    if fn is None:
        raise RuntimeError("Grid2D.copy_from_extent not found")
    names = [t.id for st in fn.body if isinstance(st, ast.Assign) for t in st.targets if isinstance(t, ast.Name)]
    for need in ("u_ind", "v_ind", "indices"):
        if need not in names:
            raise RuntimeError(f"Grid2D.copy_from_extent: assignment to {need} not found")
    iu, ii = [i for i, st in enumerate(fn.body) if isinstance(st, ast.Assign) and any(isinstance(t, ast.Name) and t.id == "v_ind" for t in st.targets)][0], \
             [i for i, st in enumerate(fn.body) if isinstance(st, ast.Assign) and any(isinstance(t, ast.Name) and t.id == "indices" for t in st.targets)][0]
    between = fn.body[iu + 1:ii]
    if not between:
        return False
    if len(between) == 1 and isinstance(between[0], ast.For):
        slices = [n for n in ast.walk(between[0]) if isinstance(n, ast.Assign) and any(
            isinstance(t, ast.Subscript) and isinstance(t.slice, ast.Slice) for t in n.targets)]
        if len(slices) == 1 and isinstance(slices[0].value, ast.Constant) and slices[0].value.value is True:
            return True
    raise RuntimeError("Grid2D.copy_from_extent: unrecognised statements between v_ind and indices")


_GFILL = None


def detect_grid_fill(repo) -> bool:
    """GridObject.copy: is the blank array np.full_like(child.values, child.nan_value) (any kind) or the float template
    np.ones_like(child.values) * np.nan (undefined for str arrays)? (fail-closed on anything else)"""
    import ast
    from pathlib import Path

    tree = ast.parse((Path(repo) / "geoh5py/objects/grid_object.py").read_text())
    fn = None
    for node in ast.walk(tree):
        if isinstance(node, ast.ClassDef) and node.name == "GridObject":
            for sub in node.body:
                if isinstance(sub, ast.FunctionDef) and sub.name == "copy":
                    fn = sub
    if fn is None:
        raise RuntimeError("GridObject.copy not found")
    blanks = [st for st in ast.walk(fn) if isinstance(st, ast.Assign) and len(st.targets) == 1 and isinstance(st.targets[0], ast.Name)
              and st.targets[0].id == "values" and not (isinstance(st.value, ast.Attribute) and st.value.attr == "values")]
    if len(blanks) != 1:
        raise RuntimeError("GridObject.copy: expected one construction of the blank values array")
    src = ast.unparse(blanks[0].value).replace(" ", "")
    if src == "np.ones_like(child.values)*np.nan":
        return False
    if src == "np.full_like(child.values,child.nan_value)":
        return True
    raise RuntimeError(f"GridObject.copy: unrecognised blank array {src}")


_DRILL = None
_GCLEAN = None


def detect_drill_fixed(repo) -> bool:
    """Does Drillhole define its own copy_from_extent (copy the whole hole iff the collar is selected)? (fail-closed)"""
    import ast
    from pathlib import Path

    tree = ast.parse((Path(repo) / "geoh5py/objects/drillhole.py").read_text())
    fn = None
    for node in ast.walk(tree):
        if isinstance(node, ast.ClassDef) and node.name == "Drillhole":
            for sub in node.body:
                if isinstance(sub, ast.FunctionDef) and sub.name == "copy_from_extent":
                    fn = sub
    if fn is None:
        return False
    has_any = any(isinstance(x, ast.Call) and isinstance(x.func, ast.Attribute) and x.func.attr == "any" for x in ast.walk(fn))
    rets = [r for r in ast.walk(fn) if isinstance(r, ast.Return) and isinstance(r.value, ast.Call)
            and isinstance(r.value.func, ast.Attribute) and r.value.func.attr == "copy"]
    if has_any and len(rets) == 1 and not any(k.arg == "mask" for k in rets[0].value.keywords):
        return True
    raise RuntimeError("Drillhole.copy_from_extent: unrecognised shape")


def detect_group_cleanup(repo) -> bool:
    """Group.copy_from_extent: is the loop over the children inside a try whose handler removes the group copy and re-raises?"""
    import ast
    from pathlib import Path

    tree = ast.parse((Path(repo) / "geoh5py/groups/base.py").read_text())
    fn = None
    for node in ast.walk(tree):
        if isinstance(node, ast.FunctionDef) and node.name == "copy_from_extent":
            fn = node
    if fn is None:
        raise RuntimeError("Group.copy_from_extent not found")
    loops = [n for n in ast.walk(fn) if isinstance(n, ast.For)]
    if len(loops) != 1:
        raise RuntimeError("Group.copy_from_extent: expected one loop over the children")
    tries = [t for t in ast.walk(fn) if isinstance(t, ast.Try) and any(loops[0] is x for b in t.body for x in ast.walk(b))]
    if not tries:
        return False
    if len(tries) == 1 and len(tries[0].handlers) == 1:
        h = tries[0].handlers[0]
        removes = any(isinstance(x, ast.Call) and isinstance(x.func, ast.Attribute) and x.func.attr == "remove_entity" for x in ast.walk(h))
        if removes and any(isinstance(x, ast.Raise) for x in ast.walk(h)):
            return True
    raise RuntimeError("Group.copy_from_extent: unrecognised try around the children loop")


def regenerate(repo):
    global _FILL, _GFILL, _DRILL, _GCLEAN
    _FILL = detect_fill(repo)
    _GFILL = detect_grid_fill(repo)
    _DRILL = detect_drill_fixed(repo)
    _GCLEAN = detect_group_cleanup(repo)
    return {"tables": {"repair_flags": {"grid_fill_span": _FILL, "grid_copy_blank_by_kind": _GFILL,
                                        "drillhole_copy_by_collar": _DRILL, "group_copy_cleanup": _GCLEAN}}}


def _drill_term():
    global _DRILL
    if _DRILL is None:
        from vlib import common as C

        _DRILL = detect_drill_fixed(C.REPO)
    return cbool(_DRILL)


def _gclean_term():
    global _GCLEAN
    if _GCLEAN is None:
        from vlib import common as C

        _GCLEAN = detect_group_cleanup(C.REPO)
    return cbool(_GCLEAN)


def _gfill_term():
    global _GFILL
    if _GFILL is None:
        from vlib import common as C

        _GFILL = detect_grid_fill(C.REPO)
    return cbool(_GFILL)


def _fill_term():
    global _FILL
    if _FILL is None:
        from vlib import common as C

        _FILL = detect_fill(C.REPO)
    return cbool(_FILL)


OKIND = G.OKIND
ASSOC = G.ASSOC
KIND = G.KIND


# ----------------------------------------------------------------------------- generation
def _gen_box(rng, verts, ndim):
    """box with integer bounds chosen among lattice values around the vertices"""
    lo_hi = []
    rngs = [(-3, 3), (-3, 3), (-1, 1)]
    style = rng.weighted([("lattice", 55), ("degenerate", 10), ("cover", 8), ("disjoint", 9), ("touch", 8), ("onevertex", 7), ("inverted", 3)])
    cols = [[p[k] for p in verts] for k in range(3)]
    for k in range(ndim):
        a, b = rngs[k]
        mn, mx = min(cols[k]), max(cols[k])
        if style == "cover":
            lo, hi = mn - rng.range(0, 1), mx + rng.range(0, 1)
        elif style == "degenerate":
            lo = hi = rng.range(a, b)
        elif style == "disjoint":
            if k == 0:
                lo = mx + rng.range(1, 2)
                hi = lo + rng.range(0, 2)
            else:
                lo, hi = sorted((rng.range(a - 1, b + 1), rng.range(a - 1, b + 1)))
        elif style == "touch":
            if k == 0:
                lo, hi = mx, mx + rng.range(0, 2)
            else:
                lo, hi = mn - rng.range(0, 1), mx + rng.range(0, 1)
        elif style == "onevertex":
            p = verts[0]
            lo, hi = p[k] - rng.range(0, 1), p[k] + rng.range(0, 1)
        elif rng.chance(60):
            mid = (a + b) // 2
            lo, hi = rng.range(a - 1, mid), rng.range(mid, b + 1)  # wide boxes: whole cells fit inside
        else:
            lo, hi = sorted((rng.range(a - 1, b + 1), rng.range(a - 1, b + 1)))
        lo_hi.append([lo, hi])
    if style == "inverted":
        k = rng.below(ndim)
        lo_hi[k] = [lo_hi[k][1] + 1, lo_hi[k][1]]
    return lo_hi


def _gen_mesh_case(rng):
    cls = rng.weighted([("Curve", 40), ("Surface", 35), ("Points", 25)])
    arity = {"Points": 0, "Curve": 2, "Surface": 3}[cls]
    nv = rng.range(max(1, arity), 12)
    verts = [[rng.range(-3, 3), rng.range(-3, 3), rng.range(-1, 1)] for _ in range(nv)]
    cells = []
    if arity:
        pool = list(range(nv))
        if rng.chance(30) and nv > arity:
            pool = sorted(rng.sample(pool, rng.range(arity, nv - 1)))
        for _ in range(rng.range(1, 8)):
            cells.append([rng.choice(pool) for _ in range(arity)])
        if not rng.chance(30):
            cells = sorted(cells)
    kids = []
    for i in range(rng.range(0, 3)):
        assoc = rng.weighted([("VERTEX", 55), ("CELL", 35 if arity else 0), ("OBJECT", 10)])
        kind = rng.weighted([("float", 60), ("int", 25), ("bool", 15)])
        n = {"VERTEX": nv, "CELL": len(cells), "OBJECT": 1}[assoc]
        vals = None if rng.chance(8) else G._gen_vals(rng, kind, n)
        kids.append({"id": i + 1, "assoc": assoc, "kind": kind, "vals": vals})
    ndim = 2 if rng.chance(45) else 3
    case = {"kind": "mesh", "cls": cls, "verts": verts, "cells": cells, "kids": kids,
            "box": _gen_box(rng, verts, ndim), "inverse": rng.chance(35)}
    if rng.chance(40):
        # several actions on the SAME object before the observed query: read the extent and edit the returned array in
        # place, earlier queries, vertex removals (the bounding box must follow the current vertices)
        hist, cur = [], verts
        for _ in range(rng.range(1, 4)):
            a = rng.weighted([("scribble", 45), ("query", 30), ("rv", 25 if len(cur) > max(2, arity + 1) else 0)])
            if a == "scribble":
                hist.append({"scribble": rng.range(1, 3)})
            elif a == "query":
                b = [[min(lo, hi), max(lo, hi)] for lo, hi in _gen_box(rng, cur, 2 if rng.chance(50) else 3)]
                hist.append({"query": b, "inverse": rng.chance(30)})
            else:
                idx = rng.sample(list(range(len(cur))), rng.range(1, min(2, len(cur) - 1)))
                hist.append({"rv": idx})
                cur = [p for i, p in enumerate(cur) if i not in idx]
        case["history"] = hist
        if any("rv" in h for h in hist):
            case["box"] = _gen_box(rng, cur, ndim)   # aim the observed box at the vertices that are left
    return case


def _gen_grid_case(rng):
    nu, nv = rng.range(1, 6), rng.range(1, 6)
    ox, oy, oz = rng.range(-4, 4), rng.range(-4, 4), rng.range(-2, 2)
    vals = [rng.range(-40, 40) for _ in range(nu * nv)]
    pre = rng.weighted([("none", 30), ("text", 35), ("comment", 35)])   # a non-array child in front of the numeric data
    if rng.chance(45):
        nu, nv = rng.range(2, 7), rng.range(2, 7)
        vals = [rng.range(-40, 40) for _ in range(nu * nv)]
        # rotation atan(3/4), cell size 5: centre (i, j) sits at o + (4i - 3j + 1/2, 3i + 4j + 7/2): odd in half units
        case = {"kind": "grid", "rot": "345", "nu": nu, "nv": nv, "du": 5, "dv": 5, "origin": [ox, oy, oz], "vals": vals,
                "pre": pre, "vals2": [rng.range(-40, 40) for _ in range(nu * nv)]}
        cx = [2 * ox + 8 * i - 6 * j + 1 for j in range(nv) for i in range(nu)]
        cy = [2 * oy + 6 * i + 8 * j + 7 for j in range(nv) for i in range(nu)]
        def bound(cs, thin):
            if thin:
                c = rng.choice(cs)
                w = rng.choice([1, 3, 3])
                return [c - w, c + w]
            a, b = sorted((rng.range(min(cs) - 3, max(cs) + 3), rng.range(min(cs) - 3, max(cs) + 3)))
            return [a - a % 2, b + b % 2]  # even half-units = integers: never on a centre
        style = rng.weighted([("gap", 35), ("thin_y", 15), ("thin_x", 10), ("wide", 30), ("all", 10)])
        if style == "all":
            box = [[min(cx) - 1, max(cx) + 1], [min(cy) - 1, max(cy) + 1]]
        elif style == "gap":
            # search (deterministically, from the same stream) for a thin box whose selected columns or rows are not adjacent
            box = None
            for _ in range(30):
                tx = rng.chance(35)
                cand = [bound(cx, tx), bound(cy, not tx)]
                ins = [cand[0][0] <= x <= cand[0][1] and cand[1][0] <= y <= cand[1][1] for x, y in zip(cx, cy)]
                us = sorted({k % nu for k, b in enumerate(ins) if b})
                vs = sorted({k // nu for k, b in enumerate(ins) if b})
                box = cand
                if us and (len(us) != us[-1] - us[0] + 1 or len(vs) != vs[-1] - vs[0] + 1):
                    break
        else:
            box = [bound(cx, style == "thin_x"), bound(cy, style == "thin_y")]
        case["box_half"] = box
        return case
    du, dv = rng.choice([1, 2, 4]), rng.choice([1, 2, 4])
    # bounds on half-cell coordinates (expressed in halves to stay integral): centroid k sits at o + (k + 1/2) d
    def bound(o, d, n):
        a = rng.range(-1, 2 * n + 1)
        b = rng.range(-1, 2 * n + 1)
        a, b = sorted((a, b))
        return [2 * o + a * d, 2 * o + b * d]  # in half units
    box2 = [bound(ox, du, nu), bound(oy, dv, nv)]
    if rng.chance(25):
        box2.append([2 * oz - rng.range(0, 2), 2 * oz + rng.range(0, 2)])
    if rng.chance(8):  # disjoint
        box2[0] = [2 * ox + 2 * nu * du + 2, 2 * ox + 2 * nu * du + 4]
    return {"kind": "grid", "rot": "0", "nu": nu, "nv": nv, "du": du, "dv": dv, "origin": [ox, oy, oz], "box_half": box2, "vals": vals,
            "pre": pre, "vals2": [rng.range(-40, 40) for _ in range(nu * nv)]}


def _centres2(case):
    """cell centres in half units (exact integers), row-major with u fastest"""
    ox, oy, oz = case["origin"]
    if case.get("rot", "0") == "345":
        return [[2 * ox + 8 * i - 6 * j + 1, 2 * oy + 6 * i + 8 * j + 7, 2 * oz] for j in range(case["nv"]) for i in range(case["nu"])]
    return [[2 * ox + (2 * i + 1) * case["du"], 2 * oy + (2 * j + 1) * case["dv"], 2 * oz] for j in range(case["nv"]) for i in range(case["nu"])]


def _origin2(case, u0, v0):
    ox, oy, oz = case["origin"]
    if case.get("rot", "0") == "345":
        return [2 * ox + 8 * u0 - 6 * v0, 2 * oy + 6 * u0 + 8 * v0, 2 * oz]
    return [2 * ox + 2 * u0 * case["du"], 2 * oy + 2 * v0 * case["dv"], 2 * oz]


def _index_of_origin(case, o2):
    """(u0, v0) of a sub-grid origin given in half units, or None"""
    dx, dy = o2[0] - 2 * case["origin"][0], o2[1] - 2 * case["origin"][1]
    if o2[2] != 2 * case["origin"][2]:
        return None
    if case.get("rot", "0") == "345":
        a, b = 8 * dx + 6 * dy, -6 * dx + 8 * dy
        if a % 100 or b % 100:
            return None
        u0, v0 = a // 100, b // 100
    else:
        if dx % (2 * case["du"]) or dy % (2 * case["dv"]):
            return None
        u0, v0 = dx // (2 * case["du"]), dy // (2 * case["dv"])
    return (u0, v0) if u0 >= 0 and v0 >= 0 else None


def _gen_fmesh_case(rng):
    """non-lattice float coordinates a few ulps around the faces of a box whose opposite corner is far away, and
    half-infinite boxes; exact rational arithmetic decides (oracle) / an order-preserving integer scaling (model)"""
    import math

    ndim = 2 if rng.chance(40) else 3
    box = []
    for _ in range(ndim):
        near = rng.choice([0.3, 0.7, 12.1, 1.1, 2.675, 0.001, 5.0, 0.1 + 0.2])
        far = rng.choice([100.0, 250.0, 1000.0, 1e6, 3.0])
        r = rng.below(100)
        if r < 70:
            lo, hi = -far, near        # the face under test is the upper one
        elif r < 85:
            lo, hi = near, far         # ... or the lower one
        elif r < 93:
            lo, hi = "-inf", near      # half-infinite extents
        else:
            lo, hi = near - 1.0, "inf"
        box.append([lo, hi])

    def fin(x, default):
        return default if isinstance(x, str) else x

    nv = rng.range(2, 8)
    verts = []
    for _ in range(nv):
        p = []
        for k in range(3):
            if k < ndim:
                lo, hi = fin(box[k][0], -1e3), fin(box[k][1], 1e3)
            else:
                lo, hi = -1.0, 1.0
            face = hi if rng.chance(70) else lo
            c = rng.below(100)
            if c < 18:
                x = face
            elif c < 40:
                x = math.nextafter(face, math.inf)
            elif c < 55:
                x = math.nextafter(face, -math.inf)
            elif c < 65:
                x = math.nextafter(math.nextafter(face, math.inf), math.inf)
            elif c < 75:
                x = face * (1 + 2.0 ** -51)
            elif c < 90:
                x = 0.0 if lo <= 0.0 <= hi else (lo + hi) / 2
            else:
                x = hi + 1.0
            p.append(float(x))
        verts.append(p)
    cls = "Curve" if rng.chance(45) else "Points"
    cells = []
    if cls == "Curve":
        cells = sorted([rng.below(nv), rng.below(nv)] for _ in range(rng.range(1, 5)))
    kids = [{"id": 1, "assoc": "VERTEX", "kind": "float", "vals": G._gen_vals(rng, "float", nv)}] if rng.chance(60) else []
    return {"kind": "fmesh", "cls": cls, "verts": verts, "cells": cells, "kids": kids, "box": box, "inverse": rng.chance(35)}


def _gen_located_case(rng):
    """block model / octree centroids and drillhole collars: objects selected through a list of locations"""
    what = rng.weighted([("block", 55), ("drill", 30), ("octree", 15)])
    case = {"kind": "located", "what": what, "inverse": rng.chance(35)}
    if what == "block":
        def delims(n, sign=1):
            out, x = [0], 0
            for _ in range(n):
                x += rng.choice([1, 2, 3])
                out.append(sign * x)
            return out
        case.update({"origin": [rng.range(-3, 3), rng.range(-3, 3), rng.range(-2, 2)],
                     "u": delims(rng.range(1, 3)), "v": delims(rng.range(1, 3)), "z": delims(rng.range(1, 2), -1)})
        lo = [2 * case["origin"][k] for k in range(3)]
        hi = [2 * (case["origin"][k] + d[-1]) for k, d in enumerate((case["u"], case["v"], case["z"]))]
        # cell data of every kind (values = the first n_cells entries of the pool) and sometimes an object-level child
        case["kids"] = [{"kind": k, "pool": G._gen_vals(rng, k, 30)} for k in
                        rng.sample(["float", "int", "bool", "ref", "text"], rng.range(1, 4))]
        if rng.chance(25):
            case["kids"].insert(rng.below(len(case["kids"]) + 1), {"kind": "float", "pool": [7], "object": True})
    elif what == "octree":
        case.update({"origin": [rng.range(-3, 3), rng.range(-3, 3), rng.range(-2, 2)], "n": rng.choice([1, 2, 4]), "size": rng.choice([1, 2])})
        case["kids"] = [{"kind": k, "pool": G._gen_vals(rng, k, 30)} for k in rng.sample(["float", "int", "bool", "ref", "text"], rng.range(1, 3))]
        lo = [2 * x for x in case["origin"]]
        hi = [2 * (x + case["n"] * case["size"]) for x in case["origin"]]
    else:
        case["collar"] = [rng.range(-3, 3), rng.range(-3, 3), rng.range(-2, 2)]
        case["stations"] = rng.choice([0, 0, 2, 3, 4])   # 0: no depth data (no vertices); k: depth data at k stations
        lo = [2 * x - 2 for x in case["collar"]]
        hi = [2 * x + 2 for x in case["collar"]]
    box = []
    for k in range(2 if rng.chance(45) else 3):
        a, b = sorted((lo[k], hi[k]))
        st = rng.below(100)
        if st < 35:
            x, y = sorted((rng.range(a - 2, b + 2), rng.range(a - 2, b + 2)))
        elif st < 62:
            mid = (a + b) // 2
            x, y = rng.range(a - 2, mid), rng.range(mid, b + 2)
        elif st < 75:
            x, y = a - 1, b + 1
        elif st < 88:
            x = y = rng.range(a, b)
        else:
            x, y = b + 1, b + 3
        box.append([x, y])
    if what == "drill" and rng.chance(50):
        box = [[2 * case["collar"][k] - rng.range(0, 2), 2 * case["collar"][k] + rng.range(0, 2)] for k in range(len(box))]
        case["inverse"] = rng.chance(50)
    case["box_half"] = box
    return case


def _gen_group_case(rng):
    def child():
        c = _gen_mesh_case(rng)
        return {"cls": c["cls"], "verts": c["verts"], "cells": c["cells"]}
    kids = [child() for _ in range(rng.range(1, 4))]
    sub = [child() for _ in range(rng.range(1, 2))] if rng.chance(45) else None
    allv = [p for c in kids + (sub or []) for p in c["verts"]]
    box = _gen_box(rng, allv, 2 if rng.chance(45) else 3)
    if not rng.chance(7):
        box = [[min(lo, hi), max(lo, hi)] for lo, hi in box]   # mostly valid boxes: an inverted one makes every child refuse
    return {"kind": "group", "children": kids, "sub": sub, "sub_at": rng.below(len(kids) + 1), "box": box, "inverse": rng.chance(30)}


def generate(rng, tier):
    n = 320 if tier == "quick" else 6000
    out = []
    for _ in range(n):
        r = rng.below(100)
        out.append(_gen_grid_case(rng) if r < 27 else _gen_fmesh_case(rng) if r < 40 else _gen_located_case(rng) if r < 50
                   else _gen_group_case(rng) if r < 58 else _gen_mesh_case(rng))
    return out


# ----------------------------------------------------------------------------- float cases -> equivalent integer cases
def _f(x):
    return float("inf") if x == "inf" else float("-inf") if x == "-inf" else float(x)


def _scale_map(case):
    """order-preserving map of every finite float of the case to an integer (exact: floats are dyadic rationals);
    +-inf go to values beyond every finite one, which preserves every comparison the code makes"""
    import math
    from fractions import Fraction

    fins = {float(x) for p in case["verts"] for x in p} | {_f(x) for b in case["box"] for x in b if math.isfinite(_f(x))}
    den = 1
    for x in fins:
        den = max(den, Fraction(x).denominator)
    table = {x: int(Fraction(x) * den) for x in fins}
    big = max([abs(v) for v in table.values()] + [0]) + 1
    table[float("inf")] = big
    table[float("-inf")] = -big
    return table


def _scaled(case, obs=None):
    """the fmesh case (and its observation) rewritten as an integer mesh case"""
    t = _scale_map(case)

    def pt(p):
        return [t[float(x)] if float(x) in t else {"float": repr(x)} for x in p]

    c2 = dict(case, kind="mesh", verts=[pt(p) for p in case["verts"]], box=[[t[_f(lo)], t[_f(hi)]] for lo, hi in case["box"]])
    if obs is None or "mask" not in obs:
        return c2, obs
    o2 = dict(obs)
    for key in ("init", "after"):
        o2[key] = dict(obs[key], verts=[pt(p) for p in obs[key]["verts"]])
    if "snap" in obs["copy"]:
        o2["copy"] = {"snap": dict(obs["copy"]["snap"], verts=[pt(p) for p in obs["copy"]["snap"]["verts"]])}
    return c2, o2


# ----------------------------------------------------------------------------- implementation driver
def _mask_obs(f):
    try:
        m = f()
    except Exception as e:  # noqa: BLE001
        return {"error": type(e).__name__}
    if m is None:
        return {"mask": None}
    return {"mask": [bool(x) for x in m.tolist()]}


def drive_one(case, work):
    import os

    import numpy as np
    from geoh5py import Workspace
    from geoh5py import objects as O

    path = f"{work}/c13.geoh5"
    if os.path.exists(path):
        os.remove(path)
    ws = Workspace.create(path)
    try:
        if case["kind"] == "grid":
            return _drive_grid(case, ws)
        if case["kind"] == "located":
            return _drive_located(case, ws)
        if case["kind"] == "group":
            return _drive_group(case, ws)
        snap = _snap_raw if case["kind"] == "fmesh" else G._snap
        kw = {"vertices": np.array(case["verts"], dtype=float).reshape(-1, 3), "name": "obj"}
        if case["cls"] != "Points":
            kw["cells"] = np.array(case["cells"], dtype="int32")
        obj = getattr(O, case["cls"]).create(ws, **kw)
        for kd in case["kids"]:
            spec = {"association": kd["assoc"]}
            if kd["vals"] is not None:
                spec["values"] = G._arr(kd["vals"], kd["kind"])
            else:
                spec["type"] = {"float": "float", "int": "integer", "bool": "boolean"}[kd["kind"]]
            obj.add_data({f"d{kd['id']}": spec})
        init = snap(obj)
        out = {"init": init}
        if case.get("history"):
            hobs = []
            for h in case["history"]:
                o = {}
                try:
                    if "scribble" in h:
                        box = obj.extent
                        if box is not None:
                            box[0] += float(h["scribble"])
                            box[1] -= float(h["scribble"])
                    elif "query" in h:
                        qe = np.array(h["query"], dtype=float).T
                        o["mask"] = _mask_obs(lambda: obj.mask_by_extent(qe, inverse=bool(h["inverse"])))
                    else:
                        obj.remove_vertices(list(h["rv"]))
                except Exception as e:  # noqa: BLE001
                    o["err"] = type(e).__name__
                e2 = obj.extent
                o["extent"] = None if e2 is None else [[_int(x) for x in col] for col in np.asarray(e2).T.tolist()]
                hobs.append(o)
            out["history"] = hobs
            out["pre_final"] = snap(obj)
        ext = np.array([[_f(lo), _f(hi)] for lo, hi in case["box"]], dtype=float).T  # shape (2, N)
        inv = bool(case["inverse"])
        out["mask"] = _mask_obs(lambda: obj.mask_by_extent(ext, inverse=inv))
        from geoh5py.data import Data

        out["dmasks"] = []
        for ch in obj.children:
            if isinstance(ch, Data):
                out["dmasks"].append({"name": ch.name, "assoc": ch.association.name, **_mask_obs(lambda ch=ch: ch.mask_by_extent(ext, inverse=inv))})
        try:
            cp = obj.copy_from_extent(ext, inverse=inv)
            out["copy"] = {"none": True} if cp is None else {"snap": snap(cp)}
        except Exception as e:  # noqa: BLE001
            out["copy"] = {"error": type(e).__name__}
        out["after"] = snap(obj)
        return out
    finally:
        try:
            ws.close()
        except Exception:  # noqa: BLE001
            pass
        if os.path.exists(path):
            os.remove(path)


def _int(x):
    return int(x) if float(x).is_integer() else {"float": repr(x)}


def _snap_raw(obj):
    """like c07._snap but with the vertices as the raw floats (exact through JSON)"""
    import numpy as np

    s = G._snap(obj)
    v = obj.vertices
    s["verts"] = [] if v is None else [[float(x) for x in p] for p in np.asarray(v).tolist()]
    return s


def _drive_located(case, ws):
    import numpy as np
    from geoh5py.objects import BlockModel, Drillhole, Octree

    w = case["what"]
    if w == "block":
        ob = BlockModel.create(ws, origin=[float(x) for x in case["origin"]], u_cell_delimiters=np.array(case["u"], dtype=float),
                               v_cell_delimiters=np.array(case["v"], dtype=float), z_cell_delimiters=np.array(case["z"], dtype=float), rotation=0.0)
        locs = np.asarray(ob.centroids)
    elif w == "octree":
        n, sz = case["n"], float(case["size"])
        ob = Octree.create(ws, origin=[float(x) for x in case["origin"]], u_count=n, v_count=n, w_count=n,
                           u_cell_size=sz, v_cell_size=sz, w_cell_size=sz, rotation=0.0)
        locs = np.asarray(ob.centroids)
    else:
        k = case.get("stations", 0)
        kw = {"collar": [float(x) for x in case["collar"]], "name": "hole"}
        if k:
            kw["surveys"] = np.c_[np.linspace(0, 10, 3), np.zeros(3), np.ones(3) * -90]
        ob = Drillhole.create(ws, **kw)
        if k:
            ob.add_data({"assay": {"depth": np.arange(1.0, k + 1.0), "values": np.arange(float(k))}})
        locs = np.array([[ob.collar["x"], ob.collar["y"], ob.collar["z"]]], dtype=float)
    ext = np.array(case["box_half"], dtype=float).T / 2.0
    out = {"locs2": [[_r2(x) for x in p] for p in locs.tolist()]}
    if case.get("kids"):
        n = int(ob.n_cells)
        out["n_cells"] = n
        for i, kd in enumerate(case["kids"]):
            if kd.get("object"):
                spec = {"association": "OBJECT", "values": G._arr(kd["pool"][:1], kd["kind"])}
            else:
                spec = {"association": "CELL", "values": G._arr(kd["pool"][:n], kd["kind"])}
            if kd["kind"] == "text":
                spec["type"] = "text"
            elif kd["kind"] == "ref":
                spec["type"] = "referenced"
                spec["value_map"] = {j: f"unit{j}" for j in range(1, 6)}
            ob.add_data({f"d{i + 1}": spec})
    out["mask"] = _mask_obs(lambda: ob.mask_by_extent(ext, inverse=bool(case["inverse"])))
    if case["what"] == "drill":
        out["n_vertices"] = None if ob.n_vertices is None else int(ob.n_vertices)
        try:
            cp = ob.copy_from_extent(ext, inverse=bool(case["inverse"]))
            out["hole_copy"] = {"none": True} if cp is None else {"n_vertices": None if cp.n_vertices is None else int(cp.n_vertices),
                                                                   "collar": [_r2(cp.collar[a]) for a in ("x", "y", "z")]}
        except Exception as e:  # noqa: BLE001
            out["hole_copy"] = {"error": type(e).__name__}
    if case.get("kids"):
        try:
            cp = ob.copy_from_extent(ext, inverse=bool(case["inverse"]))
            if cp is None:
                out["copy"] = {"none": True}
            else:
                by = {getattr(c, "name", None): c for c in cp.children}
                out["copy"] = {"vals": [None if by.get(f"d{i + 1}") is None or by[f"d{i + 1}"].values is None
                                        else G._canon_vals(by[f"d{i + 1}"].values) for i in range(len(case["kids"]))],
                               "n_cells": int(cp.n_cells)}
        except Exception as e:  # noqa: BLE001
            out["copy"] = {"error": G.ERR_ALIAS.get(type(e).__name__, type(e).__name__)}
        out["src_after"] = [G._canon_vals(c.values) for c in ob.children if getattr(c, "name", "").startswith("d")]
    return out


def _drive_group(case, ws):
    import numpy as np
    from geoh5py import objects as O
    from geoh5py.groups import ContainerGroup

    def make(spec, parent, name):
        kw = {"vertices": np.array(spec["verts"], dtype=float).reshape(-1, 3), "name": name, "parent": parent}
        if spec["cls"] != "Points":
            kw["cells"] = np.array(spec["cells"], dtype="int32")
        return getattr(O, spec["cls"]).create(ws, **kw)

    grp = ContainerGroup.create(ws, name="grp")
    order = []
    for i, spec in enumerate(case["children"]):
        if case["sub"] is not None and case["sub_at"] == i:
            order.append("s")
        order.append(f"c{i}")
    if case["sub"] is not None and case["sub_at"] == len(case["children"]):
        order.append("s")
    for name in order:
        if name == "s":
            sub = ContainerGroup.create(ws, name="s", parent=grp)
            for j, spec in enumerate(case["sub"]):
                make(spec, sub, f"n{j}")
        else:
            make(case["children"][int(name[1:])], grp, name)
    ext = np.array(case["box"], dtype=float).T
    src_order = [c.name for c in grp.children]
    try:
        cp = grp.copy_from_extent(ext, inverse=bool(case["inverse"]))
    except Exception as e:  # noqa: BLE001
        err = type(e).__name__
        del e
        # is a second group with the source's name left under the root (in the tree the file is written from)?
        return {"order": src_order, "copy": {"error": err, "stray": sum(1 for c in ws.root.children if c.name == "grp") > 1}}
    if cp is None:
        return {"order": src_order, "copy": {"none": True}}

    def show(ent):
        if hasattr(ent, "vertices"):
            return {"name": ent.name, "snap": G._snap(ent)}
        return {"name": ent.name, "children": [show(c) for c in ent.children]}

    return {"order": src_order, "copy": {"children": [show(c) for c in cp.children]}}


def _r2(x):
    """twice a coordinate as an exact integer when it is one up to float noise"""
    y = round(2 * float(x))
    return int(y) if abs(2 * float(x) - y) < 1e-6 else {"float": repr(float(x))}


def _drive_grid(case, ws):
    import math

    import numpy as np
    from geoh5py.objects import Grid2D

    rot = math.degrees(math.atan2(3, 4)) if case.get("rot", "0") == "345" else 0.0
    g = Grid2D.create(ws, origin=[float(x) for x in case["origin"]], u_cell_size=float(case["du"]), v_cell_size=float(case["dv"]),
                      u_count=case["nu"], v_count=case["nv"], rotation=rot, dip=0.0, name="grid")
    if case.get("pre") == "text":
        g.add_data({"note": {"values": "a note about this grid", "association": "OBJECT"}})
    elif case.get("pre") == "comment":
        g.add_comment("surveyed in 2019", author="qa")
    g.add_data({"d1": {"values": np.array(case["vals"], dtype=float), "association": "CELL"}})
    if case.get("vals2") is not None:
        g.add_data({"d2": {"values": np.array(case["vals2"], dtype=float), "association": "CELL"}})
    ext = np.array(case["box_half"], dtype=float).T / 2.0
    cent = np.asarray(g.centroids)
    out = {"centroids2": [[_r2(x) for x in p] for p in cent.tolist()]}
    try:
        cp = g.copy_from_extent(ext)
    except Exception as e:  # noqa: BLE001
        out["copy"] = {"error": type(e).__name__}
        return out
    if cp is None:
        out["copy"] = {"none": True}
        return out
    vals = vals2 = None
    for ch in cp.children:
        if getattr(ch, "name", None) == "d1":
            vals = G._canon_vals(ch.values)
        if getattr(ch, "name", None) == "d2":
            vals2 = G._canon_vals(ch.values)
    out["child_order"] = [getattr(ch, "name", "?") for ch in cp.children]
    out["copy"] = {"vals2": vals2, "nu": int(cp.u_count), "nv": int(cp.v_count), "origin2": [_r2(cp.origin[a]) for a in ("x", "y", "z")],
                   "du": float(cp.u_cell_size), "dv": float(cp.v_cell_size), "rotation": float(cp.rotation), "vals": vals,
                   "src_rotation": float(g.rotation)}
    return out


# ----------------------------------------------------------------------------- Coq case terms
def _ext_term(box):
    return clist("(%s, %s)" % (cz(lo), cz(hi)) for lo, hi in box)


def _obj_term(case):
    kids = clist("{| kid_id := %s; kassoc := %s; kkind := %s; kvals := %s |}" % (
        cnat(kd["id"]), ASSOC[kd["assoc"]], KIND[kd["kind"]],
        "None" if kd["vals"] is None else "(Some %s)" % G._vals_term(kd["vals"])) for kd in case["kids"])
    return "{| ok := %s; verts := %s; cells := %s; kids := %s |}" % (
        OKIND[case["cls"]], clist(G._pt(p) for p in case["verts"]), clist(clist(cnat(v) for v in c) for c in case["cells"]), kids)


def _rmask_term(o):
    if "error" in o:
        return "Err %s" % o["error"] if o["error"] in G.ERRS else None
    if o["mask"] is None:
        return "Ok None"
    return "Ok (Some %s)" % clist(cbool(b) for b in o["mask"])


def _sel_rows(case, cent2):
    """selected centroids of the grid from exact half-unit centres: rows of u_count booleans"""
    box = case["box_half"]
    rows = []
    for j in range(case["nv"]):
        rows.append([all(box[k][0] <= cent2[j * case["nu"] + i][k] <= box[k][1] for k in range(len(box))) for i in range(case["nu"])])
    return rows


def case_term(case, obs):
    try:
        return _case_term(case, obs)
    except Exception:  # noqa: BLE001 - an observation the term builder cannot print is a disagreement, not a crash
        return "false"


def _mesh_obj_term(spec):
    return "{| ok := %s; verts := %s; cells := %s; kids := [] |}" % (
        OKIND[spec["cls"]], clist(G._pt(p) for p in spec["verts"]), clist(clist(cnat(v) for v in c) for c in spec["cells"]))


def _group_term(case, obs):
    cp = obs["copy"]
    e, inv = _ext_term(case["box"]), cbool(case["inverse"])
    if "error" in cp:
        if cp["error"] not in G.ERRS:
            return "false"
        rs = []
        for name in obs["order"]:
            if name == "s":
                sub = clist("res_unit (child_copy_res %s %s %s)" % (_mesh_obj_term(sp), e, inv) for sp in case["sub"])
                rs.append("group_as_child (group_copy_run %s %s)" % (_gclean_term(), sub))
            else:
                rs.append("res_unit (child_copy_res %s %s %s)" % (_mesh_obj_term(case["children"][int(name[1:])]), e, inv))
        return "group_fail_agrees %s %s %s %s" % (_gclean_term(), clist(rs), cp["error"], cbool(cp["stray"]))
    order = obs["order"]
    if sorted(order) != sorted([f"c{i}" for i in range(len(case["children"]))] + (["s"] if case["sub"] is not None else [])):
        return "false"
    found = {} if cp.get("none") else {c["name"]: c for c in cp["children"]}
    if not cp.get("none") and len(found) != len(cp["children"]):
        return "false"
    parts, copies = [], []
    for name in order:
        if name == "s":
            subfound = {c["name"]: c for c in found["s"]["children"]} if "s" in found else {}
            subcopies = []
            for j, spec in enumerate(case["sub"]):
                o = _mesh_obj_term(spec)
                sn = subfound.get(f"n{j}")
                st = "None" if sn is None else "(Some %s)" % G._snap_term(sn["snap"])
                parts.append("child_agrees %s %s %s %s" % (o, e, inv, st))
                subcopies.append("as_unit (child_copy %s %s %s)" % (o, e, inv))
            idx = [int(c["name"][1:]) for c in found["s"]["children"]] if "s" in found else None
            parts.append("group_agrees %s %s" % (clist(subcopies), "None" if idx is None else "(Some %s)" % clist(cnat(i) for i in idx)))
            copies.append("as_unit (group_copy_from_extent %s)" % clist(subcopies))
        else:
            o = _mesh_obj_term(case["children"][int(name[1:])])
            sn = found.get(name)
            st = "None" if sn is None else "(Some %s)" % G._snap_term(sn["snap"])
            parts.append("child_agrees %s %s %s %s" % (o, e, inv, st))
            copies.append("as_unit (child_copy %s %s %s)" % (o, e, inv))
    idx = None if cp.get("none") else [order.index(c["name"]) for c in cp["children"]]
    parts.append("group_agrees %s %s" % (clist(copies), "None" if idx is None else "(Some %s)" % clist(cnat(i) for i in idx)))
    return " && ".join("(%s)" % x for x in parts)


def _case_term(case, obs):
    if case["kind"] == "group":
        return _group_term(case, obs)
    if case["kind"] == "located":
        if any(isinstance(x, dict) for p in obs["locs2"] for x in p):
            return "false"
        m = _rmask_term(obs["mask"])
        if m is None:
            return "false"
        locs = clist(G._pt(p) for p in obs["locs2"])
        fn = "drillhole_mask %s" % G._pt(obs["locs2"][0]) if case["what"] == "drill" else "grid_object_mask %s" % locs
        term = "rmask_eqb (%s %s %s) (%s)" % (fn, _ext_term(case["box_half"]), cbool(case["inverse"]), m)
        if case["what"] == "drill":
            hc = obs["hole_copy"]
            if "error" in hc:
                if hc["error"] not in G.ERRS:
                    return "false"
                ho = "Err %s" % hc["error"]
            elif hc.get("none"):
                ho = "Ok None"
            else:
                # a copy: the whole hole (same vertex count, same collar), or, from the one-vertex mask path, a hole without it
                if hc["collar"] != obs["locs2"][0]:
                    return "false"
                ho = "Ok (Some %s)" % cbool(hc["n_vertices"] == obs["n_vertices"])
            nv = "None" if obs["n_vertices"] is None else "(Some %s)" % cnat(obs["n_vertices"])
            term += (" && match drillhole_copy_from_extent %s %s %s %s %s, (%s : res (option bool)) with "
                     "| Ok None, Ok None => true | Ok (Some a), Ok (Some b) => Bool.eqb a b | Err x, Err y => err_eqb x y | _, _ => false end") % (
                _drill_term(), G._pt(obs["locs2"][0]), nv, _ext_term(case["box_half"]), cbool(case["inverse"]), ho)
        if case.get("kids"):
            n, cp = obs["n_cells"], obs["copy"]
            ks = clist("(%s, %s)" % (KIND[kd["kind"]], G._vals_term(kd["pool"][:1] if kd.get("object") else kd["pool"][:n])) for kd in case["kids"])
            if cp.get("none"):
                o = "Ok None"
            elif "error" in cp:
                if cp["error"] not in G.ERRS:
                    return "false"
                o = "Err %s" % cp["error"]
            else:
                if any(v is None or any(isinstance(x, dict) for x in v) for v in cp["vals"]) or cp["n_cells"] != n:
                    return "false"
                o = "Ok (Some %s)" % clist(G._vals_term(v) for v in cp["vals"])
            term += " && grid_copy_agrees %s %s %s %s %s (%s)" % (_gfill_term(), locs, _ext_term(case["box_half"]), cbool(case["inverse"]), ks, o)
        return term
    if case["kind"] == "fmesh":
        case, obs = _scaled(case, obs)
    if case["kind"] == "grid":
        if "copy" not in obs:
            return "false"
        # centroids must be where the format says (exact in half units)
        if obs["centroids2"] != _centres2(case):
            return "false"
        rows = _sel_rows(case, obs["centroids2"])
        if case.get("rot", "0") == "0":
            # unrotated grid: the model computes the selection matrix itself from the cell-centre formula
            ox, oy, oz = case["origin"]
            sel = "(grid_sel %s (grid_centres2 %s %s %s %s %s %s %s))" % (
                _ext_term(case["box_half"]), cz(ox), cz(oy), cz(oz), cz(case["du"]), cz(case["dv"]), cnat(case["nu"]), cnat(case["nv"]))
        else:
            sel = clist(clist(cbool(b) for b in r) for r in rows)
        cp = obs["copy"]
        if "error" in cp:
            return "false"
        gs = "grid_select %s %s %s" % (_fill_term(), cnat(case["nu"]), sel)
        if cp.get("none"):
            return "match %s with None => true | Some _ => false end" % gs
        if any(isinstance(x, dict) for x in cp["origin2"]) or cp["du"] != case["du"] or cp["dv"] != case["dv"] or cp["rotation"] != cp["src_rotation"]:
            return "false"
        uv = _index_of_origin(case, cp["origin2"])
        if uv is None or cp["vals"] is None or any(isinstance(x, dict) for x in cp["vals"]):
            return "false"
        second = "true"
        if case.get("vals2") is not None:
            if cp.get("vals2") is None or any(isinstance(x, dict) for x in cp["vals2"]):
                return "false"
            second = "vals_eqb (grid_copy_values %s g %s) %s" % (sel, G._vals_term(case["vals2"]), G._vals_term(cp["vals2"]))
        return ("match %s with None => false | Some g => "
                "Nat.eqb (sg_u0 g) %s && Nat.eqb (sg_v0 g) %s && Nat.eqb (sg_nu g) %s && Nat.eqb (sg_nv g) %s && "
                "vals_eqb (grid_copy_values %s g %s) %s && %s end") % (
            gs, cnat(uv[0]), cnat(uv[1]), cnat(cp["nu"]), cnat(cp["nv"]), sel, G._vals_term(case["vals"]), G._vals_term(cp["vals"]), second)
    if "mask" not in obs:
        return "false"
    # the object as created must be the object asked for (values padded by add_data are not generated here)
    if obs["init"]["verts"] != [list(p) for p in case["verts"]] or obs["init"]["cells"] != [list(c) for c in case["cells"]]:
        return "false"
    obj_expr, hist_terms = _obj_term(case), []
    if case.get("history"):
        if obs["after"] != obs["pre_final"]:
            return "false"
        for h, ho in zip(case["history"], obs["history"]):
            if "err" in ho:
                return "false"   # none of the generated actions is refused by the model
            if "rv" in h:
                obj_expr = "(state_of (remove_vertices %s %s %s))" % (G._flags_term(), obj_expr, clist(cz(i) for i in h["rv"]))
            if "query" in h:
                qm = _rmask_term(ho["mask"])
                if qm is None:
                    return "false"
                hist_terms.append("rmask_eqb (obj_mask %s %s %s) (%s)" % (obj_expr, _ext_term(h["query"]), cbool(h["inverse"]), qm))
            if ho["extent"] is None or any(isinstance(x, dict) for col in ho["extent"] for x in col):
                return "false"
            hist_terms.append("extent_agrees %s %s" % (obj_expr, _ext_term(ho["extent"])))
    elif obs["after"] != obs["init"]:
        return "false"
    m = _rmask_term(obs["mask"])
    if m is None:
        return "false"
    cp = obs["copy"]
    if cp.get("none"):
        c = "None"
    elif "error" in cp:
        if cp["error"] not in G.ERRS:
            return "false"
        c = "(Some (Err %s))" % cp["error"]
    else:
        s = G._snap_term(cp["snap"])
        if s is None:
            return "false"
        c = "(Some (Ok %s))" % s
    dm = []
    for d in obs["dmasks"]:
        t = _rmask_term(d)
        if t is None:
            return "false"
        dm.append("(%s, %s)" % (ASSOC[d["assoc"]], t))
    final = "agree13 %s %s %s (%s) %s %s" % (obj_expr, _ext_term(case["box"]), cbool(case["inverse"]), m, c, clist(dm))
    return " && ".join("(%s)" % t for t in hist_terms + [final])


def model_term(case):
    if case["kind"] in ("grid", "located", "group"):
        return None
    if case["kind"] == "fmesh":
        case, _ = _scaled(case)
    o, e, i = _obj_term(case), _ext_term(case["box"]), cbool(case["inverse"])
    return f"(obj_mask {o} {e} {i}, copy_from_extent {o} {e} {i})"


# ----------------------------------------------------------------------------- oracle (property text; exact integers)
def _inside(p, box):
    return all(lo <= p[k] <= hi for k, (lo, hi) in enumerate(box))


def _expected(case):
    """(mask or None-allowed flags, kept vertices, kept cells) from the property text"""
    box, inv = case["box"], case["inverse"]
    verts, cells = case["verts"], case["cells"]
    q = [_inside(p, box) != inv for p in verts]
    bb_miss = any(max(min(p[k] for p in verts), box[k][0]) > min(max(p[k] for p in verts), box[k][1]) for k in range(len(box)))
    if case["cls"] == "Points":
        return q, None, bb_miss, not any(q)
    keepc = [all(q[v] for v in c) for c in cells]
    used = {v for c, b in zip(cells, keepc) if b for v in c}
    mask = [i in used for i in range(len(verts))]
    return mask, keepc, bb_miss, not any(keepc)


def oracle(case, obs):
    if "crash" in obs:
        return [{"key": "driver-crash", "what": obs["crash"][:300]}]
    if case["kind"] == "grid":
        return _oracle_grid(case, obs)
    if case["kind"] == "located":
        return _oracle_located(case, obs)
    if case["kind"] == "group":
        return _oracle_group(case, obs)
    if case["kind"] == "fmesh":
        # exact rational comparison: the scaling is fractions.Fraction(x) * (common power-of-two denominator)
        case, obs = _scaled(case, obs)
    fails = []
    if case.get("history"):
        # the same object is used for several actions: replay them on a ledger (vertex removal = the complement of the index
        # set); the extent read after every action must be the bounding box of the CURRENT vertices, earlier queries are
        # judged like the final one
        E = {"cls": case["cls"], "verts": [tuple(p) for p in case["verts"]], "cells": [list(c) for c in case["cells"]],
             "kids": [dict(kd) for kd in case["kids"]]}
        for n, (h, ho) in enumerate(zip(case["history"], obs["history"])):
            if "err" in ho:
                return [{"key": "history-action-raised", "what": f"action {n} {h} raised {ho['err']}"}]
            if "rv" in h:
                E, want = G.spec_apply(E, {"op": "rv", "idx": h["rv"]})
            want_ext = [[min(p[k] for p in E["verts"]), max(p[k] for p in E["verts"])] for k in range(3)]
            if ho["extent"] != want_ext:
                return [{"key": "extent-not-bounding-box-of-current-vertices",
                         "what": f"after action {n} ({h}) the extent reads {ho['extent']}, the vertices span {want_ext}"}]
            if "query" in h:
                sub = dict(case, verts=[list(p) for p in E["verts"]], cells=E["cells"], kids=E["kids"], box=h["query"], inverse=h["inverse"])
                sub.pop("history")
                mask, keepc, bb_miss, none_q = _expected(sub)
                om = ho["mask"]
                if "error" in om:
                    return [{"key": "mask-raised", "what": f"action {n}: mask_by_extent raised {om['error']}"}]
                if om["mask"] is None:
                    if not (bb_miss or none_q):
                        return [{"key": "none-but-elements-qualify", "what": f"action {n}: mask_by_extent returned None for box {h['query']} although elements qualify (earlier actions: {case['history'][:n]})"}]
                elif om["mask"] != mask:
                    return [{"key": "mask-not-exact", "what": f"action {n}: mask {om['mask']} != expected {mask}"}]
        if obs["after"] != obs["pre_final"]:
            fails.append({"key": "source-changed", "what": "the source object changed during selection"})
        case = dict(case, verts=[list(p) for p in E["verts"]], cells=E["cells"], kids=E["kids"])
        case.pop("history")
        obs = dict(obs, init=obs["pre_final"])
    box = case["box"]
    if any(lo > hi for lo, hi in box):
        return fails  # the text does not define selection by an inverted box (the code refuses it)
    mask, keepc, bb_miss, none_q = _expected(case)
    om = obs["mask"]
    if "error" in om:
        return [{"key": "mask-raised", "what": f"mask_by_extent raised {om['error']} for box {box}"}]
    if om["mask"] is None:
        if not (bb_miss or none_q):
            fails.append({"key": "none-but-elements-qualify", "what": f"mask_by_extent returned None although the box {box} meets the bounding box and elements qualify"})
    elif om["mask"] != mask:
        fails.append({"key": "mask-not-exact", "what": f"mask {om['mask']} != expected {mask} (box {box}, inverse {case['inverse']})"})
    # copy
    cp = obs["copy"]
    if "error" in cp:
        fails.append({"key": "copy-raised", "what": f"copy_from_extent raised {cp['error']}"})
    elif cp.get("none"):
        if not (bb_miss or none_q):
            fails.append({"key": "copy-none-but-elements-qualify", "what": "copy_from_extent returned None although elements qualify"})
    else:
        snap = cp["snap"]
        new = {}
        for i, b in enumerate(mask):
            if b:
                new[i] = len(new)
        ev = [list(case["verts"][i]) for i, b in enumerate(mask) if b]
        if snap["verts"] != ev:
            fails.append({"key": "copy-vertices", "what": f"copy vertices {snap['verts']} != expected {ev}"})
        if case["cls"] != "Points":
            ec = [[new[v] for v in c] for c, b in zip(case["cells"], keepc) if b]
            got = [[tuple(snap["verts"][v]) if 0 <= v < len(snap["verts"]) else None for v in c] for c in snap["cells"]]
            want = [[tuple(case["verts"][v]) for v in c] for c, b in zip(case["cells"], keepc) if b]
            if got != want or snap["cells"] != ec:
                fails.append({"key": "copy-cells", "what": f"copy cells join {got}, expected {want}"})
        by_name = {kd["name"]: kd for kd in snap["kids"]}
        for kd in case["kids"]:
            g = by_name.get(f"d{kd['id']}")
            if g is None:
                fails.append({"key": "copy-data-missing", "what": f"child d{kd['id']} missing in the copy"})
                continue
            if kd["vals"] is None:
                exp = None
            elif kd["assoc"] == "VERTEX":
                exp = [x for x, b in zip(kd["vals"], mask) if b]
            elif kd["assoc"] == "CELL":
                exp = [x for x, b in zip(kd["vals"], keepc) if b]
            else:
                exp = kd["vals"]
            if g["vals"] != exp:
                fails.append({"key": "copy-data", "what": f"child d{kd['id']} ({kd['assoc']}) values {g['vals']} != expected {exp}"})
    # Data.mask_by_extent: vertex data follow the vertex test, cell data the all-vertices test (no orphan logic, no None)
    q = [_inside(p, box) != case["inverse"] for p in case["verts"]]
    for d in obs["dmasks"]:
        if "error" in d:
            fails.append({"key": "data-mask-raised", "what": f"Data.mask_by_extent of {d['name']} raised {d['error']}"})
            continue
        if d["assoc"] == "VERTEX":
            exp = q
        elif d["assoc"] == "CELL":
            exp = [all(q[v] for v in c) for c in case["cells"]]
        else:
            exp = None
        if d["mask"] != exp:
            fails.append({"key": "data-mask-not-exact", "what": f"Data.mask_by_extent of {d['name']} ({d['assoc']}) = {d['mask']}, expected {exp}"})
            break
    if obs["after"] != obs["init"]:
        fails.append({"key": "source-changed", "what": "the source object changed during selection"})
    return fails[:3]


def _oracle_located(case, obs):
    """block model / octree cell centres and drillhole collars: selected iff inside the closed box"""
    box, inv = case["box_half"], case["inverse"]
    locs = obs["locs2"]
    if any(isinstance(x, dict) for p in locs for x in p):
        return [{"key": "located-centroids", "what": f"locations are not on the half-integer lattice: {locs}"}]
    if case["what"] == "block":
        o = case["origin"]
        mids = lambda d, k: [2 * o[k] + d[i] + d[i + 1] for i in range(len(d) - 1)]  # noqa: E731
        want = sorted([x, y, z] for x in mids(case["u"], 0) for y in mids(case["v"], 1) for z in mids(case["z"], 2))
        if sorted(locs) != want:
            return [{"key": "located-centroids", "what": f"block model centroids {sorted(locs)} != cell mid-points {want}"}]
    if case["what"] == "drill" and locs != [[2 * x for x in case["collar"]]]:
        return [{"key": "located-centroids", "what": f"collar {locs}"}]
    om = obs["mask"]
    if "error" in om:
        return [{"key": "located-mask-raised", "what": f"mask_by_extent raised {om['error']}"}]
    q = [_inside(p, box) != inv for p in locs]
    miss = any(max(min(p[k] for p in locs), box[k][0]) > min(max(p[k] for p in locs), box[k][1]) for k in range(len(box)))
    if om["mask"] is None:
        if not (miss or not any(q)):
            return [{"key": "located-none-but-elements-qualify", "what": f"None although locations qualify (box {box})"}]
    elif om["mask"] != q:
        return [{"key": "located-mask-not-exact", "what": f"{case['what']}: mask {om['mask']} != expected {q} for locations {locs}, box {box}, inverse {inv}"}]
    if case["what"] == "drill":
        hc, sel = obs["hole_copy"], (q[0] and not miss)
        if "error" in hc:
            return [{"key": "drillhole-copy-from-extent-raises" if obs["n_vertices"] not in (None, 1) else "drillhole-copy-raised",
                     "what": f"Drillhole.copy_from_extent raised {hc['error']} (collar {'selected' if sel else 'not selected'}, n_vertices {obs['n_vertices']})"}]
        if hc.get("none"):
            if sel:
                return [{"key": "drillhole-not-copied", "what": "the collar is selected but copy_from_extent returned None"}]
        elif not sel:
            return [{"key": "drillhole-copied-though-collar-not-selected",
                     "what": f"the collar does not qualify (box {box}, inverse {inv}) but the hole was copied"}]
        elif hc["n_vertices"] != obs["n_vertices"] or hc["collar"] != locs[0]:
            return [{"key": "drillhole-copy-differs", "what": f"the copy has {hc['n_vertices']} vertices / collar {hc['collar']}, the hole {obs['n_vertices']} / {locs[0]}"}]
    if case.get("kids"):
        # copy_from_extent of a block model / octree: same grid, cell data keep their value inside the box and hold the kind's
        # no-data value outside, object-level data are copied as they are
        n, cp = obs["n_cells"], obs["copy"]
        src = [kd["pool"][:1] if kd.get("object") else kd["pool"][:n] for kd in case["kids"]]
        if obs.get("src_after") != src:
            return [{"key": "located-source-changed", "what": f"source data {obs.get('src_after')} != {src} after the copy"}]
        if "error" in cp:
            text = any(kd["kind"] == "text" and not kd.get("object") for kd in case["kids"])
            key = "grid-copy-text-raises" if text and cp["error"] == "TypeError" and om["mask"] is not None else "located-copy-raised"
            return [{"key": key, "what": f"{case['what']}.copy_from_extent raised {cp['error']} (children kinds {[kd['kind'] for kd in case['kids']]})"}]
        if cp.get("none"):
            if not (miss or not any(q)):
                return [{"key": "located-copy-none-but-elements-qualify", "what": "copy_from_extent returned None although cell centres qualify"}]
            return []
        if cp["n_cells"] != n:
            return [{"key": "located-copy-grid-changed", "what": f"the copy has {cp['n_cells']} cells, the source {n}"}]
        for kd, v, got in zip(case["kids"], src, cp["vals"]):
            want = v if kd.get("object") else [x if b else (0 if kd["kind"] == "bool" else None) for x, b in zip(v, q)]
            if got != want:
                return [{"key": "located-copy-values", "what": f"{kd['kind']} child of the copy holds {got}, expected {want} (mask {q})"}]
    return []


def _oracle_group(case, obs):
    cp = obs["copy"]
    if "error" in cp:
        if cp.get("stray"):
            return [{"key": "group-copy-failure-leaves-stray-group",
                     "what": f"Group.copy_from_extent raised {cp['error']} and left the partial group copy in the workspace"}]
        if all(lo <= hi for lo, hi in case["box"]):
            return [{"key": "group-copy-raised", "what": f"Group.copy_from_extent raised {cp['error']} for a valid box"}]
        return []   # an inverted box is refused: nothing is defined, nothing is left behind

    def status(spec):
        """(must be kept, must be dropped) by the text: something qualifies / the box misses the bounding box"""
        c = {"cls": spec["cls"], "verts": spec["verts"], "cells": spec["cells"], "box": case["box"], "inverse": case["inverse"]}
        mask, keepc, miss, none_q = _expected(c)
        return (not miss and not none_q), (miss or (none_q and spec["cls"] != "Points"))

    fails = []
    found = {} if cp.get("none") else {c["name"]: c for c in cp["children"]}

    def check(name, spec, where):
        must, mustnot = status(spec)
        present = name in where
        if must and not present:
            fails.append({"key": "group-child-missing", "what": f"child {name} has qualifying elements but is not in the group copy"})
        if mustnot and present:
            fails.append({"key": "group-child-extra", "what": f"child {name} has no selection but is in the group copy"})
        if present:
            sub = _oracle_mesh_copy(dict(spec, kids=[], box=case["box"], inverse=case["inverse"]), where[name]["snap"])
            fails.extend(sub)

    for i, spec in enumerate(case["children"]):
        check(f"c{i}", spec, found)
    if case["sub"] is not None:
        subfound = {c["name"]: c for c in found["s"]["children"]} if "s" in found else {}
        for j, spec in enumerate(case["sub"]):
            check(f"n{j}", spec, subfound)
        if "s" in found and not found["s"]["children"]:
            fails.append({"key": "group-empty-subgroup", "what": "an empty sub-group was copied"})
    if not cp.get("none") and not cp["children"]:
        fails.append({"key": "group-empty-copy", "what": "an empty group copy was returned"})
    if not cp.get("none"):
        kept = [c["name"] for c in cp["children"]]
        if kept != [n for n in obs["order"] if n in kept]:
            fails.append({"key": "group-child-order", "what": f"children of the copy {kept} are not in the source's order {obs['order']}"})
    return fails[:3]


def _oracle_mesh_copy(case, snap):
    """geometry of one copied child against the text (vertices kept, cells re-indexed on the same coordinates)"""
    mask, keepc, _, _ = _expected(case)
    ev = [list(case["verts"][i]) for i, b in enumerate(mask) if b]
    if snap["verts"] != ev:
        return [{"key": "copy-vertices", "what": f"copy vertices {snap['verts']} != expected {ev}"}]
    if case["cls"] != "Points":
        got = [[tuple(snap["verts"][v]) if 0 <= v < len(snap["verts"]) else None for v in c] for c in snap["cells"]]
        want = [[tuple(case["verts"][v]) for v in c] for c, b in zip(case["cells"], keepc) if b]
        if got != want:
            return [{"key": "copy-cells", "what": f"copy cells join {got}, expected {want}"}]
    return []


def _oracle_grid(case, obs):
    fails = []
    cp = obs.get("copy", {})
    nu, nv = case["nu"], case["nv"]
    box = case["box_half"]
    cent = _centres2(case)  # exact, from the format's convention
    if obs.get("centroids2") != cent:
        return [{"key": "grid-centroids", "what": f"centroids {obs.get('centroids2')} != origin + R((i+1/2)du, (j+1/2)dv)"}]
    inside = [_inside(p, box) for p in cent]
    if "error" in cp:
        return [{"key": "grid-copy-raised", "what": f"Grid2D.copy_from_extent raised {cp['error']}"}]
    if cp.get("none"):
        if any(inside):
            fails.append({"key": "grid-none-but-cells-inside", "what": "None although cell centres lie in the box"})
        return fails
    if not any(inside):
        return [{"key": "grid-copy-of-nothing", "what": "a copy was returned although no cell centre lies in the box"}]
    us = sorted({i for j in range(nv) for i in range(nu) if inside[j * nu + i]})
    vs = sorted({j for j in range(nv) for i in range(nu) if inside[j * nu + i]})
    u0, u1, v0, v1 = us[0], us[-1], vs[0], vs[-1]
    exp = {"nu": u1 - u0 + 1, "nv": v1 - v0 + 1, "origin2": _origin2(case, u0, v0)}
    got = {k: cp[k] for k in ("nu", "nv", "origin2")}
    if got != exp:
        gap = len(us) != u1 - u0 + 1 or len(vs) != v1 - v0 + 1
        key = "grid-subgrid-gap" if gap and got["nu"] == len(us) and got["nv"] == len(vs) else "grid-not-minimal"
        fails.append({"key": key, "what": f"sub-grid {got} != smallest sub-grid covering the selected cells {exp} (selected columns {us}, rows {vs})"})
        return fails
    for name, src, got_v in (("d1", case["vals"], cp["vals"]), ("d2", case.get("vals2"), cp.get("vals2"))):
        if src is None:
            continue
        ev = [src[j * nu + i] if inside[j * nu + i] else None for j in range(v0, v1 + 1) for i in range(u0, u1 + 1)]
        if got_v != ev:
            fails.append({"key": "grid-values", "what": f"sub-grid values of {name} {got_v} != expected {ev} (children {obs.get('child_order')})"})
            break
    return fails


# ----------------------------------------------------------------------------- evidence helpers
def nontrivial(case, obs):
    if case["kind"] == "located":
        m = obs.get("mask", {}).get("mask")
        return bool(m) and any(m) and (not all(m) or len(m) == 1)
    if case["kind"] == "group":
        cp = obs.get("copy", {})
        return "children" in cp and 0 < len(cp["children"]) < len(obs.get("order", []))
    if case["kind"] == "fmesh":
        m = obs.get("mask", {}).get("mask")
        return bool(m) and any(m) and not all(m)
    if case["kind"] == "grid":
        cp = obs.get("copy", {})
        return "nu" in cp and cp["nu"] * cp["nv"] < case["nu"] * case["nv"]
    m = obs.get("mask", {}).get("mask")
    return bool(m) and any(m) and not all(m)


def histogram(cases, obs):
    h = {"kind": {}, "cls": {}, "ndim": {}, "inverse": 0, "result": {}, "on_boundary": 0, "degenerate_box": 0, "inverted_box": 0}
    for c, o in zip(cases, obs):
        h["kind"][c["kind"]] = h["kind"].get(c["kind"], 0) + 1
        if c["kind"] == "located":
            h.setdefault("located", {})
            m = o.get("mask", {})
            r = c["what"] + ":" + ("error" if "error" in m else "none" if m.get("mask") is None else "all" if all(m["mask"]) else "empty" if not any(m["mask"]) else "some")
            h["located"][r] = h["located"].get(r, 0) + 1
            continue
        if c["kind"] == "group":
            h.setdefault("group", {})
            cp = o.get("copy", {})
            r = "none" if cp.get("none") else "error" if "error" in cp else f"{len(cp['children'])}of{len(o['order'])}"
            h["group"][r] = h["group"].get(r, 0) + 1
            continue
        if c["kind"] == "fmesh":
            if any(isinstance(x, str) for b in c["box"] for x in b):
                h["half_infinite_box"] = h.get("half_infinite_box", 0) + 1
            c, o = _scaled(c, o)
        if c["kind"] == "grid":
            h.setdefault("grid_pre_child", {})
            h["grid_pre_child"][c.get("pre", "none")] = h["grid_pre_child"].get(c.get("pre", "none"), 0) + 1
            h.setdefault("grid_rotation", {})
            h["grid_rotation"][c.get("rot", "0")] = h["grid_rotation"].get(c.get("rot", "0"), 0) + 1
            cent = _centres2(c)
            ins = [_inside(p, c["box_half"]) for p in cent]
            us = sorted({i for j in range(c["nv"]) for i in range(c["nu"]) if ins[j * c["nu"] + i]})
            vs = sorted({j for j in range(c["nv"]) for i in range(c["nu"]) if ins[j * c["nu"] + i]})
            if us and (len(us) != us[-1] - us[0] + 1 or len(vs) != vs[-1] - vs[0] + 1):
                h["grid_selection_with_gap"] = h.get("grid_selection_with_gap", 0) + 1
            cp = o.get("copy", {})
            r = "grid:" + ("none" if cp.get("none") else "error" if "error" in cp else "copy")
            h["result"][r] = h["result"].get(r, 0) + 1
            continue
        h["cls"][c["cls"]] = h["cls"].get(c["cls"], 0) + 1
        nd = str(len(c["box"]))
        h["ndim"][nd] = h["ndim"].get(nd, 0) + 1
        h["inverse"] += int(c["inverse"])
        if any(lo == hi for lo, hi in c["box"]):
            h["degenerate_box"] += 1
        if any(lo > hi for lo, hi in c["box"]):
            h["inverted_box"] += 1
        if any(_inside(p, c["box"]) and any(p[k] in c["box"][k] for k in range(len(c["box"]))) for p in c["verts"]):
            h["on_boundary"] += 1
        om = o.get("mask", {})
        r = "error" if "error" in om else "none" if om.get("mask") is None else "all" if all(om["mask"]) else "empty" if not any(om["mask"]) else "some"
        h["result"][r] = h["result"].get(r, 0) + 1
    return h
