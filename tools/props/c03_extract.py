"""C03 table extractor — run as a subprocess with PYTHONPATH=<repo>:<verif>/tools

    python -m props.c03_extract <repo> <out.json>

Walks the `ast` of every class under geoh5py/{shared,objects,groups,data,workspace} (reflection on the package
imported from <repo> gives the class hierarchy, attribute maps and KEY_MAP) and emits

  funcs   : every property setter / helper method / `__setitem__` reachable from a setter: the list of *paths* through
            its body, each a list of events
                ["store", field] | ["persist", label] | ["persist_all"] | ["persist_pg"] |
                ["call", name] (virtual: resolved per concrete class) | ["callf", func_id] (static) |
                ["unsupported", reason]
            if/else enumerated; loop/try accepted only when the body holds no event (else `unsupported`);
            `with` bodies are inlined; paths that end in `raise`/failed `assert` are dropped (counted).
  classes : per concrete class: resolution name -> func id, `has_on_file`, routes label -> fields (or null = the
            persistence call raises), the assignable attributes (pairs) with the fields their getter reads.
  dispatch: `H5Writer.update_field` label lists, `write_attributes` skip keys, KEY_MAP labels.

Everything is fail-closed: a shape that is not understood yields an `unsupported` event (the pair then fails
`pair_ok` in Coq) or raises `Refuse` (regeneration error).
"""
from __future__ import annotations

import ast
import importlib
import inspect
import json
import pkgutil
import sys
from pathlib import Path

PKGS = ("shared", "objects", "groups", "data", "workspace")
MUTATORS = {"update", "append", "extend", "pop", "remove", "clear", "insert", "setdefault", "popitem", "sort", "reverse"}
MAX_PATHS = 400

# Assignable attributes that are not "attribute changes" in the sense of the property (identity, containment,
# bookkeeping flags, file handles): reported in the table with scope=false, never silently dropped.
OUT_OF_SCOPE = {
    "visual_parameters": "reference to a child VisualParameters entity (looked up among the children; stored as the child, C01)",
    "image": "GeoImage picture: stored as the child FilenameData 'GeoImageMesh_Image' (C01); exercised by the oracle only",
    "depths": "reference to the child 'DEPTH' data of a drillhole (stored as the child, C01/C18)",
    "ab_cell_id": "reference to the child 'A-B Cell ID' data (stored as the child, C20)",
    "tx_id_property": "reference to the child 'Transmitter ID' data (stored as the child + metadata, C20)",
    "parent": "containment move (C05/C01 `Move`), not an attribute value",
    "uid": "identity (C06)",
    "on_file": "bookkeeping flag, not a stored value",
    "workspace": "owner handle of an entity type (set once)",
    "h5file": "file handle/path of the workspace (set once)",
    "repack": "run-time flag, not stored",
    "data": "Concatenator cache of concatenated datasets (C04)",
    "index": "Concatenator cache of concatenated indices (C04)",
    "concatenated_attributes": "Concatenator bulk table (C04)",
    "concatenated_object_ids": "Concatenator bulk table (C04)",
}
OUT_OF_SCOPE_QUAL = {
    "CurrentElectrode.current_electrodes": "setter ignores its argument by design (a current electrode is its own current_electrodes)",
}
# Conditions that hold for every stored entity/type (the quantifier of the property): the false branch is infeasible.
INVARIANT_TRUE = {"self.workspace"}


class Refuse(Exception):
    pass


# ----------------------------------------------------------------------------- reflection
def load_classes(repo: Path):
    import geoh5py

    if Path(geoh5py.__file__).resolve().parents[1] != repo.resolve():
        raise Refuse(f"geoh5py imported from {geoh5py.__file__}, expected under {repo}")
    mods = []
    for m in pkgutil.walk_packages(geoh5py.__path__, "geoh5py."):
        if any(m.name == f"geoh5py.{d}" or m.name.startswith(f"geoh5py.{d}.") for d in PKGS):
            mods.append(importlib.import_module(m.name))
    classes = {}
    for mod in mods:
        for _, c in inspect.getmembers(mod, inspect.isclass):
            if c.__module__ == mod.__name__:
                if c.__name__ in classes and classes[c.__name__] is not c:
                    raise Refuse(f"two classes named {c.__name__}")
                classes[c.__name__] = c
    # classes created at run time by Workspace.create_object_or_group (version > 1.0): a drillhole group is always
    # instantiated as type("Concatenator" + name, (Concatenator, member), {})
    ws_src = (repo / "geoh5py/workspace/workspace.py").read_text()
    site = "member = type('Concatenator' + name, (Concatenator, member), {})"
    guard = "if member in (DrillholeGroup, IntegratorDrillholeGroup):"
    flat = ast.unparse(ast.parse(ws_src))
    if site in flat:
        if guard not in flat:
            raise Refuse("Workspace.create_object_or_group: the set of classes wrapped into a Concatenator changed")
        for nm in ("DrillholeGroup", "IntegratorDrillholeGroup"):
            dyn = type("Concatenator" + nm, (classes["Concatenator"], classes[nm]), {})
            dyn.__module__ = "geoh5py.workspace.workspace"
            classes["Concatenator" + nm] = dyn
    elif "Concatenator" in flat and "type(" in flat:
        raise Refuse("Workspace.create_object_or_group: dynamic Concatenator class creation changed shape")
    return classes


class Source:
    """AST of every class body, keyed by class object."""

    def __init__(self, repo: Path, classes: dict):
        self.repo = repo
        self.trees = {}
        self.cdefs = {}
        for c in classes.values():
            if c.__module__ == "geoh5py.workspace.workspace" and c.__name__.startswith("Concatenator") and c.__name__ != "Concatenator":
                f = (repo / "geoh5py/workspace/workspace.py").resolve()
                self.trees.setdefault(f, ast.parse(f.read_text()))
                self.cdefs[c] = (f, ast.ClassDef(name=c.__name__, bases=[], keywords=[], body=[], decorator_list=[], lineno=1))
                continue
            f = Path(inspect.getsourcefile(c)).resolve()
            if f not in self.trees:
                self.trees[f] = ast.parse(f.read_text())
            first = inspect.getsourcelines(c)[1]
            found = None
            for n in ast.walk(self.trees[f]):
                if isinstance(n, ast.ClassDef) and n.name == c.__name__:
                    lo = min([n.lineno] + [d.lineno for d in n.decorator_list])
                    if lo <= first <= n.lineno:
                        found = n
            if found is None:
                raise Refuse(f"class {c.__name__} not found in {f}")
            self.cdefs[c] = (f, found)

    def rel(self, f: Path) -> str:
        return str(f.relative_to(self.repo))

    def members(self, c):
        """name -> {"get": FunctionDef, "set": FunctionDef, "method": FunctionDef} defined in the body of class c"""
        f, cd = self.cdefs[c]
        out = {}
        for n in cd.body:
            if not isinstance(n, (ast.FunctionDef,)):
                continue
            kind = "method"
            for d in n.decorator_list:
                if isinstance(d, ast.Name) and d.id == "property":
                    kind = "get"
                elif isinstance(d, ast.Attribute) and d.attr == "setter":
                    kind = "set"
                elif isinstance(d, ast.Attribute) and d.attr in ("getter", "deleter"):
                    kind = "other"
                elif isinstance(d, ast.Name) and d.id in ("staticmethod", "classmethod"):
                    kind = "static" if d.id == "staticmethod" else "classmethod"
            out.setdefault(n.name, {})[kind] = n
        return out


# ----------------------------------------------------------------------------- path extraction
def is_self(n):
    return isinstance(n, ast.Name) and n.id == "self"


def self_attr(n):
    """`self.<name>` -> name"""
    if isinstance(n, ast.Attribute) and is_self(n.value):
        return n.attr
    return None


class Ctx:
    """What the path extractor needs to know about names: which public names are settable properties somewhere,
    which are methods (by name, over all classes in scope)."""

    def __init__(self, setter_names, method_names, getter_names, static_resolver, via_fields=()):
        self.setter_names = setter_names
        self.method_names = method_names
        self.getter_names = getter_names
        self.static_resolver = static_resolver
        self.via_fields = set(via_fields)  # property names p whose getter returns the object held in self._p
        self.valparam = None  # name of the value parameter of the setter being walked


def via_store(nm, ctx, line):
    """mutation of the object returned by property self.<nm> (item assignment, .append, ...)"""
    if nm in ctx.via_fields:
        return [["store", "_" + nm]]
    return [["unsupported", f"mutation through self.{nm} at line {line}"]]


def base_self_attr(n):
    """self.<name>[..][..]  ->  name"""
    while isinstance(n, ast.Subscript):
        n = n.value
    return self_attr(n)


def expr_events(e, ctx: Ctx, line):
    """Events caused by evaluating expression e, in evaluation order (post-order)."""
    ev = []
    if e is None:
        return ev

    def visit(n):
        if isinstance(n, (ast.Lambda, ast.GeneratorExp, ast.ListComp, ast.SetComp, ast.DictComp)):
            inner = []
            for ch in ast.iter_child_nodes(n):
                inner += sub(ch)
            if inner:
                ev.append(["unsupported", f"event inside comprehension/lambda at line {n.lineno}"])
            return
        if isinstance(n, ast.Call):
            fn = n.func
            # super(A, B).name.fset(self, v)  /  Cls.name.fset(self, v)
            if isinstance(fn, ast.Attribute) and fn.attr == "fset" and isinstance(fn.value, ast.Attribute):
                for a in n.args:
                    visit(a)
                tgt = ctx.static_resolver(fn.value.value, fn.value.attr)
                if tgt is None or not (n.args and is_self(n.args[0])):
                    ev.append(["unsupported", f"unresolved static setter call at line {n.lineno}"])
                else:
                    ev.append(["callf", tgt])
                return
            # <x>.update_attribute(target, "label", ...)
            if isinstance(fn, ast.Attribute) and fn.attr == "update_attribute":
                visit(fn.value)
                for a in n.args[1:]:
                    visit(a)
                if n.args and is_self(n.args[0]):
                    if len(n.args) == 2 and isinstance(n.args[1], ast.Constant) and isinstance(n.args[1].value, str) and not n.keywords:
                        ev.append(["persist", n.args[1].value])
                    else:
                        ev.append(["unsupported", f"update_attribute with a non-literal label/channel at line {n.lineno}"])
                return  # other target: not an event of self
            if isinstance(fn, ast.Attribute) and fn.attr == "save_entity" and n.args and is_self(n.args[0]):
                visit(fn.value)
                ev.append(["persist_all"])
                return
            if isinstance(fn, ast.Attribute) and fn.attr == "add_or_update_property_group" and n.args and is_self(n.args[0]):
                visit(fn.value)
                ev.append(["persist_pg"])
                return
            # self._x.mutator(...)  /  self.prop[..].mutator(...)
            if isinstance(fn, ast.Attribute) and fn.attr in MUTATORS and base_self_attr(fn.value):
                for a in n.args:
                    visit(a)
                for k in n.keywords:
                    visit(k.value)
                nm = base_self_attr(fn.value)
                if nm.startswith("_"):
                    ev.append(["store", nm])
                elif nm in ctx.getter_names:
                    ev.extend(via_store(nm, ctx, n.lineno))
                return
            # self.m(...)
            if isinstance(fn, ast.Attribute) and is_self(fn.value):
                for a in n.args:
                    visit(a)
                for k in n.keywords:
                    visit(k.value)
                if fn.attr in ctx.method_names:
                    ev.append(["call", fn.attr])
                return
            # setattr(self, ...)
            if isinstance(fn, ast.Name) and fn.id == "setattr" and n.args and is_self(n.args[0]):
                ev.append(["unsupported", f"setattr(self, ...) at line {n.lineno}"])
                return
        for ch in ast.iter_child_nodes(n):
            visit(ch)

    def sub(n):
        saved = list(ev)
        del ev[:]
        visit(n)
        got = list(ev)
        del ev[:]
        ev.extend(saved)
        return got

    visit(e)
    return ev


def target_events(t, ctx: Ctx, line):
    """Events of assigning to target t."""
    if isinstance(t, (ast.Tuple, ast.List)):
        out = []
        for x in t.elts:
            out += target_events(x, ctx, line)
        return out
    if isinstance(t, ast.Starred):
        return target_events(t.value, ctx, line)
    name = self_attr(t)
    if name is not None:
        if name.startswith("_"):
            return [["store", name]]
        if name in ctx.setter_names:
            return [["call", name + "="]]
        return [["store", name]]  # plain public attribute on self
    if isinstance(t, ast.Subscript):
        base = t.value
        while isinstance(base, ast.Subscript):
            base = base.value
        nm = self_attr(base)
        if nm is not None:
            if nm.startswith("_"):
                return [["store", nm]]
            return via_store(nm, ctx, line)
        return []
    return []  # local name or attribute of another object


def has_stmt(stmts, types):
    for s in stmts:
        for n in ast.walk(s):
            if isinstance(n, types):
                return True
    return False


def block_events(stmts, ctx):
    """All events of a statement list, flattened without regard to control flow (used to test 'body holds no event')."""
    out = []
    for s in stmts:
        for n in ast.walk(s):
            if isinstance(n, (ast.Assign, ast.AugAssign, ast.AnnAssign)):
                tg = n.targets if isinstance(n, ast.Assign) else [n.target]
                for t in tg:
                    out += target_events(t, ctx, n.lineno)
            elif isinstance(n, ast.Delete):
                for t in n.targets:
                    out += target_events(t, ctx, n.lineno)
            elif isinstance(n, ast.expr) and isinstance(n, ast.Call):
                out += expr_events(n, ctx, n.lineno)
    return out


def paths_of(stmts, ctx: Ctx):
    """-> (list of (events, ending)), ending in {"open","return","raise"}"""
    paths = [([], "open")]

    def extend(evs):
        nonlocal paths
        paths = [(p + evs, st) if st == "open" else (p, st) for p, st in paths]

    def fork(alternatives):
        """alternatives: list of path-lists to continue every open path with"""
        nonlocal paths
        new = []
        for p, st in paths:
            if st != "open":
                new.append((p, st))
                continue
            for alt in alternatives:
                for q, st2 in alt:
                    new.append((p + q, st2))
        if len(new) > MAX_PATHS:
            new = [(p + [["unsupported", "too many paths"]], st) for p, st in new[:1]]
        paths = new

    for s in stmts:
        if all(st != "open" for _, st in paths):
            break
        ln = s.lineno
        if isinstance(s, ast.Expr):
            if isinstance(s.value, ast.Constant):
                continue
            extend(expr_events(s.value, ctx, ln))
        elif isinstance(s, ast.Assign):
            ev = expr_events(s.value, ctx, ln)
            for t in s.targets:
                ev += target_events(t, ctx, ln)
            extend(ev)
        elif isinstance(s, ast.AnnAssign):
            ev = expr_events(s.value, ctx, ln)
            if s.value is not None:
                ev += target_events(s.target, ctx, ln)
            extend(ev)
        elif isinstance(s, ast.AugAssign):
            extend(expr_events(s.value, ctx, ln) + target_events(s.target, ctx, ln))
        elif isinstance(s, ast.Delete):
            ev = []
            for t in s.targets:
                ev += target_events(t, ctx, ln)
            extend(ev)
        elif isinstance(s, ast.Pass):
            continue
        elif isinstance(s, ast.Assert):
            extend(expr_events(s.test, ctx, ln))
            fork([[([], "open")], [([], "raise")]])
        elif isinstance(s, ast.Raise):
            extend(expr_events(s.exc, ctx, ln))
            fork([[([], "raise")]])
        elif isinstance(s, ast.Return):
            extend(expr_events(s.value, ctx, ln))
            fork([[([], "return")]])
        elif isinstance(s, ast.If):
            extend(expr_events(s.test, ctx, ln))
            src = ast.unparse(s.test)
            then_p = paths_of(s.body, ctx)
            else_p = paths_of(s.orelse, ctx) if s.orelse else [([], "open")]
            if ctx.valparam and src == f"{ctx.valparam} is not None":
                else_p = [([["none"]] + p, st) for p, st in else_p]
            elif ctx.valparam and src == f"{ctx.valparam} is None":
                then_p = [([["none"]] + p, st) for p, st in then_p]
            elif ctx.valparam and any(isinstance(n, ast.Name) and n.id == ctx.valparam for n in ast.walk(s.test)):
                # a branch decided by the assigned value itself (not by the state of the entity)
                then_p = [([["valdep", ln]] + p, st) for p, st in then_p]
                else_p = [([["valdep", ln]] + p, st) for p, st in else_p]
            alts = [then_p]
            if src not in INVARIANT_TRUE:
                alts.append(else_p)
            fork(alts)
        elif isinstance(s, (ast.Continue, ast.Break)):
            fork([[([], "loopend")]])
        elif isinstance(s, ast.With):
            ev = []
            for it in s.items:
                ev += expr_events(it.context_expr, ctx, ln)
            extend(ev)
            fork([paths_of(s.body, ctx)])
        elif isinstance(s, (ast.For, ast.While, ast.Try)):
            body = [s]
            evs = block_events(body, ctx)
            if evs and isinstance(s, (ast.For, ast.While)) and not s.orelse:
                # a loop with events: kept as a first-class `loop` event (any number of iterations, any body path each time)
                extend(expr_events(s.iter if isinstance(s, ast.For) else s.test, ctx, ln))
                bodies, bad = [], None
                for q, st in paths_of(s.body, ctx):
                    if st == "raise":
                        continue
                    if st == "return":
                        bad = f"return inside the loop at line {ln}"
                    if any(e[0] == "loop" for e in q):
                        bad = f"nested loops with events at line {ln}"
                    q = [e for e in q if e[0] not in ("none", "valdep")]
                    if q not in bodies:
                        bodies.append(q)
                if bad:
                    extend([["unsupported", bad]])
                elif any(bodies):
                    extend([["loop", bodies]])
            elif evs:
                extend([["unsupported", f"{type(s).__name__} at line {ln} holds events {sorted({e[0] + ':' + str(e[1]) if len(e) > 1 else e[0] for e in evs})}"]])
            else:
                alts = [[([], "open")]]
                if has_stmt(body, (ast.Raise, ast.Assert)):
                    alts.append([([], "raise")])
                if has_stmt(body, (ast.Return,)):
                    alts.append([([], "return")])
                fork(alts)
        elif isinstance(s, (ast.Import, ast.ImportFrom, ast.Global, ast.Nonlocal)):
            continue
        elif isinstance(s, (ast.FunctionDef, ast.ClassDef)):
            if block_events([s], ctx):
                extend([["unsupported", f"nested definition with events at line {ln}"]])
        else:
            extend([["unsupported", f"statement {type(s).__name__} at line {ln}"]])
    return paths


# ----------------------------------------------------------------------------- reads of a getter/method
def body_reads(fn: ast.FunctionDef):
    """-> (fields, names): private fields read directly, public self.<name> loads (properties or methods)."""
    fields, names = set(), set()
    for n in ast.walk(fn):
        nm = self_attr(n)
        if nm is not None and isinstance(n.ctx, ast.Load):
            (fields if nm.startswith("_") and not nm.startswith("__") else names).add(nm)
        if isinstance(n, ast.Call) and isinstance(n.func, ast.Name) and n.func.id in ("getattr", "hasattr") and len(n.args) >= 2:
            if is_self(n.args[0]) and isinstance(n.args[1], ast.Constant) and isinstance(n.args[1].value, str):
                v = n.args[1].value
                (fields if v.startswith("_") else names).add(v)
    return fields, names


# ----------------------------------------------------------------------------- writer dispatch
def writer_facts(repo: Path):
    f = repo / "geoh5py/io/h5_writer.py"
    tree = ast.parse(f.read_text())
    cd = next(n for n in tree.body if isinstance(n, ast.ClassDef) and n.name == "H5Writer")
    fns = {n.name: n for n in cd.body if isinstance(n, ast.FunctionDef)}
    uf = fns.get("update_field")
    if uf is None:
        raise Refuse("H5Writer.update_field not found")
    # find the if/elif chain on `attribute`
    chain = None
    for n in ast.walk(uf):
        if isinstance(n, ast.If) and isinstance(n.test, ast.Compare) and isinstance(n.test.left, ast.Name) and n.test.left.id == "attribute":
            chain = n
            break
    if chain is None:
        raise Refuse("update_field: dispatch chain on `attribute` not found")
    dispatch = {}  # label -> routine
    default = None
    node = chain
    while True:
        t = node.test
        if not (isinstance(t, ast.Compare) and isinstance(t.left, ast.Name) and t.left.id == "attribute" and len(t.ops) == 1):
            raise Refuse(f"update_field: unexpected test at line {node.lineno}")
        if isinstance(t.ops[0], ast.In) and isinstance(t.comparators[0], (ast.List, ast.Tuple, ast.Set)):
            labels = [e.value for e in t.comparators[0].elts if isinstance(e, ast.Constant)]
            if len(labels) != len(t.comparators[0].elts):
                raise Refuse(f"update_field: non-literal label list at line {node.lineno}")
        elif isinstance(t.ops[0], ast.Eq) and isinstance(t.comparators[0], ast.Constant):
            labels = [t.comparators[0].value]
        else:
            raise Refuse(f"update_field: unexpected test at line {node.lineno}")
        routine = branch_routine(node.body, node.lineno)
        for l in labels:
            if l in dispatch:
                continue  # first match wins, as in the if/elif chain
            dispatch[l] = routine
        if len(node.orelse) == 1 and isinstance(node.orelse[0], ast.If):
            node = node.orelse[0]
            continue
        default = branch_routine(node.orelse, node.lineno) if node.orelse else "nothing"
        break
    # write_attributes: the keys never written
    wa = fns.get("write_attributes")
    skip = None
    loop_ok = False
    none_after_skip = False
    for n in ast.walk(wa):
        if isinstance(n, ast.For) and ast.unparse(n.iter) == "entity.attribute_map.items()":
            loop_ok = True
            for st in ast.walk(n):
                if isinstance(st, ast.If) and len(st.body) == 1 and isinstance(st.body[0], ast.Continue):
                    for m in ast.walk(st.test):
                        if isinstance(m, ast.Compare) and isinstance(m.left, ast.Name) and m.left.id == "key" and isinstance(m.ops[0], ast.In) \
                                and isinstance(m.comparators[0], ast.List) and skip is None:
                            skip = [e.value for e in m.comparators[0].elts]
                    t = st.test
                    form_a = (isinstance(t, ast.BoolOp) and isinstance(t.op, ast.Or) and len(t.values) == 2
                              and ast.unparse(t.values[0]).startswith("key in [") and ast.unparse(t.values[1]) == "value is None")
                    form_b = isinstance(t, ast.Compare) and ast.unparse(t).startswith("key in [")
                    if form_b:
                        # the None case must then be handled by its own statement right after: delete the attribute, continue
                        ok_b = False
                        for nb in ast.walk(n):
                            if isinstance(nb, ast.If) and ast.unparse(nb.test) == "value is None" and not nb.orelse and len(nb.body) == 2 \
                                    and isinstance(nb.body[1], ast.Continue) and isinstance(nb.body[0], ast.If) \
                                    and ast.unparse(nb.body[0].test) == "key in entity_handle.attrs" and not nb.body[0].orelse \
                                    and len(nb.body[0].body) == 1 and ast.unparse(nb.body[0].body[0]) == "del entity_handle.attrs[key]" \
                                    and nb.lineno > st.lineno:
                                ok_b = True
                        if not ok_b:
                            raise Refuse("write_attributes: the skip test no longer covers None and no `if value is None: "
                                         "<delete the attribute>; continue` follows it: None would reach the type dispatch")
                        none_after_skip = True
                    elif not form_a:
                        raise Refuse("write_attributes: the skip test is neither `key in [...] or value is None` nor `key in [...]` followed by "
                                     f"the None-clearing statement (now: {ast.unparse(t)[:200]}): some values are never written")
            src = ast.unparse(n)
            if "getattr(entity, attr)" not in src or "entity_handle.attrs.create(key" not in src:
                raise Refuse("write_attributes: loop no longer reads getattr(entity, attr) / writes attrs.create(key, ...)")
    if not loop_ok or skip is None:
        raise Refuse("write_attributes: loop over entity.attribute_map.items() / skip list not found")
    # fingerprints of the routines: how they read the entity
    fp = {}
    for name in ("write_array_attribute", "write_data_values", "write_color_map", "write_value_map", "write_property_groups",
                 "write_attributes", "update_field", "write_file_name_data"):
        fn = fns.get(name)
        if fn is None:
            raise Refuse(f"H5Writer.{name} not found")
        reads = set()
        for n in ast.walk(fn):
            if isinstance(n, ast.Call) and isinstance(n.func, ast.Name) and n.func.id == "getattr" and len(n.args) >= 2:
                reads.add("getattr(" + ast.unparse(n.args[0]) + ", " + ast.unparse(n.args[1]) + ")")
            if isinstance(n, ast.Attribute) and isinstance(n.value, ast.Name) and n.value.id in ("entity", "entity_type", "color_map", "reference_value_map") \
                    and isinstance(n.ctx, ast.Load):
                reads.add(n.value.id + "." + n.attr)
        fp[name] = sorted(reads)
    redirect = []
    for name in ("write_array_attribute", "write_data_values"):
        src = ast.unparse(fns[name])
        if "isinstance(entity, Concatenator)" in src and "entity_handle = entity_handle['Concatenated Data']" in src:
            redirect.append(name)
    # fetch_handle: `if entity.name == base: return base_handle` (anything that carries the project's name is taken for
    # the project node) - recorded as the name rule of the model; a guarded test (isinstance ...) switches it off
    fh = fns.get("fetch_handle")
    name_rule = None
    for n in ast.walk(fh):
        if isinstance(n, ast.If) and "entity.name == base" in ast.unparse(n.test) and len(n.body) == 1 and isinstance(n.body[0], ast.Return):
            name_rule = ast.unparse(n.test) == "entity.name == base"
    if name_rule is None:
        raise Refuse("H5Writer.fetch_handle: the project-node shortcut `if entity.name == base: return base_handle` was not found")
    scalar_chain, chain_line = scalar_branches(fns["write_attributes"])
    # does a None value clear the attribute before the skip (`if value is None and key in handle.attrs: del handle.attrs[key]`)?
    none_clears = none_after_skip
    for n in ast.walk(fns["write_attributes"]):
        if isinstance(n, ast.If) and ast.unparse(n.test) == "value is None and key in entity_handle.attrs" \
                and len(n.body) == 1 and ast.unparse(n.body[0]) == "del entity_handle.attrs[key]" and not n.orelse:
            none_clears = True
    writers = {n: writer_steps(fns[n]) for n in ("write_value_map", "write_color_map", "write_array_attribute", "write_data_values")}
    wd = ast.unparse(fns["write_data_values"])
    comments_wrap = "isinstance(entity, CommentsData)" in wd and "values = {'Comments': values}" in wd
    return {"dispatch": dispatch, "default": default, "skip_keys": skip, "fingerprint": fp, "concatenator_redirect": redirect,
            "comments_wrap": comments_wrap, "name_rule": name_rule, "scalar_chain": scalar_chain, "scalar_chain_line": chain_line,
            "writers": writers, "none_clears": none_clears}


TYPE_TAGS = {
    "bool": ["TBool"], "np.bool_": ["TNpBool"], "np.int8": ["TNpInt8"], "np.integer": ["TNpInt8", "TNpInt"],
    "np.int16": ["TNpInt"], "np.int32": ["TNpInt"], "np.int64": ["TNpInt"], "np.uint32": ["TNpInt"],
    "int": ["TInt", "TBool"], "float": ["TFloat", "TNpFloat"], "np.floating": ["TNpFloat"], "np.float64": ["TNpFloat"],
    "np.number": ["TNpInt8", "TNpInt", "TNpFloat"], "str": ["TStr"],
}


def scalar_branches(fn):
    """the if/elif chain of write_attributes that picks the HDF5 encoding from the Python type of `value`:
    -> ([[guard, action], ...], line).  Unknown guards/actions become GBadGuard/ABadAction (the table theorem fails)."""
    chain = None
    for n in ast.walk(fn):
        if isinstance(n, ast.If) and "attrs.create" in ast.unparse(n) and "isinstance(value" in ast.unparse(n.test):
            chain = n
            break
    if chain is None:
        raise Refuse("write_attributes: the isinstance(value, ...) encoding chain was not found")

    def guard(t):
        src = ast.unparse(t)
        if isinstance(t, ast.Call) and isinstance(t.func, ast.Name) and t.func.id == "isinstance" and ast.unparse(t.args[0]) == "value":
            ts = t.args[1].elts if isinstance(t.args[1], ast.Tuple) else [t.args[1]]
            tags = []
            for x in ts:
                nm = ast.unparse(x)
                if nm not in TYPE_TAGS:
                    return ["GBadGuard", src]
                tags += TYPE_TAGS[nm]
            return ["GIsinstance", sorted(set(tags))]
        if src in ("key in entity_handle.attrs", "key in entity_handle.attrs.keys()"):
            return ["GExists"]
        return ["GBadGuard", src]

    def action(body):
        if len(body) != 1 or not isinstance(body[0], ast.Expr) or not isinstance(body[0].value, ast.Call):
            return ["ABadAction", ast.unparse(body)[:80]]
        src = ast.unparse(body[0].value)
        if src == "entity_handle.attrs.create(key, int(value), dtype='int8')":
            return ["ACreateInt8"]
        if src == "entity_handle.attrs.create(key, value, dtype=cls.str_type)":
            return ["ACreateStr"]
        if src == "entity_handle.attrs.create(key, value, dtype=np.asarray(value).dtype)":
            return ["ACreateNative"]
        if src == "entity_handle.attrs.modify(key, value)":
            return ["AModify"]
        return ["ABadAction", src[:80]]

    out = []
    node = chain
    while True:
        out.append([guard(node.test), action(node.body)])
        if len(node.orelse) == 1 and isinstance(node.orelse[0], ast.If):
            node = node.orelse[0]
            continue
        if node.orelse:
            out.append([["GElse"], action(node.orelse)])
        break
    return out, chain.lineno


def writer_steps(fn):
    """statement skeleton of a dataset writer: what is returned early, deleted, created, in source order"""
    body = fn.body
    for st in body:
        if isinstance(st, ast.With):
            body = st.body
            break
    steps = []

    def has(node, pred):
        return any(pred(n) for n in ast.walk(node))

    def is_create(n):
        return isinstance(n, ast.Call) and isinstance(n.func, ast.Attribute) and n.func.attr in ("create_dataset", "write_file_name_data")

    for st in body:
        src = ast.unparse(st)
        if isinstance(st, ast.If):
            test = ast.unparse(st.test)
            rets = has(st, lambda n: isinstance(n, ast.Return))
            creates = has(st, is_create)
            dels = has(st, lambda n: isinstance(n, ast.Delete))
            if rets and "_handle is None" in test and not creates and not dels:
                steps.append(["WRetNoHandle", st.lineno])
            elif rets and not creates and not dels and "is None" in src:
                steps.append(["WRetIfNone", st.lineno])
            elif dels and not creates and not rets:
                steps.append(["WDelete", st.lineno])
            elif creates and not rets and not dels:
                # every branch of the chain creates -> unconditional; a lone `if ... is not None` -> conditional
                node, all_create, has_else = st, True, False
                while True:
                    all_create = all_create and any(has(x, is_create) for x in node.body)
                    if len(node.orelse) == 1 and isinstance(node.orelse[0], ast.If):
                        node = node.orelse[0]
                        continue
                    if node.orelse:
                        has_else = True
                        all_create = all_create and any(has(x, is_create) for x in node.orelse)
                    break
                if all_create and has_else:
                    steps.append(["WCreate", st.lineno])
                elif not st.orelse and "is not None" in test:
                    steps.append(["WCreateIfSome", st.lineno])
                else:
                    steps.append(["WBad", st.lineno])
            elif rets or creates or dels:
                steps.append(["WBad", st.lineno])
        elif isinstance(st, ast.Try):
            if has(st, lambda n: isinstance(n, ast.Delete)) and not has(st, is_create) and not has(st, lambda n: isinstance(n, ast.Return)):
                steps.append(["WDelete", st.lineno])
            elif has(st, is_create) or has(st, lambda n: isinstance(n, ast.Return)):
                steps.append(["WBad", st.lineno])
        elif isinstance(st, ast.Delete):
            steps.append(["WBad", st.lineno])  # an unguarded del raises when nothing is stored yet
        elif has(st, is_create):
            steps.append(["WCreate", st.lineno])
        elif has(st, lambda n: isinstance(n, ast.Return)):
            steps.append(["WBad", st.lineno])
    return steps


def branch_routine(body, line):
    calls = []
    for s in body:
        for n in ast.walk(s):
            if isinstance(n, ast.Call) and isinstance(n.func, ast.Attribute) and isinstance(n.func.value, ast.Name) \
                    and n.func.value.id in ("cls", "H5Writer") and n.func.attr.startswith("write_"):
                calls.append(n.func.attr)
    if len(calls) != 1:
        raise Refuse(f"update_field: branch at line {line} calls {calls}; expected exactly one write_* routine")
    return calls[0]


# what each writer routine is audited to read from the entity; a change makes the extractor refuse (re-audit needed)
EXPECTED_FP = {
    "update_field": ["entity.entity_type", "entity.workspace"],
    "write_array_attribute": ["entity.workspace", "getattr(entity, f'_{attribute}')", "getattr(entity, f'{attribute}')"],
    "write_attributes": ["entity.attribute_map", "getattr(entity, attr)"],
    "write_color_map": ["color_map._values", "color_map.name", "color_map.values", "entity_type.workspace", "getattr(entity_type, 'color_map')"],
    "write_data_values": ["entity.concat_attr_str", "entity.ndv", "entity.workspace", "getattr(entity, 'ndv')", "getattr(entity, attribute)"],
    "write_file_name_data": ["entity.file_name", "entity.workspace"],
    "write_property_groups": ["entity.property_groups", "entity.workspace"],
    "write_value_map": ["entity_type.workspace", "getattr(entity_type, 'value_map')", "reference_value_map.map"],
}


def update_attribute_shape(repo: Path):
    f = repo / "geoh5py/workspace/workspace.py"
    tree = ast.parse(f.read_text())
    cd = next(n for n in tree.body if isinstance(n, ast.ClassDef) and n.name == "Workspace")
    fn = next((n for n in cd.body if isinstance(n, ast.FunctionDef) and n.name == "update_attribute"), None)
    if fn is None:
        raise Refuse("Workspace.update_attribute not found")
    body = [s for s in fn.body if not (isinstance(s, ast.Expr) and isinstance(s.value, ast.Constant))]
    if not (len(body) == 1 and isinstance(body[0], ast.If) and ast.unparse(body[0].test) == "entity.on_file" and not body[0].orelse):
        raise Refuse("Workspace.update_attribute: expected a single `if entity.on_file:` guard")
    inner = body[0].body
    ok = (
        len(inner) == 2 and isinstance(inner[0], ast.If)
        and ast.unparse(inner[0].test) == "isinstance(entity, Concatenated)"
        and "entity.concatenator.update_attributes(entity, attribute)" in ast.unparse(inner[0].body[0])
        and len(inner[0].orelse) == 1 and isinstance(inner[0].orelse[0], ast.If)
        and ast.unparse(inner[0].orelse[0].test) == "channel is not None"
        and "H5Writer.update_field, entity, attribute, mode='r+'" in ast.unparse(inner[0].orelse[0].orelse[0])
        and "H5Writer.clear_stats_cache" in ast.unparse(inner[1])
    )
    if not ok:
        raise Refuse("Workspace.update_attribute: body no longer routes a plain label to H5Writer.update_field(entity, attribute)")
    return {"file": "geoh5py/workspace/workspace.py", "line": fn.lineno}


def all_events(func):
    for p in func["paths"]:
        for e in p["ev"]:
            if e[0] == "loop":
                for b in e[1]:
                    yield from b
            else:
                yield e


# ----------------------------------------------------------------------------- main
def extract(repo: Path):
    classes = load_classes(repo)
    src = Source(repo, classes)
    from geoh5py.shared.utils import KEY_MAP

    Entity = classes["Entity"]
    EntityType = classes["EntityType"]
    extra_roots = [classes[n] for n in ("Workspace", "ColorMap", "ReferenceValueMap", "PropertyGroup") if n in classes]
    concat_root = classes.get("Concatenated")

    def in_scope(c):
        return issubclass(c, (Entity, EntityType)) or any(issubclass(c, r) for r in extra_roots)

    scope = [c for c in classes.values() if in_scope(c)]
    members = {c: src.members(c) for c in classes.values()}

    setter_names, method_names, getter_names = set(), set(), set()
    for c in scope:
        for k in c.__mro__:
            if k in members:
                for nm, kinds in members[k].items():
                    if "set" in kinds:
                        setter_names.add(nm)
                    if "get" in kinds:
                        getter_names.add(nm)
                    if "method" in kinds:
                        method_names.add(nm)

    def static_resolver(node, name):
        """super(A, B).name / Cls.name  -> func id of the setter"""
        if isinstance(node, ast.Call) and isinstance(node.func, ast.Name) and node.func.id == "super" and len(node.args) == 2:
            a, b = node.args
            if isinstance(a, ast.Name) and isinstance(b, ast.Name) and a.id in classes and b.id in classes:
                mro = classes[b.id].__mro__
                after = mro[mro.index(classes[a.id]) + 1:] if classes[a.id] in mro else ()
                for k in after:
                    if k in members and "set" in members[k].get(name, {}):
                        return f"{k.__name__}.{name}="
            return None
        if isinstance(node, ast.Name) and node.id in classes:
            for k in classes[node.id].__mro__:
                if k in members and "set" in members[k].get(name, {}):
                    return f"{k.__name__}.{name}="
        return None

    # ---- which methods/setters can cause an event at all (by name, over every class in scope: conservative)
    via_fields = set()
    for c in scope:
        for k in c.__mro__:
            if k in members:
                for nm, kinds in members[k].items():
                    if "get" in kinds and ("_" + nm) in body_reads(kinds["get"])[0]:
                        via_fields.add(nm)
    ctx_all = Ctx(setter_names, method_names, getter_names, static_resolver, via_fields)
    direct, calls = {}, {}
    for c in scope:
        for k in c.__mro__:
            if k not in members:
                continue
            for nm, kinds in members[k].items():
                for kind, vname in (("method", nm), ("set", nm + "=")):
                    if kind not in kinds:
                        continue
                    evs = block_events(kinds[kind].body, ctx_all)
                    direct[vname] = direct.get(vname, False) or any(e[0] not in ("call",) for e in evs)
                    calls.setdefault(vname, set()).update(e[1] for e in evs if e[0] == "call")
    effectful = {n for n, d in direct.items() if d}
    changed = True
    while changed:
        changed = False
        for n, cs in calls.items():
            if n not in effectful and cs & effectful:
                effectful.add(n)
                changed = True
    ctx = Ctx({n[:-1] for n in effectful if n.endswith("=")} | setter_names, {n for n in effectful if not n.endswith("=")},
              getter_names, static_resolver, via_fields)

    # ---- function table: setters, __setitem__, and methods (lazily, when called)
    funcs = {}

    def add_func(k, name, kind):
        fid = f"{k.__name__}.{name}" + ("=" if kind == "set" else "")
        if fid in funcs:
            return fid
        fn = members[k][name][kind]
        body = fn.body
        funcs[fid] = None  # guard against recursion
        ctx.valparam = fn.args.args[1].arg if kind == "set" and len(fn.args.args) == 2 else None
        ps = paths_of(body, ctx)
        ctx.valparam = None
        normal = []
        for p, st in ps:
            row = {"ev": [e for e in p if e[0] not in ("none", "valdep")], "none": any(e[0] == "none" for e in p)}
            vd = [e[1] for e in p if e[0] == "valdep"]
            if kind == "set" and st != "raise" and vd and not row["none"] and not row["ev"]:
                # the setter accepts a non-None value (ends normally) on a branch chosen by that value and neither stores
                # nor persists anything: an accepted assignment that is silently dropped
                row["ev"] = [["unsupported", f"accepts the value and does nothing (branch on the assigned value at line {vd[-1]})"]]
            if st != "raise" and row not in normal:
                normal.append(row)
        funcs[fid] = {
            "id": fid, "file": src.rel(src.cdefs[k][0]), "line": fn.lineno, "kind": kind,
            "paths": normal, "n_raise_paths": sum(1 for _, st in ps if st == "raise"),
        }
        return fid

    def resolve(c, vname):
        """virtual name ('x=' setter, 'm' method) -> func id for concrete class c (None if absent)"""
        if vname.endswith("="):
            nm = vname[:-1]
            for k in c.__mro__:
                if k in members and nm in members[k] and ("set" in members[k][nm] or "get" in members[k][nm]):
                    if "set" in members[k][nm]:
                        return add_func(k, nm, "set")
                    return None  # overridden by a read-only property
                if nm in getattr(k, "__dict__", {}):
                    return None
            return None
        for k in c.__mro__:
            if k in members and vname in members[k]:
                kinds = members[k][vname]
                if "method" in kinds:
                    return add_func(k, vname, "method")
                return None
        return None

    def reach(c, fid, seen):
        """all virtual names called (transitively) from func fid when self is a c"""
        out = {}
        stack = [fid]
        while stack:
            g = stack.pop()
            if g in seen:
                continue
            seen.add(g)
            for e in all_events(funcs[g]):
                if e[0] == "call":
                    r = resolve(c, e[1])
                    out[e[1]] = r
                    if r is not None:
                        stack.append(r)
                elif e[0] == "callf":
                    # static: make sure the function exists in the table
                    kname, nm = e[1][:-1].split(".")
                    add_func(classes[kname], nm, "set")
                    stack.append(e[1])
        return out

    # ---- reads
    reads_memo = {}

    def reads(c, name, stack=()):
        key = (c, name)
        if key in reads_memo:
            return reads_memo[key]
        if key in stack:
            return set()
        fn = None
        for k in c.__mro__:
            if name in getattr(k, "__dict__", {}):
                obj = k.__dict__[name]
                target = obj.fget if isinstance(obj, property) else obj if inspect.isfunction(obj) else None
                if target is not None:
                    # `@Base.x.setter` in a subclass keeps Base's getter: follow the run-time function to its class
                    owner = classes.get(target.__qualname__.split(".")[0])
                    kinds = members.get(owner, {}).get(target.__name__, {}) if owner else {}
                    fn = kinds.get("get") if isinstance(obj, property) else kinds.get("method")
                break
        if fn is None:
            return set()
        fields, names = body_reads(fn)
        out = set(fields)
        for nm in names:
            out |= reads(c, nm, stack + (key,))
        if not stack:
            reads_memo[key] = out
        return out

    wf = writer_facts(repo)
    for k, v in EXPECTED_FP.items():
        if wf["fingerprint"].get(k) != v:
            raise Refuse(f"H5Writer.{k} reads the entity differently than audited: {wf['fingerprint'].get(k)} (audited {v})")
    ua = update_attribute_shape(repo)

    def attr_fields(c, attr):
        """fields behind `getattr(entity, attr)` for the writer: property -> what its getter reads; else nothing."""
        if not attr.isidentifier():
            return None  # getattr raises AttributeError -> the writer skips the key
        for k in c.__mro__:
            d = getattr(k, "__dict__", {})
            if attr in d:
                if isinstance(d[attr], property):
                    return reads(c, attr)
                return {attr}
        return None

    concatenator = classes.get("Concatenator")
    comments = classes.get("CommentsData")

    def getter_ast(c, name):
        for k in c.__mro__:
            if name in getattr(k, "__dict__", {}):
                obj = k.__dict__[name]
                if isinstance(obj, property) and obj.fget is not None:
                    owner = classes.get(obj.fget.__qualname__.split(".")[0])
                    return members.get(owner, {}).get(name, {}).get("get") if owner else None
                return None
        return None

    def guards_for(c, labels):
        """label -> guard field: the writer routine re-reads the attribute through its getter, and that getter fetches
        the stored value under a key built from another *assignable* attribute (FilenameData.values <- file_name)"""
        out = {}
        for l in labels:
            if wf["dispatch"].get(l, wf["default"]) not in ("write_data_values", "write_array_attribute"):
                continue
            g = getter_ast(c, l)
            if g is None:
                continue
            for n in ast.walk(g):
                if isinstance(n, ast.Assign) and any(self_attr(t) == "_" + l for t in n.targets) and isinstance(n.value, ast.Call):
                    fn = n.value.func
                    if isinstance(fn, ast.Attribute) and fn.attr.startswith("fetch_") and ast.unparse(fn.value) == "self.workspace":
                        keys = [self_attr(a) for a in n.value.args if self_attr(a)]
                        if any(k in setter_names and k not in OUT_OF_SCOPE for k in keys):
                            out[l] = "_" + l
        return out

    def routes_for(c, labels):
        out = _routes_for(c, labels)
        # a scalar of the attribute map has its own storage (an HDF5 attribute written by write_attributes only): the
        # dataset writers do not write it even when the getter they call happens to read it
        amap = getattr(c, "_attribute_map", None)
        scalars = set()
        if isinstance(amap, dict):
            for key, attr in amap.items():
                scalars |= attr_fields(c, attr) or set()
        for l, fs in out.items():
            routine = wf["dispatch"].get(l, wf["default"])
            if fs and routine in ("write_array_attribute", "write_data_values"):
                # these write the one dataset KEY_MAP[label] from the value of the attribute (`entity._<label>` after
                # the getter ran): what else the getter reads on the way is not written
                keep = {"_" + l}
                if l == "values" and "FilenameData" in classes and issubclass(c, classes["FilenameData"]):
                    keep |= attr_fields(c, "file_name") or set()
                out[l] = sorted(f for f in fs if f in keep)
            elif fs and routine != "write_attributes":
                out[l] = sorted(f for f in fs if f not in scalars)
        return out

    def _routes_for(c, labels):
        out = {}
        amap = getattr(c, "_attribute_map", None)
        for l in labels:
            routine = wf["dispatch"].get(l, wf["default"])
            if concatenator is not None and issubclass(c, concatenator) and routine in wf["concatenator_redirect"] \
                    and l not in ("concatenated_attributes", "concatenated_object_ids", "property_group_ids"):
                # the routine writes every dataset of a Concatenator under its "Concatenated Data" sub-group, where
                # neither geoh5py's reader nor the format looks for the group's own metadata/options: nothing is routed
                out[l] = []
                continue
            if comments is not None and issubclass(c, comments) and routine == "write_data_values" and l != "values" and wf["comments_wrap"]:
                # write_data_values wraps whatever it writes for a CommentsData into {"Comments": ...}: a dictionary
                # attribute (metadata) is not stored in the form a reader returns
                out[l] = []
                continue
            if routine == "write_attributes":
                fs = set()
                if isinstance(amap, dict):
                    for key, attr in amap.items():
                        if key in wf["skip_keys"]:
                            continue
                        got = attr_fields(c, attr)
                        if got:
                            fs |= got
                out[l] = sorted(fs)
            elif routine == "write_array_attribute":
                if l not in KEY_MAP:
                    out[l] = None
                    continue
                fs = {"_" + l}
                got = attr_fields(c, l)
                out[l] = sorted(fs | got) if got is not None else []
            elif routine == "write_data_values":
                if l not in KEY_MAP:
                    out[l] = None
                    continue
                got = attr_fields(c, l) or set()
                if l == "values" and "FilenameData" in classes and issubclass(c, classes["FilenameData"]):
                    got = got | (attr_fields(c, "file_name") or set())
                out[l] = sorted(got)
            elif routine in ("write_color_map", "write_value_map", "write_property_groups"):
                nm = {"write_color_map": "color_map", "write_value_map": "value_map", "write_property_groups": "property_groups"}[routine]
                out[l] = sorted(attr_fields(c, nm) or set())
            elif routine == "write_entity_type":
                out[l] = sorted(attr_fields(c, "entity_type") or set())
            else:
                out[l] = None
        return out

    # ---- per concrete class
    cls_rows = []
    for c in sorted(scope, key=lambda k: k.__name__):
        if inspect.isabstract(c):
            continue
        concat = concat_root is not None and issubclass(c, concat_root)
        attrs = []
        for nm in sorted(set(n for k in c.__mro__ if k in members for n in members[k])):
            # resolved property of class c
            prop = None
            for k in c.__mro__:
                if nm in getattr(k, "__dict__", {}):
                    prop = k.__dict__[nm]
                    break
            if nm == "__setitem__":
                fid = resolve(c, nm)
                if fid:
                    attrs.append({"attr": nm, "fid": fid, "own": sorted(reads(c, "__getitem__")), "scope": True, "why": ""})
                continue
            if not isinstance(prop, property) or prop.fset is None:
                continue
            fid = resolve(c, nm + "=")
            if fid is None:
                raise Refuse(f"{c.__name__}.{nm}: setter exists at run time but was not found in the source")
            qual = prop.fset.__qualname__
            if qual + "=" != fid:
                raise Refuse(f"{c.__name__}.{nm}: run-time setter {qual} != source resolution {fid}")
            why = OUT_OF_SCOPE.get(nm) or OUT_OF_SCOPE_QUAL.get(qual) or ""
            attrs.append({"attr": nm, "fid": fid, "own": sorted(reads(c, nm)), "scope": not why, "why": why})
        # closure of calls, resolution table, labels used
        res = {}
        seen = set()
        for a in attrs:
            if a["scope"]:
                res.update(reach(c, a["fid"], seen))
        labels = set()
        for g in seen:
            for e in all_events(funcs[g]):
                if e[0] == "persist":
                    labels.add(e[1])
        pg = "PropertyGroup" in classes and issubclass(c, classes["PropertyGroup"])
        pg_route = None
        if pg:
            fs = set()
            for key, attr in c._attribute_map.items():
                fs |= attr_fields(c, attr) or set()
            pg_route = sorted(fs)
        routes = routes_for(c, sorted(labels))
        watch = set(pg_route or [])  # the file-backed fields: everything some persistence call of this class writes
        for fs in routes.values():
            watch |= set(fs or [])
        cls_rows.append({
            "name": c.__name__, "file": src.rel(src.cdefs[c][0]), "line": src.cdefs[c][1].lineno,
            "has_on_file": hasattr(c, "on_file"),
            "concatenated": bool(concat),
            "kind": ("data" if issubclass(c, classes["Data"]) else "object" if issubclass(c, classes["ObjectBase"]) else
                     "concatenator" if concatenator is not None and issubclass(c, concatenator) else
                     "group" if issubclass(c, classes["Group"]) else "type" if issubclass(c, EntityType) else "other"),
            "resolve": res, "routes": routes, "guards": guards_for(c, sorted(labels)), "pg_route": pg_route,
            "attrs": attrs, "watch": sorted(watch),
            "attribute_map": {k: v for k, v in (getattr(c, "_attribute_map", None) or {}).items()},
        })
    return {
        "funcs": [funcs[k] for k in sorted(funcs)],
        "classes": cls_rows,
        "dispatch": wf["dispatch"], "default_routine": wf["default"], "skip_keys": wf["skip_keys"],
        "key_map_labels": sorted(KEY_MAP), "update_attribute": ua, "name_rule": wf["name_rule"],
        "scalar_chain": wf["scalar_chain"], "scalar_chain_line": wf["scalar_chain_line"], "writers": wf["writers"], "none_clears": wf["none_clears"],
        "out_of_scope": {**OUT_OF_SCOPE, **OUT_OF_SCOPE_QUAL}, "invariants": sorted(INVARIANT_TRUE),
    }


def main():
    repo = Path(sys.argv[1]).resolve()
    out = Path(sys.argv[2])
    try:
        res = extract(repo)
    except Refuse as e:
        out.write_text(json.dumps({"refuse": str(e)}))
        return 0
    out.write_text(json.dumps(res, indent=1, sort_keys=True))
    return 0


if __name__ == "__main__":
    sys.exit(main())
