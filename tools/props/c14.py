"""C14 — ui.json files round-trip.

Case kinds
  fn    one call of a PyLite-translated function / hand-modelled primitive of the codec on generated (nested) values
  file  a ui.json dictionary assembled by the DRIVER from geoh5py/ui_json/templates.py: InputFile(ui_json=..., validate=False),
        .data, write_ui_json to disk, the JSON text, InputFile.read_ui_json, .data again
"""
from __future__ import annotations

import copy
import re

from pylite import units
from props import uipv
from props.uipv import coq, coq_res, dec, enc, jget, jhas, is_jdict
from vlib import common as C

ID = "C14"
PROPERTIES_V = "theories/Properties/C14.v"
_W = uipv.WORLD
W0 = ("{| w_ents := [" + "; ".join(f"({u}%N, {'KEntity' if k == 'ent' else '(KPropGroup ' + uipv.cstring(k[3:]) + ')'})" for u, k in _W["ents"].items())
      + "]; w_desc := [" + "; ".join(f"({u}%N, [" + "; ".join(f"{d}%N" for d in ds) + "])" for u, ds in _W["desc"].items()) + "] |}")
CASE_IMPORTS = ("From Coq Require Import String.\nFrom GV Require Import Prelude.Base Model.PyVal Model.Enforcers Model.UiForms Model.UiCodec.\n"
                "From GVgen Require Import PyLite_SharedUtils PyLite_UiUtils PyLite_Validators Table_UiValidations PyLite_InputFile.\n"
                "Local Open Scope string_scope.\n"
                f"Definition W0 : world := {W0}.")
ALLOWED_AXIOMS: list = []
REFUTED = ["C14_roundtrip_all_strings_refuted (strings shaped like other value kinds)", "C14_roundtrip_all_ints_refuted (32-digit integers)",
           "C14_no_nonfinite_nested_refuted (a non-finite float inside a list inside a list)"]
PARTIAL = ["C14_file_roundtrip / C14_file_roundtrip_promoted (whole dictionaries of any depth; side conditions: every leaf atom_safe - no "
           "colliding string, no 32-digit integer, no NaN, identifiers under the decidable check uuid_text_ok -, lists hold scalars, every "
           "nested form passes ui_validation as written; promotion is the hand model promote)",
           "C14_value_roundtrip (the same per value)", "C14_no_nonfinite_scalar / C14_no_nonfinite_to_json (scalars and lists of scalars)",
           "C14_flatten_spec / C14_flatten_form_entry / C14_enabled_preserved are about the GENERATED flatten and the read-back dictionary; "
           "update_ui_values / set_enabled (aliasing) have a hand model tied by correspondence (round_trip) but no theorem"]
TRUSTED = [
    "Coq 8.16.1 kernel + vm_compute (correspondence evaluation); no axioms",
    "coq/theories/Model/PyVal.v (Python value universe, uuid text / parser, pathlib suffix, np.isfinite) - exercised per primitive by 'fn' cases",
    "tools/pylite/translate.py (ast -> Gallina), cross-checked on every translated function",
    "hand-written coq/theories/Model/UiCodec.v (json dump/load, promote, set_enabled, update_ui_values, the InputFile flow with "
    "validate=False) and Model/UiForms.v (ui_validation over the extracted constants.py table), tied by the file cases",
    "Python's json module and the file system (exercised, modelled as the identity on JSON data)",
    "tools/props/c14.py + uipv.py (generators, driver, tagged-JSON codec, oracle)",
]
ASSUMPTIONS = [
    "strings are printable ASCII; uuid-shaped strings use hex digits only (Python's int() leniency is not modelled)",
    "one workspace (the fixed world of tools/props/uipv.py); InputFile is used with validate=False in the modelled trip "
    "(validation is C15's subject)",
    "a form's value is None only when the form is disabled (an enabled form holding None is switched off by write_ui_json; "
    "the enabled-state oracle skips such forms); set_data_value is judged for optional forms and for non-None values of forms "
    "without an enabled member (a non-optional form carrying enabled: false cannot be switched on by giving it a value)",
    "NaN is not a ui.json value (documented exception of the property)",
]
RULE = ("file: title/geoh5/... base parameters + 2-6 forms drawn from all 12 templates with every optional template member "
        "present/absent independently, workspace file names with extra dots / blanks, validation_options given / partly given / absent, "
        "values set with set_data_value before writing (also on disabled optional parameters), values from the form's domain plus +-inf, integers up to 2^70, strings shaped like other kinds "
        "('' inf -inf uuid-shaped *.geoh5), optional/enabled/group/dependency switches; fn: nested values of depth <= 3; "
        "non-trivial = a file case that reaches the read-back stage with at least one entity, non-finite float, disabled form or "
        "look-alike string, or an fn case on a container")
LEVEL_TEXT = ("Proved about the PyLite translations of the current source: by induction through the generated dict_mapper, demote -> "
              "stringify -> json -> numify returns every ui.json-shaped dictionary (nested forms, any depth, any number of parameters; "
              "leaves safe scalars, lists / tuples of them) leaf-canonical (entities as identifiers, tuples as lists), and promotion "
              "(hand model) gives back exactly the dictionary written; the generated flatten reports None exactly for disabled forms and "
              "the read-back dictionary has the same enabled states; the strings / integers that do not survive are EXACTLY '' / inf / "
              "-inf / uuid-shaped / *.geoh5 / 32-digit integers (iff theorems, witnesses replayed: open findings); no non-finite float "
              "is written for scalars and lists of scalars (refuted for nested lists). Partial: update_ui_values / set_enabled (they "
              "write through aliases) are a hand model tied by write->read on disk only; identifiers rely on a decidable text check.")
TECHNIQUE = "Coq proof over PyLite-translated source + hand model of the InputFile flow, tied by differential execution in vm_compute"
FUEL = 12


def regenerate(repo):
    return units.regenerate_all(repo, C.VERIF)


# ============================================================================= generation
MAPPERS = ["inf2str", "none2str", "nan2str", "str2none", "str2inf", "str2uuid", "as_str_if_uuid", "entity2uuid"]
WRITE_FUNS = ["nan2str", "inf2str", "as_str_if_uuid", "none2str"]
READ_FUNS = ["str2none", "str2inf", "str2uuid"]
DEMOTE_FUNS = ["entity2uuid", "as_str_if_uuid", "workspace2path", "container_group2name"]


def no_geoh5(j):
    """drop strings that numify would try to open as workspaces"""
    if isinstance(j, str):
        return "x" if j.rstrip("/").endswith(".geoh5") else j
    if isinstance(j, dict):
        for t in ("l", "t"):
            if t in j:
                return {t: [no_geoh5(x) for x in j[t]]}
        if "d" in j:
            return {"d": [[k, no_geoh5(v)] for k, v in j["d"]]}
    return j


def gen_atom(rng):
    return rng.weighted([(uipv.gen_scalar(rng), 70), ({"e": rng.choice([0x20, 0x30, 0x10]), "k": "ent"}, 8),
                         ({"e": 0x40, "k": "pg:Multi-element"}, 3), ({"w": "WORLD"}, 4), ({"wp": 1}, 4), ({"u": rng.choice([0x20, 0x99])}, 6)])


def gen_nested(rng, depth):
    if depth <= 0 or rng.chance(45):
        return gen_atom(rng)
    k = rng.weighted([("list", 40), ("tuple", 12), ("dict", 48)])
    n = rng.range(0, 3)
    if k == "list":
        return {"l": [gen_nested(rng, depth - 1) for _ in range(n)]}
    if k == "tuple":
        return {"t": [gen_nested(rng, depth - 1) for _ in range(n)]}
    keys = rng.sample(["label", "value", "enabled", "a", "b", "main", "property", "parent"], n)
    return {"d": [[kk, gen_nested(rng, depth - 1)] for kk in keys]}


def gen_formish(rng):
    """a dict that passes (mostly) InputFile.ui_validation"""
    f = [["label", "L"], ["value", rng.choice([gen_atom(rng), {"l": [gen_atom(rng) for _ in range(rng.range(0, 3))]}])]]
    if rng.chance(40):
        f.append(["enabled", rng.choice([True, False, None, "yes"])])
    if rng.chance(30):
        f.append(["optional", rng.chance(50)])
    if rng.chance(30):
        f.append(["parent", rng.choice(["", "p0", {"u": 0x20}, "{00000000-0000-0000-0000-000000000020}", 3])])
    if rng.chance(25):
        f.append(["meshType", rng.choice([{"l": [{"u": 0x77}, "{00000000-0000-0000-0000-000000000078}"]}, {"t": [{"u": 0x77}]}, "", {"l": [3]}])])
    if rng.chance(20):
        f.append(["association", rng.choice(["Vertex", "Cell", "Face", {"l": ["Vertex", "Cell"]}])])
    if rng.chance(20):
        f.append(["min", rng.choice([{"f": "-inf"}, 0, "-inf"])])
    if rng.chance(15):
        f.append(["isValue", rng.chance(50)])
        f.append(["property", rng.choice([None, "", {"u": 0x30}])])
    if rng.chance(8):
        f = [kv for kv in f if kv[0] != rng.choice(["label", "value"])]
    return {"d": rng.shuffle(f)}


def gen_fn_case(rng):
    fn = rng.weighted([("mapper", 30), ("dict_mapper", 22), ("stringify", 12), ("demote", 12), ("numify", 14), ("flatten", 8),
                       ("is_uuid", 5), ("ws", 5), ("chain", 12)])
    if fn == "mapper":
        return {"k": "fn", "fn": rng.choice(MAPPERS), "args": [gen_nested(rng, 1)]}
    if fn == "dict_mapper":
        funs = rng.choice([WRITE_FUNS, READ_FUNS, DEMOTE_FUNS, ["str2none"], ["inf2str", "none2str"], []])
        v = gen_nested(rng, 3)
        return {"k": "fn", "fn": "dict_mapper", "args": [v if funs is not READ_FUNS else no_geoh5(v)], "funs": funs}
    if fn == "stringify":
        return {"k": "fn", "fn": "stringify", "args": [{"d": [[f"k{i}", gen_nested(rng, 2)] for i in range(rng.range(0, 4))]}]}
    if fn == "demote":
        return {"k": "fn", "fn": "InputFile.demote", "args": [{"d": [[f"k{i}", gen_nested(rng, 2)] for i in range(rng.range(0, 4))]}]}
    if fn == "numify":
        d = []
        for i in range(rng.range(0, 4)):
            d.append([f"k{i}", no_geoh5(rng.weighted([(gen_formish(rng), 55), (gen_atom(rng), 30), ({"l": [gen_atom(rng), gen_atom(rng)]}, 15)]))])
        if rng.chance(25):
            d.append(["geoh5", {"wp": 1}])
        return {"k": "fn", "fn": "InputFile.numify", "args": [{"d": d}]}
    if fn == "flatten":
        d = [[f"k{i}", rng.weighted([(gen_formish(rng), 70), (gen_atom(rng), 30)])] for i in range(rng.range(0, 4))]
        return {"k": "fn", "fn": "flatten", "args": [{"d": d}]}
    if fn == "is_uuid":
        return {"k": "fn", "fn": "is_uuid", "args": [rng.choice(uipv.LOOKALIKE_STRINGS + [10 ** 31, -(10 ** 31), 10 ** 32, "AB" * 16, "g" * 32,
                                                                                             {"u": 5}, None, {"f": [1, 0]}, {"l": []}])]}
    if fn == "ws":
        return {"k": "fn", "fn": rng.choice(["workspace2path", "path2workspace"]),
                "args": [rng.choice([{"w": "WORLD"}, {"wp": 1}, "abc", "a.txt", None, 3, {"u": 5}])]}
    # the write mappers followed by the read mappers on one scalar (the statement of the mapper round trip, run)
    return {"k": "fn", "fn": "write_then_read", "args": [no_geoh5(gen_atom(rng))]}


BASE_VARIANTS = [
    [["title", "T"], ["geoh5", {"w": "WORLD"}]],
    [["title", "My title"], ["geoh5", {"w": "WORLD"}], ["run_command", None], ["monitoring_directory", None], ["conda_environment", "env"],
     ["conda_environment_boolean", False], ["workspace", None]],
    [["title", "T"], ["geoh5", None]],
    [["title", "T"]],
    [["title", "T"], ["geoh5", {"w": "WORLD"}], ["run_command", "geoh5py.x"], ["monitoring_directory", ""], ["workspace_geoh5", {"wp": 1}]],
]


def gen_file_case(rng, lookalike=False):
    base = rng.weighted([(BASE_VARIANTS[0], 42), (BASE_VARIANTS[1], 28), (BASE_VARIANTS[2], 10), (BASE_VARIANTS[3], 2), (BASE_VARIANTS[4], 18)])
    entries = [{"name": k, "raw": v} for k, v in base]
    n = rng.range(1, 6)
    names = [f"p{i}" for i in range(n)]
    forms = []
    for i, nm in enumerate(names):
        forms.append(uipv.gen_form_entry(rng, nm, names[:i] + names[i + 1:], "lookalike" if lookalike else "domain"))
    uipv.add_switches(rng, forms, weird=2)
    if rng.chance(20):
        entries.append({"name": "run_command_boolean", "raw": {"d": [["value", False], ["label", "Run"], ["tooltip", "tip"], ["main", True]]}})
    if rng.chance(15):
        entries.append({"name": "extra_list", "raw": {"l": [rng.choice([1, {"f": "inf"}, None, "", {"u": 0x20}]) for _ in range(rng.range(0, 3))]}})
    if rng.chance(10):
        entries.append({"name": "extra_scalar", "raw": rng.choice([{"f": "inf"}, "", "inf", 2 ** 70, {"u": 0x20}, None, {"f": [3, 1]}])})
    sets = []
    for f in forms:      # a non-optional form that carries enabled: true (e.g. dependency-controlled) and is given None
        if "optional" not in f["kw"] and not any(k2 in ("enabled", "group") for k2, _ in f["extra"]) \
                and f["tmpl"] in ("integer_parameter", "float_parameter", "string_parameter", "object_parameter") and rng.chance(15):
            f["extra"].append(["enabled", True])
            if rng.chance(60):
                sets.append([f["name"], None])
    for f in forms:
        if any(n == f["name"] for n, _ in sets):
            continue
        if rng.chance(22):
            t = f["tmpl"]
            if t in ("string_parameter", "file_parameter"):
                v = rng.choice(uipv.LOOKALIKE_STRINGS + ["hello", "Points_A"])
            elif t == "integer_parameter":
                v = rng.choice([5, -1, 2 ** 40, 2 ** 70, 10 ** 31, None])
            elif t == "float_parameter":
                v = rng.choice([{"f": [3, 1]}, {"f": "inf"}, {"f": "-inf"}, {"f": [1, 1074]}, None])
            elif t == "bool_parameter":
                v = rng.chance(50)
            elif t in ("object_parameter", "group_parameter"):
                v = rng.choice([{"e": 0x20, "k": "ent"}, {"e": 0x21, "k": "ent"}, {"u": 0x21}, None])
            elif t == "data_value_parameter":
                v = rng.choice([{"e": 0x30, "k": "ent"}, {"f": [3, 1]}, 7, {"u": 0x31}])
            elif t == "range_label_template":
                v = rng.choice([{"l": [{"f": "-inf"}, {"f": [3, 1]}]}, {"l": [1, 2]}, None])
            else:
                continue
            sets.append([f["name"], v])
    for f in forms:      # selections of a multi-select form, the empty selection included
        if f["kw"].get("multi_select") and not any(n == f["name"] for n, _ in sets) and rng.chance(60):
            if f["tmpl"] == "choice_string_parameter":
                cl = f["kw"]["choice_list"].get("l") or f["kw"]["choice_list"].get("t")
                sets.append([f["name"], {"l": rng.sample(cl, rng.range(0, 2))}])
            elif f["tmpl"] == "object_parameter":
                sets.append([f["name"], {"l": [{"e": o, "k": "ent"} for o in rng.sample(uipv.WORLD["objects"], rng.range(0, 2))]}])
    for f in forms:      # a value given to a previously disabled optional parameter (no group / dependency in the way)
        if f["kw"].get("optional") == "disabled" and not f["extra"] and not any(n == f["name"] for n, _ in sets) and rng.chance(60):
            v = {"integer_parameter": 7, "float_parameter": {"f": [5, 1]}, "string_parameter": "xyz", "file_parameter": "a/b.chg",
                 "choice_string_parameter": None, "object_parameter": {"e": 0x21, "k": "ent"}, "group_parameter": {"e": 0x11, "k": "ent"}}.get(f["tmpl"])
            if v is not None:
                sets.append([f["name"], v])
    case = {"k": "file", "entries": entries + forms, "sets": sets}
    case["wname"] = rng.weighted([("world.geoh5", 40), ("survey.v2.geoh5", 20), ("line_10.5.geoh5", 15), ("my world.geoh5", 15), ("a.b.c.geoh5", 10)])
    case["vopts"] = rng.weighted([(None, 40), ({"ignore_list": []}, 25), ({"update_enabled": True}, 15), ({"update_enabled": True, "ignore_list": []}, 20)])
    return case


def witness_file(value_entry, sets=()):
    return {"k": "file", "entries": [{"name": "title", "raw": "T"}, {"name": "geoh5", "raw": {"w": "WORLD"}}, value_entry], "sets": [list(x) for x in sets]}


def generate(rng, tier):
    scale = 1 if tier == "quick" else 25
    cases = [
        # the probe of the design phase (repaired by 1e6d942): an integer beyond the numpy range in a form
        witness_file({"name": "n", "tmpl": "integer_parameter", "kw": {"value": 2 ** 70}, "extra": [], "drop": []}),
        {"k": "fn", "fn": "inf2str", "args": [2 ** 70]},
    ]
    for _ in range(330 * scale):
        cases.append(gen_fn_case(rng))
    for _ in range(120 * scale):
        cases.append(gen_file_case(rng, lookalike=rng.chance(25)))
    return cases


# ============================================================================= driver
def _dec(j, work, wpath):
    if isinstance(j, dict) and "wp" in j:
        return wpath
    if isinstance(j, dict):
        for t in ("l", "t"):
            if t in j:
                seq = [_dec(x, work, wpath) for x in j[t]]
                return seq if t == "l" else tuple(seq)
        if "d" in j:
            return {_dec(k, work, wpath): _dec(v, work, wpath) for k, v in j["d"]}
    return dec(j, work)


def _encres(r, work):
    if "ok" in r:
        try:
            return {"ok": enc(r["ok"], work)}
        except uipv.NotExpressible as e:
            return {"inexpressible": str(e)}
    return r


def _call(f, *a):
    try:
        return {"ok": f(*a)}
    except Exception as e:  # noqa: BLE001
        return {"error": type(e).__name__, "msg": str(e)[:200]}


def drive_one(case, work):  # noqa: C901
    import json
    import os
    import warnings
    warnings.simplefilter("ignore")
    uipv.WORLD_NAME[0] = case.get("wname", "world.geoh5")
    ws, _objs, wpath = uipv.get_world(work)
    if case["k"] == "fn":
        from geoh5py.shared import utils as SU
        from geoh5py.ui_json import utils as UU
        from geoh5py.ui_json.input_file import InputFile
        table = {n: getattr(SU, n) for n in ("inf2str", "none2str", "nan2str", "str2none", "str2uuid", "as_str_if_uuid", "entity2uuid",
                                             "dict_mapper", "stringify", "is_uuid")}
        table.update({n: getattr(UU, n) for n in ("str2inf", "flatten", "workspace2path", "path2workspace", "container_group2name")})
        table["InputFile.demote"] = InputFile.demote
        table["InputFile.numify"] = InputFile.numify
        args = [_dec(a, work, wpath) for a in case["args"]]
        fn = case["fn"]
        if fn == "dict_mapper":
            r = _call(SU.dict_mapper, args[0], [table[f] for f in case["funs"]])
        elif fn == "write_then_read":
            def wr(v):
                v = SU.dict_mapper(v, [table[f] for f in DEMOTE_FUNS])
                v = SU.dict_mapper(v, [table[f] for f in WRITE_FUNS])
                v = json.loads(json.dumps(v))
                return SU.dict_mapper(v, [table[f] for f in READ_FUNS] + [UU.path2workspace])
            r = _call(wr, args[0])
        else:
            r = _call(table[fn], *args)
        out = _encres(r, work)
        out["world_path"] = wpath
        if ws._geoh5 is None:      # pylint: disable=protected-access
            ws.open(mode="r+")
        return out
    # ---- file case
    from geoh5py.ui_json.input_file import InputFile
    from geoh5py.ui_json.utils import truth
    entries = []
    for en in case["entries"]:
        if "raw" in en:
            entries.append({"name": en["name"], "live": _dec(en["raw"], work, wpath)})
        else:
            entries.append(en)
    ui = {}
    from geoh5py.ui_json import templates
    for en in entries:
        if "live" in en:
            ui[en["name"]] = en["live"]
            continue
        kw = {k: _dec(v, work, wpath) for k, v in en.get("kw", {}).items()}
        form = getattr(templates, en["tmpl"])(**kw)
        for k, v in en.get("extra", []):
            form[k] = _dec(v, work, wpath)
        for k in en.get("drop", []):
            form.pop(k, None)
        ui[en["name"]] = form
    obs = {"world_path": wpath}
    try:
        obs["ui_in"] = enc(ui, work)
    except uipv.NotExpressible as e:
        return {"inexpressible": str(e), "world_path": wpath}
    ws.close()
    os.chdir(str(work))          # a "*.geoh5" string read back as a workspace creates that file: keep it inside the work dir
    out_path = os.path.join(str(work), "c14.ui.json")

    def enabled_states(u):
        return {k: bool(truth(u, k, "enabled")) for k, v in u.items() if isinstance(v, dict)}

    def stage(name, f):
        try:
            return f()
        except Exception as e:  # noqa: BLE001
            obs["error_stage"] = name
            obs["error"] = type(e).__name__
            obs["msg"] = str(e)[:200]
            return None
    try:
        kwargs = {"validate": False}
        if case.get("vopts") is not None:
            kwargs["validation_options"] = {k: (tuple(v) if isinstance(v, list) else v) for k, v in case["vopts"].items()}
        ifile = stage("construct", lambda: InputFile(ui_json=ui, **kwargs))
        if ifile is None:
            return obs
        d0 = stage("data0", lambda: ifile.data)
        if "error" in obs:
            return obs
        for name, v in case.get("sets", []):
            stage("set", lambda name=name, v=v: ifile.set_data_value(name, _dec(v, work, wpath)))
            if "error" in obs:
                return obs
        d0 = ifile.data
        obs["data0"] = enc(d0, work)
        obs["ui0"] = enc(ifile.ui_json, work)
        from geoh5py.ui_json.utils import flatten
        obs["reflat0"] = enc(flatten(ifile.ui_json), work)
        obs["enabled0"] = enabled_states(ifile.ui_json)
        stage("write", lambda: ifile.write_ui_json(name="c14", path=str(work)))
        if "error" in obs:
            return obs
        obs["ui_written"] = enc(ifile.ui_json, work)
        text = open(out_path, encoding="utf-8").read()
        obs["nonfinite_token"] = bool(re.search(r"(?<![\w\"])(-?Infinity|NaN)(?![\w\"])", text))
        obs["json"] = enc(json.loads(text), work)
        kwargs2 = dict(kwargs)
        if "validation_options" in kwargs2:
            kwargs2["validation_options"] = dict(kwargs2["validation_options"])
        back = stage("read", lambda: InputFile.read_ui_json(out_path, **kwargs2))
        if back is None:
            return obs
        d1 = stage("data1", lambda: back.data)
        if "error" in obs:
            return obs
        obs["data1"] = enc(d1, work)
        obs["ui1"] = enc(back.ui_json, work)
        obs["enabled1"] = enabled_states(back.ui_json)
        return obs
    except uipv.NotExpressible as e:
        obs["inexpressible"] = str(e)
        return obs
    finally:
        if os.path.exists(out_path):
            os.remove(out_path)
        if ws._geoh5 is None:      # pylint: disable=protected-access
            ws.open(mode="r+")


# ============================================================================= Coq case terms
FN_COQ = {m: m for m in MAPPERS}
FN_COQ.update({"flatten": "flatten", "workspace2path": "workspace2path", "path2workspace": "path2workspace"})


def _subst_wp(j, wpath):
    if isinstance(j, dict) and "wp" in j:
        return wpath
    if isinstance(j, dict):
        for t in ("l", "t"):
            if t in j:
                return {t: [_subst_wp(x, wpath) for x in j[t]]}
        if "d" in j:
            return {"d": [[_subst_wp(k, wpath), _subst_wp(v, wpath)] for k, v in j["d"]]}
    return j


def funs_term(names):
    return "[" + "; ".join(names) + "]"


def case_term(case, obs):
    if "inexpressible" in obs:
        return None
    wpath = obs.get("world_path", "WORLD")
    uipv.WORLD_PATH[0] = wpath
    try:
        if case["k"] == "fn":
            fn = case["fn"]
            args = [_subst_wp(a, wpath) for a in case["args"]]
            if fn == "is_uuid":
                return "false" if "ok" not in obs else f"Bool.eqb (py_is_uuid {coq(args[0])}) {C.cbool(obs['ok'])}"
            r = coq_res(obs)
            if r is None:
                return "false"
            a0 = coq(args[0])
            if fn == "dict_mapper":
                return f"res_same (dict_mapper {FUEL} {a0} {funs_term(case['funs'])}) {r}"
            if fn == "stringify":
                return f"res_same (stringify {FUEL} {a0}) {r}"
            if fn == "InputFile.demote":
                return f"res_same (InputFile_demote {FUEL} {a0}) {r}"
            if fn == "InputFile.numify":
                return f"res_same (InputFile_numify {FUEL} {a0}) {r}"
            if fn == "write_then_read":
                return (f"res_same (v1 <- dict_mapper {FUEL} {a0} {funs_term(DEMOTE_FUNS)} ;; v2 <- dict_mapper {FUEL} v1 {funs_term(WRITE_FUNS)} ;; "
                        f"v3 <- json_roundtrip v2 ;; dict_mapper {FUEL} v3 {funs_term(READ_FUNS + ['path2workspace'])}) {r}")
            return f"res_same ({FN_COQ[fn]} {a0}) {r}"
        # file
        ui_in = coq(obs["ui_in"])
        sets = "[" + "; ".join(f"({coq(n)}, {coq(_subst_wp(v, wpath))})" for n, v in case.get("sets", [])) + "]"
        if "error" in obs:
            e = uipv.EXN_COQ.get(obs["error"])
            if e is None:
                return "false"
            return f"match round_trip {FUEL} W0 {ui_in} {sets} with Raise e => exn_eqb e {e} | Ok _ => false end"
        return (f"match round_trip {FUEL} W0 {ui_in} {sets} with Raise _ => false | Ok t => "
                f"pv_same (t_ui0 t) {coq(obs['ui0'])} && pv_same (t_data0 t) {coq(obs['data0'])} && pv_same (t_ui_written t) {coq(obs['ui_written'])} "
                f"&& pv_same (t_json t) {coq(obs['json'])} && pv_same (t_ui1 t) {coq(obs['ui1'])} && pv_same (t_data1 t) {coq(obs['data1'])} end")
    except uipv.NotExpressible:
        return None
    finally:
        uipv.WORLD_PATH[0] = "WORLD"


def model_term(case):
    return None


# ============================================================================= oracle (property text, independent of the model)
def _is_hex32(s):
    t = s.replace("urn:", "").replace("uuid:", "").strip("{}").replace("-", "")
    return len(t) == 32 and all(c in "0123456789abcdefABCDEF" for c in t)


def collision_kind(v):
    """why a value cannot survive the text form, by the property's own list of look-alikes (None: it must survive)"""
    if isinstance(v, str):
        if v == "":
            return "string-collision-empty"
        if v in ("inf", "-inf"):
            return "string-collision-inf"
        if _is_hex32(v):
            return "string-collision-uuid"
        if v.rstrip("/").endswith(".geoh5") and not v.rstrip("/").split("/")[-1] == ".geoh5":
            return "string-collision-geoh5"
    if isinstance(v, int) and not isinstance(v, bool) and len(str(abs(v))) == 32:
        return "int-32-digits-read-as-uuid"
    if isinstance(v, dict) and v.get("f") in ("nan", "npnan"):
        return "nan"       # documented exception
    return None


def _all_atoms(j):
    if isinstance(j, dict) and ("l" in j or "t" in j):
        for x in (j.get("l") or j.get("t") or []):
            yield from _all_atoms(x)
    elif isinstance(j, dict) and "d" in j:
        for _, x in j["d"]:
            yield from _all_atoms(x)
    else:
        yield j


def _same(a, b):
    """the same parameter value: tuples read back as lists"""
    if isinstance(a, dict) and isinstance(b, dict):
        sa = a.get("l", a.get("t"))
        sb = b.get("l", b.get("t"))
        if sa is not None and sb is not None:
            return len(sa) == len(sb) and all(_same(x, y) for x, y in zip(sa, sb))
        if "d" in a and "d" in b:
            return len(a["d"]) == len(b["d"]) and all(k1 == k2 and _same(v1, v2) for (k1, v1), (k2, v2) in zip(a["d"], b["d"]))
    return a == b


def oracle(case, obs):
    if "crash" in obs:
        return [{"key": "driver-crash", "what": obs["crash"][:300]}]
    if case["k"] == "fn":
        if case["fn"] == "write_then_read" and "ok" in obs:
            v = case["args"][0]
            if isinstance(v, dict) and "wp" in v:
                return []
            exp = {"u": v["e"]} if isinstance(v, dict) and "e" in v else v      # entities are demoted to their identifier
            ck = collision_kind(v)
            if ck == "nan":
                return []
            if not _same(obs["ok"], exp):
                return [{"key": ck or "mapper-roundtrip-changed-value", "what": f"{v!r} is written and read back as {obs['ok']!r}"}]
        if case["fn"] == "write_then_read" and "error" in obs:
            return [{"key": "mapper-roundtrip-raised", "what": f"{case['args'][0]!r}: {obs['error']} {obs.get('msg')}"}]
        return []
    fails = []
    if "inexpressible" in obs and "data0" not in obs:
        return []
    stage = obs.get("error_stage")
    if stage in ("construct", "data0", "set"):
        return []          # the input itself is refused: not a ui.json the property speaks about
    ui_in = obs.get("ui_in")
    if ui_in is not None and not jhas(ui_in, "geoh5"):
        return []          # every ui.json has the (required) geoh5 parameter
    d0 = obs.get("data0")
    atoms0 = list(_all_atoms(d0)) if d0 is not None else []
    kinds = [k for k in (collision_kind(a) for a in atoms0) if k]
    ui0 = obs.get("ui0")
    none_bool = ui0 is not None and any(is_jdict(f) and any(jhas(f, m) and jget(f, m) is None for m in ("enabled", "main", "optional"))
                                        for _, f in ui0["d"])
    if stage in ("read", "data1") and obs.get("error") == "JSONParameterValidationError" and none_bool:
        return [{"key": "none-valued-bool-member-unreadable", "what": f"{stage} raised {obs.get('error')}: {obs.get('msg')}"}]
    if ui0 is not None:
        from props import c15
        if not c15.wf_ui(ui0):
            return []      # switch members outside C15's WfUi (a dependency on a parameter that is neither optional nor boolean, ...)
    if stage in ("write", "read", "data1"):
        key = f"{stage}-crash-{obs.get('error')}"
        if stage in ("read", "data1") and obs.get("error") == "JSONParameterValidationError" and none_bool:
            key = "none-valued-bool-member-unreadable"
        elif stage in ("read", "data1") and kinds and any(k != "nan" for k in kinds):
            key = [k for k in kinds if k != "nan"][0]
        return [{"key": key, "what": f"{stage} raised {obs.get('error')}: {obs.get('msg')}"}]
    d1 = obs.get("data1")
    if d1 is None:
        return fails
    if obs.get("nonfinite_token"):
        nested = any(isinstance(x, dict) and ("l" in x or "t" in x) and any(isinstance(y, dict) and y.get("f") in ("inf", "-inf", "nan", "npnan")
                                                                              for y in _all_atoms(x))
                     for a in _containers(obs.get("ui_written")) for x in (a.get("l") or a.get("t") or []))
        fails.append({"key": "nonfinite-json-token-nested-list" if nested else "nonfinite-json-token",
                      "what": "the file on disk contains Infinity / NaN, which is not JSON"})
    no_ws = jget(ui_in, "geoh5") is None if ui_in is not None else False

    def demoted(j):
        if no_ws and isinstance(j, dict) and "e" in j:
            return {"u": j["e"]}
        if not no_ws and isinstance(j, dict) and "u" in j and j["u"] in uipv.WORLD["ents"]:
            return {"e": j["u"], "k": uipv.WORLD["ents"][j["u"]]}      # identifiers are promoted to the workspace's entities
        if isinstance(j, dict) and ("l" in j or "t" in j):
            return {"l": [demoted(x) for x in (j.get("l") or j.get("t") or [])]}
        return j
    m0 = {k: demoted(v) for k, v in d0["d"]}
    m1 = {k: demoted(v) for k, v in d1["d"]}
    stable = {k: demoted(v) for k, v in obs.get("reflat0", d0)["d"]}
    # an enabled form that holds None is switched off by write_ui_json (and its group with it): outside the domain
    valueless_enabled = ui0 is not None and any(
        is_jdict(f) and jget(f, "enabled") is True and m0.get(name) is None and (jget(f, "optional", False) is True or jhas(f, "groupOptional"))
        for name, f in ui0["d"])
    def settable(name, v):
        """a set_data_value the property speaks about: a value for an optional form, or a non-None value for a form that has no
        enabled member (a non-optional form cannot be switched on or off by giving it a value)"""
        f = jget(ui0, name) if ui0 is not None else None
        if not is_jdict(f):
            return True
        if jhas(f, "enabled"):
            # ... and a non-optional form that says enabled: true keeps that state, so the None given to it must be what is written
            return jget(f, "optional", False) is True or (v is None and jget(f, "enabled") is True and not jhas(f, "group"))
        return v is not None
    was_set = {n for n, v in case.get("sets", []) if settable(n, v)}
    if list(m0) != list(m1):
        fails.append({"key": "parameters-differ", "what": f"parameters before {list(m0)} after {list(m1)}"})
    elif not valueless_enabled:
        for name in m0:
            if not _same(stable.get(name), m0[name]) and name not in was_set:
                continue    # loading itself switched this parameter off (member of a disabled group): compare from the loaded state on
            if not _same(m0[name], m1[name]):
                ks = [k for k in (collision_kind(a) for a in _all_atoms(m0[name])) if k]
                if "nan" in ks:
                    continue
                key = ks[0] if ks else ("group-switch-overrides-member-enabled" if _group_off(ui0, name) else "value-not-round-tripped")
                fails.append({"key": key, "what": f"parameter {name}: {m0[name]!r} before, {m1[name]!r} after the round trip"})
                break
        e0, e1 = obs.get("enabled0", {}), obs.get("enabled1", {})
        for name, en in e0.items():
            if name in e1 and e1[name] != en:
                key = "group-switch-overrides-member-enabled" if _group_off(ui0, name) else "enabled-state-changed"
                fails.append({"key": key, "what": f"form {name}: enabled {en} before, {e1[name]} after"})
                break
    return fails


def _group_off(ui, name):
    """the form is a member of a group that has a switch (first member carrying a groupOptional member) other than itself"""
    f = jget(ui, name)
    if not (is_jdict(f) and jhas(f, "group")):
        return False
    g = jget(f, "group")
    for n, m in ui["d"]:
        if is_jdict(m) and jhas(m, "group") and jget(m, "group") == g and jhas(m, "groupOptional"):
            return n != name
    return False


def _containers(j):
    if isinstance(j, dict) and ("l" in j or "t" in j):
        yield j
        for x in (j.get("l") or j.get("t") or []):
            yield from _containers(x)
    elif isinstance(j, dict) and "d" in j:
        for _, x in j["d"]:
            yield from _containers(x)


def nontrivial(case, obs):
    if case["k"] == "fn":
        a = case["args"][0]
        return isinstance(a, dict) and any(t in a for t in ("l", "t", "d"))
    d0 = obs.get("data0")
    if d0 is None or "data1" not in obs:
        return False
    atoms = list(_all_atoms(d0))
    return any((isinstance(a, dict) and ("e" in a or a.get("f") in ("inf", "-inf"))) or a is None or collision_kind(a) for a in atoms)


def histogram(cases, obs):
    h = {"kind": {}, "fn": {}, "templates": {}, "file_outcome": {}, "value_kinds": {}, "collisions": {}, "forms_per_file": {}, "fn_outcome": {}}
    for c, o in zip(cases, obs):
        h["kind"][c["k"]] = h["kind"].get(c["k"], 0) + 1
        if c["k"] == "fn":
            h["fn"][c["fn"]] = h["fn"].get(c["fn"], 0) + 1
            r = "ok" if "ok" in o else o.get("error", "inexpressible")
            h["fn_outcome"][r] = h["fn_outcome"].get(r, 0) + 1
            continue
        n = 0
        for e in c["entries"]:
            if "tmpl" in e:
                n += 1
                h["templates"][e["tmpl"]] = h["templates"].get(e["tmpl"], 0) + 1
        h["forms_per_file"][str(n)] = h["forms_per_file"].get(str(n), 0) + 1
        out = "round-trip" if "data1" in o else f"{o.get('error_stage', '?')}:{o.get('error', 'inexpressible')}"
        h["file_outcome"][out] = h["file_outcome"].get(out, 0) + 1
        if o.get("data0"):
            for a in _all_atoms(o["data0"]):
                t = ("none" if a is None else "bool" if isinstance(a, bool) else "int" if isinstance(a, int) else "str" if isinstance(a, str)
                     else "float" if "f" in a else "uuid" if "u" in a else "entity" if "e" in a else "workspace" if "w" in a else "other")
                h["value_kinds"][t] = h["value_kinds"].get(t, 0) + 1
                ck = collision_kind(a)
                if ck:
                    h["collisions"][ck] = h["collisions"].get(ck, 0) + 1
    return h
