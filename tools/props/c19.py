"""C19 — The reader tolerates missing optional content (io/h5_reader.py, workspace/workspace.py; fault enumeration).

A case names one library-produced family file and a subset of its items (every attribute and every link is an item);
drive_one builds the file with geoh5py, deletes each selected item from a fresh copy with raw h5py, opens the damaged copy in
mode "r", walks everything (including lazy getters) and diffs against the intact file."""
from __future__ import annotations

import hashlib
import json
import os
import shutil
from pathlib import Path

from vlib import common as C
from vlib.common import cbool, clist, cnat, cN, copt, cstr

from . import c19_tables as T

ID = "C19"
PROPERTIES_V = "theories/Properties/C19.v"
CASE_IMPORTS = "From GV Require Import Prelude.Base Model.H5Read.\nFrom Coq Require Import String.\nLocal Open Scope string_scope.\nLocal Open Scope list_scope."
ALLOWED_AXIOMS: list = []
REFUTED = [
    "C19_optional_full false (C19_optional_refuted_old_rebuild: the explicit old-rebuild variant of the model, every flat entry "
    "attached to the new root in identifier order, hangs a nested group on the rebuilt root; this was the pinned source before "
    "fixes/C19-root-rebuild-keeps-hierarchy.patch; witness corpus/C19/0001-root-link-nested.json)",
    "C19_mandatory_full (C19_mandatory_refuted, either rebuild: a missing Name is replaced by the class default instead of an error "
    "/ leaving the entity out; witness corpus/C19/0002-name-defaulted.json)",
]
PARTIAL = [
    "C19_mandatory_deletion_local_partial (error, or everything outside the described entities and their descendants unchanged; "
    "missing: that the described entities are left out rather than kept with defaults, refuted)",
]
TRUSTED = [
    "Coq 8.16.1 kernel + vm_compute (table theorem, witnesses, correspondence evaluation); no axioms (Print Assumptions: closed)",
    "hand-written model coq/theories/Model/H5Read.v of HDF5 link graphs, single deletions and the loader path "
    "(Workspace.open/fetch_or_create_root/load_entity/create_entity/fetch_children + H5Reader.fetch_*); tied to the code by "
    "running both on every single deletion of library-produced files",
    "tools/props/c19_tables.py: ast extraction of the lookup guards (T_reader), reflection of the object classes, parser of the "
    "format document (optional/mandatory)",
    "h5py/HDF5 (hard links, attribute and link deletion), numpy; geoh5py class constructors beyond the create/skip/raise decision "
    "(exercised by the walker, not modelled); concatenated drillhole groups are outside the model (oracle only)",
    "tools/props/c19.py + c19_impl.py (corpus builders, scanner, walker, canonicalisation uuid -> ordinal, oracle)",
]
ASSUMPTIONS = [
    "valid files are layouts of an entity tree with unique identifiers (Model.H5Read.layout); every corpus file of the modelled "
    "families is checked to be such a layout (scan_matchb) and to read back as its content (intact_ok)",
    "one deletion at a time; the damaged copy is opened in mode 'r'",
    "an identifier already registered is not loaded again (no duplicate identifiers in valid files)",
]
RULE = (
    "8 family files built by the library (an 'orphan' file in which Group.remove_children left an object in the flat containers; groups 3 levels deep; points/curve/surface with data and property groups; "
    "grid2d/blockmodel/octree; concatenated drillholes (v2); plain drillhole (v1); text/referenced data with value map, colour map, "
    "comments; geoimage); each case = one family + a chunk of its items; quick: a seed-dependent third of the items of each "
    "kind, at least one per kind, and every attribute and entry of every property group (3+2+... groups per object), thorough: "
    "every item; non-trivial = the deletion changed something observable or raised"
)
LEVEL_TEXT = (
    "Proved in Coq (closed, no axioms) for all laid-out entity trees (any depth and width, unique identifiers, groups/objects/data "
    "with types, colour/value maps, property groups, datasets) and ALL single deletions of one attribute or one link: for every "
    "item the format document makes optional, the Root link included, the model reader opens the file and returns every entity "
    "the item does not describe unchanged (C19_optional_deletion_tolerated, full statement, for the rebuild of the current source: "
    "C19_source_rebuild_scans_children ties the extracted flag to it); for every mandatory item it raises or returns a tree that "
    "agrees with the intact content outside the described entities and their descendants (C19_mandatory_deletion_local_partial; "
    "the stricter 'left out' is refuted: a missing Name is defaulted); the intact file reads back as its content. The old rebuild "
    "(explicit false variant of the model function) is refuted with a vm_compute witness. The reader's guards are extracted by ast "
    "on every run (rows with file:line) and the 20 rows the model consumes are checked by vm_compute (C19_reader_guards/_table): "
    "removing a try/except, a .get or an `in` test breaks them; C19_swallowing_scopes fixes what sits inside each swallowing "
    "try/except (6 scopes); C19_property_group_item_local: an item of one property group leaves the object's other property "
    "groups and fields as they were (per-object read); C19_session_state_reset: open() resets the registries and the root is "
    "assigned unconditionally (what makes load a function of the file alone for a re-used Workspace object). Tie: every corpus file is checked to be a laid-out well-formed tree "
    "(scan_matchb, wfb, intact_ok) and every selected single deletion of the 6 modelled family files is replayed on geoh5py and "
    "compared with the model inside Coq (error kind, lost set, altered set - exactly for the Root link -, fresh identifiers, property groups one by one, "
    "theorem instance); the concatenated (v2) drillhole family is oracle-only; the Version-dependent choice of concatenated "
    "classes is not modelled."
)
TECHNIQUE = "Coq proof by induction on the loader's fuel over laid-out trees + extracted guard table + exhaustive single-fault replay"
DRIVE_TIMEOUT = 1700
FUEL = 40

_TABLES = {}


# ----------------------------------------------------------------------------- regeneration
def regenerate(repo):
    info, rows, classes, docs = T.emit(Path(repo), C.COQ / "generated" / "Tables_Reader.v")
    _TABLES["docs"] = docs
    return {"tables": info}


def _docs():
    if "docs" not in _TABLES:
        _TABLES["docs"] = T.doc_entries(C.REPO)
    return _TABLES["docs"]


# ----------------------------------------------------------------------------- generation
FAMILIES = ["groups", "pcs", "grids", "drillhole", "drillhole_v1", "textref", "geoimage", "orphan"]
CHUNKS = {"groups": 6, "pcs": 10, "grids": 6, "drillhole": 6, "drillhole_v1": 6, "textref": 6, "geoimage": 3, "orphan": 3}


def generate(rng, tier):
    cases = []
    sel_seed = rng.next() & 0xFFFFFF
    useed = rng.next() & 0xFFFF
    for fam in FAMILIES:
        k = CHUNKS[fam]
        for c in range(k):
            cases.append({"family": fam, "useed": useed, "chunk": [c, k], "rate": 3 if tier == "quick" else 1, "sel": sel_seed})
    return cases


def _select(items, case):
    """indices of the items of this case: per kind, the occurrences picked by (sel, rate) plus one guaranteed occurrence;
    then the chunk's share."""
    kinds = case.get("kinds")
    by_kind = {}
    for i, it in enumerate(items):
        by_kind.setdefault(it["kind"], []).append(i)
    chosen = []
    rate = max(1, int(case.get("rate", 1)))
    sel = int(case.get("sel", 0))
    for kind in sorted(by_kind):
        if kinds is not None and kind not in kinds:
            continue
        occ = by_kind[kind]
        h = int(hashlib.sha256(f"{sel}|{kind}".encode()).hexdigest()[:8], 16)
        for j, i in enumerate(occ):
            every = kind.startswith("attr|pg|") or kind.startswith("link|pgs|")  # each attribute at each position
            if rate == 1 or every or kinds is not None or j == h % len(occ) or (h + j * 2654435761) % rate == 0:
                chosen.append(i)
    chosen.sort()
    if case.get("chunk"):
        c, k = case["chunk"]
        chosen = [i for n, i in enumerate(chosen) if n % k == c]
    return chosen


# ----------------------------------------------------------------------------- implementation driver
DERIVED = {"n_values", "n_cells", "n_vertices", "centroids", "parts", "comments", "image", "from_", "to_", "depth_", "children",
           "visual_parameters", "extent", "locations", "concatenated_attributes", "concatenated_object_ids", "property_group_ids",
           "data", "index", "file_name", "tag", "trace", "trace_depth"}


def _described(sc, it, ref, users_of_type):
    """(entities the item may legitimately affect, entities it describes), as entity link names before closing under
    descendants, from the role of the item's node (property text).  A type, a type container or a project attribute describes
    no entity, but the entities using the type may change with it."""
    nodes = sc["nodes"]
    role, name, owner = it["role"], it["name"], it["owner"]
    if role == "workspace":
        if it["t"] == "attr":
            return [], []
        if name in ("Data", "Groups", "Objects"):
            e = [n for n, _ in nodes[it["target"]]["links"]]
            return e, e
        if name == "Types":
            return ["{" + u + "}" for u in ref["entities"]], []
        if name == "Root":
            return [it.get("target_owner")], [it.get("target_owner")]
        return [], []
    if role.startswith("flat:") or role.startswith("children:"):
        return [name], [name]
    if role.startswith("entity:"):
        if it["t"] == "link" and it["target_role"].startswith("children:"):
            e = [n for n, _ in nodes[it["target"]]["links"]]
            return e, e
        return [owner], [owner]
    if role in ("pgs", "pg", "concat", "concatitem", "dataset", "other"):
        return [owner], [owner]
    if role == "types":
        return ["{" + u + "}" for u in ref["entities"]], []
    if role.startswith("typeflat:"):
        return users_of_type(nodes[it["target"]]), []
    if role.startswith("type:"):
        return users_of_type(nodes[it["node"]]), []
    if role == "typedataset":
        for nd in nodes.values():  # owner is the type's link name
            if nd["role"].startswith("type:") and nd["owner"] == owner:
                return users_of_type(nd), []
    return [], []


_UUID = None


def _normalised(ref, w):
    """Snapshot with run-dependent identifiers replaced: every uuid that does not occur in the reference walk (a rebuilt root, an
    entity or type without ID, a defaulted reference) is drawn anew on each read and becomes NEW."""
    import re

    global _UUID
    if _UUID is None:
        _UUID = re.compile(r"[0-9a-f]{8}-[0-9a-f]{4}-[0-9a-f]{4}-[0-9a-f]{4}-[0-9a-f]{12}")
    known = ref.get("_known")
    if known is None:
        known = ref["_known"] = set(_UUID.findall(json.dumps(ref["entities"]))) | set(ref["entities"])

    def nv(v):
        if isinstance(v, str):
            return _UUID.sub(lambda m: m.group(0) if m.group(0) in known else "NEW", v)
        if isinstance(v, list):
            return [nv(x) for x in v]
        if isinstance(v, dict):
            return {nv(k): nv(x) for k, x in v.items()}
        return v

    ents = {}
    for u, e in w["entities"].items():
        e2 = nv(e)
        if isinstance(e2.get("children"), list):
            e2["children"] = sorted(e2["children"])
        if isinstance(e2.get("property_groups"), list):
            e2["property_groups"] = sorted(json.dumps(g, sort_keys=True) for g in e2["property_groups"])
        key = nv(u)
        if key == "NEW":
            key = f"NEW:{e.get('class')}:{e.get('name')}"
        ents.setdefault(key, []).append(e2)
    for k in ents:
        ents[k].sort(key=lambda d: json.dumps(d, sort_keys=True, default=str))
    tree = sorted([d, c, n, nv(u), r] for d, c, n, u, r in w.get("tree", []))
    return ents, tree, nv(w.get("project"))


def _reuse_diff(ref, fresh, reused):
    """None when the re-used Workspace object returns what a fresh reader returns; else a short description."""
    if fresh["open"] != "ok" or reused["open"] != "ok":
        a = fresh["open"] if fresh["open"] == "ok" else fresh["open"]["exc"]
        b = reused["open"] if reused["open"] == "ok" else reused["open"]["exc"]
        return None if a == b else {"what": f"fresh reader: {a}, re-used workspace: {b}"}
    fe, ft, fp = _normalised(ref, fresh)
    re_, rt, rp = _normalised(ref, reused)
    probs = []
    if fp != rp:
        probs.append(f"project attributes differ: fresh {fp}, re-used {rp}"[:200])
    if sorted(fe) != sorted(re_):
        probs.append(f"entities differ: only fresh {sorted(set(fe) - set(re_))[:4]}, only re-used {sorted(set(re_) - set(fe))[:4]}")
    else:
        for k in fe:
            if fe[k] != re_[k]:
                a, b = fe[k][0], re_[k][0]
                probs.append(f"{k[:8]} {a.get('class')}:{a.get('name')} differs in {[f for f in a if a.get(f) != b.get(f)][:5]}")
                break
    if ft != rt:
        probs.append(f"tree under the root differs: fresh {len(ft)} nodes, re-used {len(rt)} nodes")
    def dup(tr):
        ids = [u for _, _, _, u, _ in tr if "NEW" not in str(u)]
        return len(set(ids)) != len(ids)

    if dup(rt) and not dup(ft):
        probs.append("an identifier appears more than once in the tree of the re-used workspace")
    if any(not r for *_, r in rt) and not any(not r for *_, r in ft):
        probs.append("the tree of the re-used workspace holds entities that are not registered (stale)")
    return {"what": "; ".join(probs)[:400]} if probs else None


def drive_one(case, work):
    import warnings

    from . import c19_impl as I

    warnings.simplefilter("ignore")
    fam = case["family"]
    base = f"{work}/c19-{fam}.geoh5"
    dmg = f"{work}/c19-{fam}-dmg.geoh5"
    dmg2 = f"{work}/c19-{fam}-dmg2.geoh5"
    fd = os.open(os.devnull, os.O_WRONLY)
    saved = os.dup(2)
    os.dup2(fd, 2)  # h5repack-not-found chatter of the library
    try:
        I.build_seeded(fam, base, case.get("useed", 7))
    finally:
        os.dup2(saved, 2)
        os.close(fd)
        os.close(saved)
    sc = I.scan(base)
    h0 = I.sha256(base)
    ref = I.walk(base, "r")
    ref_hash_changed = I.sha256(base) != h0
    spec, why = I.to_spec(sc)
    ords = dict(sc["ords"])
    extra = sorted(u for u in ref["entities"] if "{" + u + "}" not in ords)
    for u in extra:
        ords["{" + u + "}"] = len(ords)

    def o(u):  # walker uid (no braces) -> ordinal
        return ords.get("{" + u + "}")

    parent = {u: e.get("parent") for u, e in ref["entities"].items()}

    def descendants(roots):
        out = set(roots)
        changed = True
        while changed:
            changed = False
            for u, p in parent.items():
                if isinstance(p, str) and p in out and u not in out:
                    out.add(u)
                    changed = True
        return out

    def ancestors(us):
        out = set()
        for u in us:
            p = parent.get(u)
            while isinstance(p, str) and p not in out:
                out.add(p)
                p = parent.get(p)
        return out

    def users_of_type(tnode):
        tid = tnode["attrs"].get("ID", "").strip("{}").lower()
        return ["{" + u + "}" for u, e in ref["entities"].items()
                if isinstance(e.get("entity_type"), dict) and str(e["entity_type"].get("uid", "")).lower() == tid]

    items = sc["items"]
    vs = ref["project"].get("version")
    version_sensitive = bool(isinstance(vs, (int, float)) and vs <= 1.0) and any("Drillhole" in e["class"] for e in ref["entities"].values())
    res = {"version_sensitive": version_sensitive, "family": fam, "n_items": len(items), "n_nodes": len(sc["nodes"]), "ref_open": ref["open"], "ref_hash_changed": ref_hash_changed,
           "spec": spec, "spec_why": why, "n_ref_entities": len(ref["entities"]),
           "entities": {str(o(u)): f"{e['class']}:{e.get('name')}" for u, e in ref["entities"].items()},
           "kinds_total": len({it["kind"] for it in items}), "obs": []}
    if (case.get("chunk") or [0, 1])[0] == 0 and spec is not None:
        res["scan"] = I.scan_nodes_for_model(sc)
    for i in _select(items, case):
        it = items[i]
        shutil.copy(base, dmg)
        I.delete_item(dmg, it)
        h = I.sha256(dmg)
        w = I.walk(dmg, "r")
        # the same deletion read through a re-used Workspace object (opened on the intact file, closed, file damaged, .open() again)
        shutil.copy(base, dmg2)
        wr = I.walk_reused(dmg2, lambda it=it: I.delete_item(dmg2, it), "r")
        ob = {"i": i, "kind": it["kind"], "t": it["t"], "name": it["name"], "role": it["role"], "where": it["h5path"].split("/", 2)[-1][-90:],
              "mitem": I.model_item(sc, it) if spec is not None else None,
              "hash_changed": I.sha256(dmg) != h}
        ob["reuse"] = _reuse_diff(ref, w, wr)
        ob["unread"] = [[o(u), lab] for u, lab in I.stored_unread(dmg, w)] if w["open"] == "ok" else []
        perm, desc = _described(sc, it, ref, users_of_type)
        dset = descendants([d.strip("{}") for d in perm if d and d.strip("{}") in ref["entities"]])
        if it["kind"] == "link|workspace|Root":  # the Root link describes the root group only: the hierarchy is in the child containers
            dset = {d.strip("{}") for d in perm if d}
        ob["described"] = sorted(x for x in (o(u) for u in dset) if x is not None)
        ob["described_roots"] = sorted(x for x in (o(d.strip("{}")) for d in desc if d and d.strip("{}") in ref["entities"]) if x is not None)
        ob["is_root_item"] = bool(ref["root"] and ("{" + ref["root"] + "}") in [d for d in desc if d])
        ob["pg_item"] = (it["h5path"].rsplit("/", 1)[-1] if it["role"] == "pg" else it["name"] if it["role"] == "pgs" else None)
        ob["pg_owner"] = o(it["owner"].strip("{}")) if it["role"] in ("pg", "pgs") and it.get("owner") else None
        ob["empty_container"] = bool(it["t"] == "link" and it.get("target_role", "").startswith("children:")
                                     and not sc["nodes"][it["target"]]["links"])
        if w["open"] != "ok":
            ob["open"] = w["open"]
        else:
            ob["open"] = "ok"
            lost = sorted(set(ref["entities"]) - set(w["entities"]))
            new = sorted(set(w["entities"]) - set(ref["entities"]))
            anc = ancestors(dset)
            sib_parents = {parent.get(u) for u in dset}
            root_replaced = w["root"] is not None and w["root"] not in ref["entities"]
            alt_own, alt_der, detail = [], [], {}
            for u, a in ref["entities"].items():
                b = w["entities"].get(u)
                if b is None:
                    continue
                if root_replaced and b.get("parent") == w["root"] and a.get("parent") == ref["root"]:
                    b = dict(b, parent=ref["root"])  # still a child of the (rebuilt) root
                diff = [k for k in a if a[k] != b.get(k)]
                own = [k for k in diff if k not in DERIVED]
                der = [k for k in diff if k in DERIVED and k != "children"]
                if own:
                    alt_own.append(o(u))
                    detail[str(o(u))] = own[:6]
                elif der and u not in anc and u not in dset and parent.get(u) not in sib_parents:
                    alt_der.append(o(u))
                    detail[str(o(u))] = der[:6]
            # children lists: compared outside the described set, ignoring described members
            kids_bad = []
            for u, a in ref["entities"].items():
                b = w["entities"].get(u)
                if b is None or u in dset or not isinstance(a.get("children"), list) or not isinstance(b.get("children"), list):
                    continue
                ka = [c for c in a["children"] if c not in dset and c in ref["entities"]]
                kb = [c for c in b["children"] if c not in dset and c in ref["entities"]]
                if ka != kb:
                    kids_bad.append(o(u))
            if it["kind"] == "link|workspace|Root" and ref["root"] in w["entities"]:
                ob["old_root_after"] = w["entities"][ref["root"]]["class"]  # the old root group, now a child of the rebuilt root
            # property groups, one by one (of objects returned under the same identifier)
            pg_missing, pg_altered, pg_error = [], [], []
            for u, a in ref["entities"].items():
                b = w["entities"].get(u)
                pa = a.get("property_groups")
                if b is None or not isinstance(pa, list) or not pa:
                    continue
                pb = b.get("property_groups")
                if not isinstance(pb, list):
                    pg_error.append(o(u))
                    continue
                after = {g["uid"]: g for g in pb}
                for g in pa:
                    if g["uid"] not in after:
                        pg_missing.append([o(u), "{" + g["uid"] + "}"])
                    elif after[g["uid"]] != g:
                        pg_altered.append([o(u), "{" + g["uid"] + "}"])
            ob["pg_missing"], ob["pg_altered"], ob["pg_error"] = sorted(pg_missing), sorted(pg_altered), sorted(pg_error)
            ob.update({"lost": [o(u) for u in lost], "new": len(new), "new_classes": sorted(w["entities"][u]["class"] for u in new),
                       "alt_own": sorted(alt_own), "alt_derived": sorted(alt_der), "detail": detail, "kids_bad": sorted(kids_bad),
                       "proj_changed": w["project"] != ref["project"],
                       "root_same": w["root"] == ref["root"], "close": w.get("close")})
        res["obs"].append(ob)
    for p in (base, dmg, dmg2):
        if os.path.exists(p):
            os.remove(p)
    return res


# ----------------------------------------------------------------------------- Coq terms
def ckey(k):
    t = k[0]
    if t == "G":
        return "KGroups"
    if t == "O":
        return "KObjects"
    if t == "D":
        return "KDatas"
    if t == "T":
        return "KTypes"
    if t == "TF":
        return "(KTF %s)" % {"data": "KData", "group": "KGroup", "object": "KObject"}[k[1]]
    if t in ("Root", "Type", "PGs", "Concat", "Cmap", "Vmap", "ID", "Name", "Prim"):
        return "K" + t
    if t == "U":
        return "(KU %s)" % cN(k[1])
    return "(KN %s)" % cstr(k[1])


def caddr(a):
    return clist(ckey(k) for k in a)


def cval(v):
    if v[0] == "Uid":
        return "(VUid %s)" % cN(v[1])
    if v[0] == "Str":
        return "(VStr %s)" % cstr(v[1])
    return "(VTok %s)" % cN(v[1])


def camap(m):
    return clist("(%s, %s)" % (ckey(k), cval(v)) for k, v in m)


def ckind(k):
    return {"data": "KData", "group": "KGroup", "object": "KObject"}[k]


def ctree(t):
    pgs = "None" if t["pgs"] is None else "(Some %s)" % clist("(%s, %s)" % (ckey(k), camap(a)) for k, a in t["pgs"])
    return "(ET %s %s %s %s %s %s %s %s)" % (
        cN(t["u"]), ckind(t["k"]), camap(t["attrs"]), cN(t["ty"]), clist("(%s, %s)" % (ckey(k), cN(v)) for k, v in t["dsets"]),
        pgs, clist(ckind(c) for c in t["conts"]), clist(ctree(c) for c in t["kids"]))


def ctspec(ts):
    cm = "None" if ts["cmap"] is None else "(Some (%s, %s))" % (camap(ts["cmap"][0]), cN(ts["cmap"][1]))
    vm = "None" if ts["vmap"] is None else "(Some %s)" % cN(ts["vmap"])
    return "{| ts_attrs := %s; ts_cmap := %s; ts_vmap := %s |}" % (camap(ts["attrs"]), cm, vm)


def cspec(spec):
    tt = lambda k: clist("(%s, %s)" % (cN(i), ctspec(ts)) for i, ts in spec["types"][k])  # noqa: E731
    return ("{| fs_proj := %s; fs_types := (fun k => match k with KData => %s | KGroup => %s | KObject => %s end); fs_root := %s |}"
            % (camap(spec["proj"]), tt("data"), tt("group"), tt("object"), ctree(spec["root"])))


def citem(m):
    return "(%s %s %s)" % ("IAttr" if m["t"] == "attr" else "ILink", caddr(m["a"]), ckey(m["k"]))


ERRS = {"KeyError": "KeyError", "TypeError": "TypeError", "AttributeError": "AttributeError", "UserWarning": "UserWarning",
        "FileNotFoundError": "FileNotFoundError"}


def _obs_term(ob):
    if ob["mitem"] is None or ob.get("skip_model"):
        return None
    if ob["open"] != "ok":
        e = ERRS.get(ob["open"]["exc"])
        if e is None:
            return "false"
        return "check_obs %s s t0 %s (Some %s) [] [] 0 false" % (cnat(FUEL), citem(ob["mitem"]), e)
    if any(x is None for x in ob["lost"] + ob["alt_own"]):
        return "false"
    if ob.get("pg_error") or any(x[0] is None or not all(32 <= ord(c) < 127 for c in x[1]) for x in ob["pg_missing"] + ob["pg_altered"]):
        return "false"
    pgl = lambda l: clist("(%s, KN %s)" % (cN(x[0]), cstr(x[1])) for x in l)  # noqa: E731
    return "check_obs %s s t0 %s None %s %s %s %s && check_pgs %s s t0 %s %s %s" % (
        cnat(FUEL), citem(ob["mitem"]), clist(cN(x) for x in ob["lost"]), clist(cN(x) for x in ob["alt_own"]), cnat(ob["new"]),
        cbool(ob["proj_changed"]), cnat(FUEL), citem(ob["mitem"]), pgl(ob["pg_missing"]), pgl(ob["pg_altered"]))


def case_term(case, obs):
    if not isinstance(obs, dict) or obs.get("spec") is None:
        return None
    terms = []
    if "scan" in obs and obs["scan"] is not None:
        sc = clist("(%s, %s, %s, %s)" % (caddr(a), camap(at), cbool(d), clist("(%s, %s)" % (ckey(k), caddr(t)) for k, t in ls))
                   for a, at, d, ls in obs["scan"])
        terms.append("scan_matchb s %s" % sc)
        terms.append("wfb s")
        terms.append("intact_ok %s s" % cnat(FUEL))
    for ob in obs["obs"]:
        if obs.get("version_sensitive") and ob["kind"] == "attr|workspace|Version":
            continue  # the Version-dependent choice of concatenated drillhole classes is not modelled
        t = _obs_term(ob)
        if t is not None:
            terms.append(t)
    if not terms:
        return None
    body = " && ".join("(%s)" % t for t in terms)
    return "(let s := %s in let t0 := abs s in %s)" % (cspec(obs["spec"]), body)


def model_term(case):
    return None


# ----------------------------------------------------------------------------- oracle (property text; independent of the model)
MANDATORY_ATTRS = {"ID", "Name"}


def classify(ob, docs):
    """'optional' | 'mandatory' from the property text and the format document."""
    role, name, t = ob["role"], ob["name"], ob["t"]
    doc = {(s, n): o for s, n, o in docs}
    if t == "attr":
        if role == "workspace":
            return "optional" if doc.get(("workspace", name), True) else "mandatory"
        sec = {"entity:Groups": "group", "entity:Objects": "object", "entity:Data": "data", "type:Group types": "group_type",
               "type:Object types": "object_type", "type:Data types": "data_type"}.get(role)
        if sec:
            if name in MANDATORY_ATTRS:
                return "mandatory"
            return "optional" if doc.get((sec, name), True) else "mandatory"
        return "optional"  # attributes of property groups, colour maps, concatenated blocks: part of an optional block
    # links
    if role == "workspace":
        return "optional" if name == "Root" else "mandatory"          # flat containers
    if role in ("types",) or role.startswith("typeflat:") or role.startswith("flat:") or role.startswith("children:"):
        return "mandatory"                                             # containers' entries (hard links to entities / types)
    if role.startswith("entity:"):
        if name == "Type":
            return "mandatory"
        if name == "PropertyGroups":
            return "optional"
        if ob["kind"].split("|")[2] in ("Data", "Groups", "Objects") and role != "entity:Data":
            return "optional" if ob.get("empty_container") else "mandatory"
        sec = {"entity:Groups": "group", "entity:Objects": "object", "entity:Data": "data"}[role]
        if "Concatenated" in name:
            return "mandatory"                                         # the v2 block that holds the group's drillholes
        return "optional" if doc.get((sec, name), True) else "mandatory"  # datasets, by the document
    if role in ("pgs", "pg"):
        return "optional"
    if role.startswith("type:"):
        return "optional"                                              # colour map, value map
    return "mandatory"                                                 # inside a concatenated block


def oracle(case, obs):
    if not isinstance(obs, dict) or "crash" in obs:
        return [{"key": "driver-crash", "what": str(obs.get("crash") if isinstance(obs, dict) else obs)[:300]}]
    fails = []
    if obs["ref_open"] != "ok":
        return [{"key": "intact-file-does-not-open", "what": f"{obs['family']}: {obs['ref_open']}"}]
    if obs["ref_hash_changed"]:
        fails.append({"key": "file-changed-by-read:intact", "what": f"{obs['family']}: reading the intact file in mode r changed its SHA-256"})
    docs = _docs()
    ents = obs["entities"]
    for ob in obs["obs"]:
        cls = classify(ob, docs)
        kind = ob["kind"]
        where = f"{obs['family']} item {ob['i']} ({kind} at {ob['where']})"
        if ob["hash_changed"]:
            fails.append({"key": f"file-changed-by-read:{kind}", "what": f"{where}: opening/reading in mode r changed the file's SHA-256"})
        if ob.get("reuse"):
            fails.append({"key": f"reused-workspace-differs:{kind}",
                          "what": f"{where}: a Workspace object re-opened on the damaged file differs from a fresh reader: {ob['reuse']['what']}"})
        if ob["open"] != "ok":
            if cls == "optional":
                fails.append({"key": f"optional-deletion-raises:{kind}", "what": f"{where}: optional item missing -> {ob['open']['exc']}: {ob['open'].get('msg', '')[:120]}"})
            continue
        D = set(ob["described"])
        names = lambda l: ",".join(ents.get(str(x), str(x)) for x in l)  # noqa: E731
        lost_out = [x for x in ob["lost"] if x not in D]
        alt_out = [x for x in ob["alt_own"] + ob["alt_derived"] if x not in D]
        kids_out = [x for x in ob["kids_bad"] if x not in D]
        if lost_out or alt_out or kids_out:
            what = "; ".join(f"{ents.get(str(x), x)}{ob['detail'].get(str(x), ['children'])}" for x in sorted(set(alt_out + kids_out)))
            fails.append({"key": f"unaffected-entity-{'lost' if lost_out else 'altered'}:{kind}",
                          "what": f"{where}: entities not described by the item are "
                                  + (f"missing: {names(lost_out)}; " if lost_out else "") + (f"changed: {what}" if what else "")})
        # property groups one by one: a group that is not the one the item describes stays, unchanged
        pgm = [x for x in ob.get("pg_missing", []) if not (x[0] in D and ob.get("pg_item") is None)]
        pga = [x for x in ob.get("pg_altered", []) if not (x[0] in D and ob.get("pg_item") is None)]
        if ob.get("pg_item") is not None:
            pgm = [x for x in pgm if x[1] != ob["pg_item"]]
            pga = [x for x in pga if x[1] != ob["pg_item"]]
            own = [f for f in ob["detail"].get(str(ob.get("pg_owner")), []) if f not in ("property_groups", "children")]
            if ob.get("pg_owner") in ob["alt_own"] and own:
                fails.append({"key": f"unaffected-entity-altered:{kind}", "what": f"{where}: the object changed beyond the described property group: {own}"})
        if pgm or pga or (ob.get("pg_error") and [x for x in ob["pg_error"] if x not in D or ob.get("pg_item") is not None]):
            fails.append({"key": f"unaffected-property-group-{'lost' if pgm else 'altered'}:{kind}",
                          "what": f"{where}: property groups the item does not describe are "
                                  + (f"missing: {pgm[:4]} " if pgm else "") + (f"changed: {pga[:4]} " if pga else "")
                                  + (f"unreadable on {names(ob['pg_error'])}" if ob.get("pg_error") else "")})
        unread = [x for x in ob.get("unread", []) if x[0] is None or x[0] not in D]
        if unread:
            fails.append({"key": f"stored-dataset-not-read:{kind}",
                          "what": f"{where}: datasets present in the file come back as None: "
                                  + ", ".join(f"{ents.get(str(x[0]), 'recovered entity')}.{x[1]}" for x in unread[:5])})
        if ob["proj_changed"] and not (ob["role"] == "workspace" and ob["t"] == "attr"):
            fails.append({"key": f"project-attributes-altered:{kind}", "what": f"{where}: project attributes changed"})
        if cls == "optional":
            # the entities must still be there (possibly with a default for the missing attribute)
            if [x for x in ob["lost"] if x in D] and not kind.startswith("link|entity") and kind != "link|workspace|Root":
                fails.append({"key": f"optional-deletion-loses-entity:{kind}", "what": f"{where}: {names(ob['lost'])} left out although the item is optional"})
        else:
            kept = [x for x in ob.get("described_roots", []) if x not in ob["lost"]]
            if kept:
                # mandatory item missing, no error, and a described entity is still returned (defaults / a new identifier)
                fails.append({"key": f"mandatory-item-defaulted:{_kept_class(ob)}",
                              "what": f"{where}: mandatory item missing, no error, and {names(sorted(kept)[:4])} is still returned "
                                      f"(changed: {ob['detail'].get(str(kept[0]), 'nothing observable')})"})
    return fails


def _kept_class(ob):
    role, name, t = ob["role"], ob["name"], ob["t"]
    if t == "attr" and role.startswith("entity:"):
        return "entity-" + name if name in ("ID", "Name") else "entity-attribute"
    if ob.get("is_root_item") and (role == "workspace" or role.startswith("flat:")):
        return "root-flat-entry"
    if role.startswith("entity:") and t == "link" and name != "Type":
        return "dataset"
    if role in ("concat", "concatitem"):
        return "concatenated-block"
    return f"{t}-{role.split(':')[0]}-{name if not name.startswith('{') else 'uid'}"


def nontrivial(case, obs):
    if not isinstance(obs, dict) or "obs" not in obs:
        return False
    return any(ob["open"] != "ok" or ob.get("lost") or ob.get("alt_own") or ob.get("new") for ob in obs["obs"])


def histogram(cases, obs):
    h = {"family_items": {}, "deletions": 0, "kinds_covered": {}, "outcome": {}, "class": {}, "model_compared": 0, "not_expressible": {}}
    docs = _docs()
    for c, o in zip(cases, obs):
        if not isinstance(o, dict) or "obs" not in o:
            h["outcome"]["crash"] = h["outcome"].get("crash", 0) + 1
            continue
        fam = o["family"]
        h["family_items"][fam] = o["n_items"]
        ks = h["kinds_covered"].setdefault(fam, {"covered": set(), "total": o["kinds_total"]})
        if o.get("spec") is None:
            h["not_expressible"][fam] = o.get("spec_why")
        for ob in o["obs"]:
            h["deletions"] += 1
            ks["covered"].add(ob["kind"])
            if ob["open"] != "ok":
                k = "error:" + ob["open"]["exc"]
            elif ob["lost"]:
                k = "entities lost"
            elif ob["alt_own"] or ob["alt_derived"]:
                k = "entities altered"
            elif ob["new"]:
                k = "new entities"
            else:
                k = "unchanged"
            h["outcome"][k] = h["outcome"].get(k, 0) + 1
            cl = classify(ob, docs)
            h["class"][cl] = h["class"].get(cl, 0) + 1
            if ob["mitem"] is not None:
                h["model_compared"] += 1
            if ob.get("old_root_after"):
                k2 = "old root returned as " + ob["old_root_after"] + " under the rebuilt root"
                h.setdefault("root_rebuild", {})[k2] = h.setdefault("root_rebuild", {}).get(k2, 0) + 1
    for fam, ks in h["kinds_covered"].items():
        h["kinds_covered"][fam] = f"{len(ks['covered'])}/{ks['total']}"
    return h
