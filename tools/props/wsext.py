"""Extended, oracle-only API histories for C01 / C02 / C09: many entity classes, data kinds, property groups, shared data
types, removal of several children at once, copies (same and other workspace), drillhole groups.  These histories are
NOT expressible in the Coq model (case_term -> None); they are evaluated against the property text only:
  C01: rich snapshot of the live tree == snapshot after close + fresh open
  C02: independent structural validator at every close
  C09: per-op digests of every stored node of both files, changed set within the op's allowance
Entities are named by creation ordinals e0, e1, ... (uuids are random here)."""
from __future__ import annotations

import hashlib

KINDS = ["group", "points", "curve", "surface", "grid2d"]


def gen_ext_history(rng, length):
    """Returns a list of symbolic ops; operands are ordinals resolved by the driver (unknown/removed ordinals -> op skipped)."""
    ops = []
    n_ent = [0]
    ents = {}  # ordinal -> kind ("group", object kinds, "data", "pg", "hole")

    def new(kind):
        i = n_ent[0]
        n_ent[0] += 1
        ents[i] = kind
        return i

    def pick(kinds):
        c = [i for i, k in ents.items() if k in kinds]
        return rng.choice(c) if c else None

    g0 = new("group")
    ops.append({"op": "create", "id": g0, "cls": "group", "parent": None, "ws": 0})
    o0 = new(rng.choice(["points", "curve", "surface"]))
    ops.append({"op": "create", "id": o0, "cls": ents[o0], "parent": g0, "ws": 0, "n": rng.range(3, 6)})
    for _ in range(rng.range(2, 4)):
        d = new("data")
        ops.append({"op": "add_data", "id": d, "obj": o0, "dtype": rng.choice(["float", "int", "text", "ref"]), "assoc": "VERTEX", "seed": rng.below(1000), "share_type": None})
    def pattern_type_churn():
        # the last user of a data type goes away, then the type identifier comes back with another primitive type
        tu = rng.range(1, 2)
        a = new("points")
        ops.append({"op": "create", "id": a, "cls": "points", "parent": g0, "ws": 0, "n": 3})
        d = new("data")
        k1, k2 = rng.shuffle(["float", "int"])
        ops.append({"op": "add_data", "id": d, "obj": a, "dtype": k1, "assoc": "VERTEX", "seed": rng.below(1000), "share_type": None, "type_uid": tu})
        ops.append({"op": "rm_ws", "e": a if rng.chance(60) else d})
        if rng.chance(50):
            ops.append({"op": "listing", "kind": "types"})  # sweeps the dead type from the file before its identifier returns
        b = new("points")
        ops.append({"op": "create", "id": b, "cls": "points", "parent": g0, "ws": 0, "n": 4})
        d2 = new("data")
        ops.append({"op": "add_data", "id": d2, "obj": b, "dtype": k2, "assoc": "VERTEX", "seed": rng.below(1000), "share_type": None, "type_uid": tu})

    def pattern_unnamed_pgs():
        o = pick(["points", "curve", "surface"])
        if o is not None:
            for _ in range(2):
                g = new("pg")
                ops.append({"op": "pg", "id": g, "obj": o, "named": False, "k": rng.range(1, 3), "seed": rng.below(1000)})

    def pattern_deferred_save():
        # a group created without saving it, which then receives a child: only the walk at close links it under its parent
        g = new("group")
        ops.append({"op": "create", "id": g, "cls": "group", "parent": g0 if rng.chance(50) else None, "ws": 0, "deferred": True})
        c = new("points")
        ops.append({"op": "create", "id": c, "cls": "points", "parent": g, "ws": 0, "n": 3})

    def pattern_mixed_removal():
        # one remove_children call that names children of different kinds (an object and a sub-group, in either order), then
        # the listing getters that sweep the detached entities, then a re-open
        g = new("group")
        ops.append({"op": "create", "id": g, "cls": "group", "parent": g0, "ws": 0})
        kinds = rng.shuffle(["points", "group", rng.choice(["curve", "group", "points"])])
        for k in kinds:
            c = new(k)
            ops.append({"op": "create", "id": c, "cls": k, "parent": g, "ws": 0, "n": 3})
        ops.append({"op": "rm_children", "obj": g, "seed": rng.below(1000), "k": 3, "pg_first": False, "all": True})
        for kind in rng.shuffle(["groups", "objects"]):
            ops.append({"op": "listing", "kind": kind})
        if rng.chance(60):
            ops.append({"op": "reopen"})

    def pattern_layout_names():
        # an entity named like a node of the file layout (the project group first of all), then a re-open
        e = pick(["points", "curve", "surface", "grid2d", "group", "data"])
        if e is not None and e != g0:
            ops.append({"op": "rename", "e": e, "v": rng.choice(["GEOSCIENCE", "GEOSCIENCE", "Root", "Types"])})
            if rng.chance(50):
                ops.append({"op": "reopen"})

    def pattern_cold_update():
        # state assigned in one session is UPDATED as the first thing of the next session, before anything was read back
        # (lazy loaders: the update must act on what the file holds, not on an empty cache)
        e = pick(["points", "curve", "surface", "group"])
        if e is not None:
            v1 = rng.below(100)
            v2 = v1 + rng.range(1, 2)   # another key (keys are k<v mod 3>)
            ops.append({"op": "meta", "e": e, "v": v1})
            ops.append({"op": "reopen"})
            ops.append({"op": "meta", "e": e, "v": v2})
            if rng.chance(50):
                ops.append({"op": "reopen"})
                ops.append({"op": "meta", "e": e, "v": v2 + 1})

    patterns = [p for p, c in ((pattern_type_churn, 30), (pattern_unnamed_pgs, 15), (pattern_deferred_save, 25), (pattern_cold_update, 25),
                                  (pattern_mixed_removal, 25), (pattern_layout_names, 30))
                if rng.chance(c)]
    at = {rng.range(len(ops), max(len(ops), length - 8)): p for p in patterns}
    while len(ops) < length:
        for pos in sorted(at):
            if len(ops) >= pos:
                at.pop(pos)()
                break
        w = rng.weighted([("create", 14), ("add_data", 16), ("pg", 12), ("pg_unnamed", 4), ("rm_children", 9), ("rm_ws", 9),
                          ("move", 6), ("copy", 8), ("copy_ws", 4), ("rename", 6), ("values", 7), ("geom", 4), ("listing", 5),
                          ("reopen", 6), ("meta", 3), ("bad_add", 5)])
        if w == "bad_add":
            # a creation the library refuses with an exception half-way (caught by the caller, who carries on): the file must
            # stay a valid geoh5 file and the live tree must still equal the re-opened one
            o = pick(["points", "curve", "surface"])
            if o is not None:
                ops.append({"op": "bad_add", "obj": o, "how": rng.weighted([("empty_text", 40), ("too_long", 12), ("ref_bad_map", 12), ("int_overflow", 12), ("bad_assoc", 8), ("bad_type", 8),
                                                  ("ref_map_str", 8)]), "seed": rng.below(1000)})
        elif w == "create":
            cls = rng.choice(KINDS)
            p = pick(["group"])
            i = new("group" if cls in ("group",) else "dhgroup" if cls == "dhgroup" else cls)
            ops.append({"op": "create", "id": i, "cls": cls, "parent": p, "ws": 0, "n": rng.range(2, 6)})
        elif w == "add_data":
            o = pick(["points", "curve", "surface", "grid2d"])
            if o is not None:
                d = new("data")
                share = pick(["data"]) if rng.chance(25) else None
                ops.append({"op": "add_data", "id": d, "obj": o, "dtype": rng.choice(["float", "int", "text", "ref"]),
                            "assoc": rng.choice(["VERTEX", "VERTEX", "CELL", "OBJECT"]), "seed": rng.below(1000), "share_type": share,
                            "type_uid": rng.range(1, 2) if rng.chance(30) else None})
        elif w in ("pg", "pg_unnamed"):
            o = pick(["points", "curve", "surface"])
            if o is not None:
                g = new("pg")
                ops.append({"op": "pg", "id": g, "obj": o, "named": w == "pg", "k": rng.range(1, 3), "seed": rng.below(1000)})
        elif w == "rm_children":
            o = pick(["points", "curve", "surface", "grid2d", "group"])
            if o is not None:
                ops.append({"op": "rm_children", "obj": o, "seed": rng.below(1000), "k": rng.range(1, 5), "pg_first": rng.chance(40)})
        elif w == "rm_ws":
            e = pick(["data", "pg", "points", "curve", "surface", "grid2d", "group", "hole"])
            if e is not None and e != g0:
                ops.append({"op": "rm_ws", "e": e})
        elif w == "move":
            e, q = pick(["points", "curve", "surface", "grid2d", "group"]), pick(["group"])
            if e is not None and q is not None and e != q:
                ops.append({"op": "move", "e": e, "q": q})
        elif w in ("copy", "copy_ws"):
            e = pick(["points", "curve", "surface", "grid2d", "group", "data", "dhgroup"])
            if e is not None:
                i = new(ents[e])
                ops.append({"op": "copy", "id": i, "e": e, "to": pick(["group"]) if w == "copy" else None, "other_ws": w == "copy_ws",
                            "children": rng.chance(80)})
        elif w == "rename":
            e = pick(["data", "points", "curve", "surface", "grid2d", "group"])
            if e is not None:
                # mostly fresh names; sometimes a name that also names a node of the file layout (the project group, a container)
                nm = rng.choice(["GEOSCIENCE", "GEOSCIENCE", "GEOSCIENCE", "Root", "Data", "Types", "Groups", "Objects", "Workspace"]) if rng.chance(18) else f"r{rng.below(1000)}"
                ops.append({"op": "rename", "e": e, "v": nm})
        elif w == "values":
            e = pick(["data"])
            if e is not None:
                ops.append({"op": "values", "e": e, "seed": rng.below(1000)})
        elif w == "geom":
            e = pick(["points", "curve", "surface"])
            if e is not None:
                ops.append({"op": "geom", "e": e, "seed": rng.below(1000)})
        elif w == "meta":
            e = pick(["points", "curve", "surface", "group"])
            if e is not None:
                ops.append({"op": "meta", "e": e, "v": rng.below(100)})
        elif w == "listing":
            ops.append({"op": "listing", "kind": rng.choice(["groups", "objects", "data", "types", "property_groups"])})
        elif w == "reopen":
            ops.append({"op": "reopen"})
        elif w == "hole":
            g = pick(["dhgroup"])
            if g is not None:
                h = new("hole")
                ops.append({"op": "hole", "id": h, "group": g, "seed": rng.below(1000)})
        elif w == "hole_data":
            h = pick(["hole"])
            if h is not None:
                ops.append({"op": "hole_data", "hole": h, "name": rng.choice(["au", "cu", "lith"]), "n": rng.range(1, 4), "seed": rng.below(1000), "interval": rng.chance(40)})
    ops.append({"op": "reopen"})
    return ops


# ----------------------------------------------------------------------------- driver
def _special_floats(R, v):
    """a third of the float arrays carry values only a float can hold: +-inf, huge, denormal, -0.0 (never the format's no-data
    code 1.175494351e-38, which legitimately reads back as nan)"""
    import numpy as np

    if len(v) and R.randint(3) == 0:
        for _ in range(1 + R.randint(2)):
            v[R.randint(len(v))] = [np.inf, -np.inf, 1e300, -1e300, 5e-324, 0.1 + 0.2][R.randint(6)]
    return v


def _arr(x):
    import numpy as np

    if x is None:
        return None
    a = np.asarray(x)
    if a.dtype.names:
        a = np.asarray(a.tolist())
    if a.dtype.kind in "fc":
        return ["nan" if v != v else round(float(v), 9) for v in a.ravel().tolist()][:400] + [list(a.shape)]
    if a.dtype.kind in "OSU":
        return [v.decode() if isinstance(v, bytes) else str(v) for v in a.ravel().tolist()][:400]
    return a.ravel().tolist()[:400] + [list(a.shape)]


def snapshot(ws):
    """Rich API snapshot of the tree below ws.root: everything C01 names."""
    from geoh5py.data import Data
    from geoh5py.groups import PropertyGroup

    out = {}

    def walk(e, parent_uid):
        kids = [c for c in getattr(e, "children", []) if not isinstance(c, PropertyGroup)]
        rec = {"cls": type(e).__name__.replace("Concatenated", "").replace("Concatenator", ""), "name": e.name, "parent": str(parent_uid),
               "allow_delete": bool(e.allow_delete), "public": bool(e.public), "visible": bool(e.visible),
               "type": str(e.entity_type.uid), "type_name": e.entity_type.name,
               "children": sorted(str(c.uid) for c in kids)}
        for attr in ("vertices", "cells", "origin", "u_cell_size", "v_cell_size", "u_count", "v_count", "rotation", "dip", "collar", "surveys"):
            if hasattr(e, attr):
                try:
                    rec[attr] = _arr(getattr(e, attr))
                except Exception as ex:  # noqa: BLE001
                    rec[attr] = f"<{type(ex).__name__}>"
        if isinstance(e, Data):
            try:
                rec["values"] = _arr(e.values)
            except Exception as ex:  # noqa: BLE001
                rec["values"] = f"<{type(ex).__name__}>"
            rec["association"] = e.association.name if e.association is not None else None
            rec["primitive"] = e.entity_type.primitive_type.name if getattr(e.entity_type, "primitive_type", None) is not None else None
            vm = getattr(e.entity_type, "value_map", None)
            if vm is not None:
                rec["value_map"] = {str(k): str(v) for k, v in vm.map.items()}
        md = getattr(e, "metadata", None)
        if md is not None:
            rec["metadata"] = repr(sorted((str(k), str(v)) for k, v in md.items()))
        pgs = getattr(e, "property_groups", None)
        if pgs:
            rec["property_groups"] = sorted([str(pg.uid), pg.name, sorted(str(u) for u in (pg.properties or []))] for pg in pgs)
        out[str(e.uid)] = rec
        for c in kids:
            walk(c, e.uid)

    walk(ws.root, None)
    return out


def file_digests(f):
    """digest of every stored node (entities incl. property groups / concatenated data, types, header) of an open file"""
    import h5py
    import numpy as np

    proj = f[list(f)[0]]
    out = {}

    def dig(node, skip_groups=("Data", "Groups", "Objects")):
        h = hashlib.sha256()

        def visit(n, depth):
            for k in sorted(n.attrs):
                v = n.attrs[k]
                h.update(repr((depth, k, np.asarray(v).tolist())).encode())
            for name in sorted(n):
                obj = n.get(name)
                if isinstance(obj, h5py.Dataset):
                    v = obj[()]
                    h.update(repr((depth, name, str(obj.dtype))).encode())
                    h.update(np.asarray(v).tobytes() if obj.dtype.kind not in "OV" or obj.dtype.names is None and obj.dtype.kind not in "OV" else repr(np.asarray(v).tolist()).encode())
                elif name == "Type":
                    h.update(b"Type->" + str(obj.attrs.get("ID")).encode())
                elif depth == 0 and name in skip_groups:
                    continue  # child links are tracked separately
                elif isinstance(obj, h5py.Group):
                    h.update(("G:" + name).encode())
                    visit(obj, depth + 1)

        visit(node, 0)
        return h.hexdigest()

    def links(node):
        res = []
        for sub in ("Data", "Groups", "Objects"):
            if sub in node and isinstance(node[sub], h5py.Group):
                res += [sub + "/" + cu for cu in node[sub]]
        return sorted(res)

    hh = hashlib.sha256()
    for k in sorted(proj.attrs):
        hh.update(repr((k, np.asarray(proj.attrs[k]).tolist())).encode())
    out["header"] = {"content": hh.hexdigest(), "links": []}
    for cont in ("Groups", "Objects", "Data"):
        if cont in proj:
            for us in proj[cont]:
                out[f"{cont}/{us}"] = {"content": dig(proj[cont][us]), "links": links(proj[cont][us])}
    if "Types" in proj:
        for tc in proj["Types"]:
            for us in proj["Types"][tc]:
                out[f"Types/{tc}/{us}"] = {"content": dig(proj["Types"][tc][us], ()), "links": []}
    return out


class ExtImpl:
    def __init__(self, work, tag):
        from geoh5py import Workspace

        self.paths = [f"{work}/{tag}_a.geoh5", f"{work}/{tag}_b.geoh5"]
        import os

        for p in self.paths:
            if os.path.exists(p):
                os.remove(p)
        self.ws = [Workspace.create(self.paths[0]), Workspace.create(self.paths[1])]
        self.uid = {}  # ordinal -> (ws index, uuid)
        self.validations = []
        self.reopen_diffs = []
        # documented semantics of the metadata setter ("To update the metadata, use the setter"): a dict is merged into the
        # stored one.  Shadow = what the user's assignments add up to, per entity ordinal; compared with the live value at
        # every close (nothing the user did is lost: C01)
        self.meta_shadow = {}
        self.meta_diffs = []

    def ent(self, i):
        if i is None or i not in self.uid:
            return None
        w, u = self.uid[i]
        e = self.ws[w].get_entity(u)[0]
        return e

    def in_tree(self, e):
        # operands must be reachable from the root (no use-after-remove)
        seen = 0
        x = e
        while x is not None and seen < 50:
            wsx = x.workspace if hasattr(x, "workspace") else x.parent.workspace
            if x is wsx.root:
                return True
            p = getattr(x, "parent", None)
            if p is None or not any(c is x for c in getattr(p, "children", []) + (getattr(p, "property_groups", None) or [])):
                return False
            x = p
            seen += 1
        return False

    def apply(self, op):
        import gc

        import numpy as np
        from geoh5py import Workspace
        from geoh5py import objects as O
        from geoh5py.groups import ContainerGroup, DrillholeGroup, PropertyGroup

        o = op["op"]
        ws = self.ws[0]
        R = np.random.RandomState(op.get("seed", 0))
        info = {"target": None, "parents": [], "touch_ws": [0]}
        try:
            if o == "create":
                p = self.ent(op["parent"]) if op["parent"] is not None else ws.root
                if p is None or not self.in_tree(p):
                    return "skipped", info
                n = op.get("n", 3)
                cls = op["cls"]
                ws = p.workspace  # create in the parent's own workspace (the parent may be a cross-workspace copy)
                if cls == "group" and op.get("deferred"):
                    e = ws.create_entity(ContainerGroup, save_on_creation=False, entity={"parent": p, "name": f"g{op['id']}"})
                elif cls == "group":
                    e = ContainerGroup.create(ws, parent=p, name=f"g{op['id']}")
                elif cls == "dhgroup":
                    e = DrillholeGroup.create(ws, parent=p, name=f"dh{op['id']}")
                elif cls == "points":
                    e = O.Points.create(ws, parent=p, name=f"p{op['id']}", vertices=R.randint(-5, 5, (n, 3)).astype(float))
                elif cls == "curve":
                    e = O.Curve.create(ws, parent=p, name=f"c{op['id']}", vertices=R.randint(-5, 5, (n + 1, 3)).astype(float))
                elif cls == "surface":
                    v = R.randint(-5, 5, (n + 2, 3)).astype(float)
                    cells = np.array([[i, i + 1, i + 2] for i in range(n)], dtype="int32")
                    e = O.Surface.create(ws, parent=p, name=f"s{op['id']}", vertices=v, cells=cells)
                else:
                    e = O.Grid2D.create(ws, parent=p, name=f"q{op['id']}", origin=[0, 0, 0], u_cell_size=1.0, v_cell_size=2.0, u_count=n, v_count=2)
                self.uid[op["id"]] = (self.ws.index(ws), e.uid)
                info.update(target=e.uid, parents=[p.uid], touch_ws=[self.ws.index(ws)])
            elif o == "add_data":
                ob = self.ent(op["obj"])
                if ob is None or not self.in_tree(ob):
                    return "skipped", info
                assoc = op["assoc"]
                n = {"VERTEX": ob.n_vertices, "CELL": ob.n_cells, "OBJECT": 1}[assoc]
                if not n:
                    assoc, n = "OBJECT", 1
                spec = {"association": assoc}
                dt = op["dtype"]
                if dt == "float":
                    v = R.randint(-9, 9, n).astype(float)
                    if n > 1:
                        v[R.randint(n)] = np.nan
                    spec["values"] = _special_floats(R, v)
                elif dt == "int":
                    spec["values"] = R.randint(-9, 9, n).astype("int32")
                elif dt == "text":
                    spec["values"] = f"text {R.randint(99)}"
                    spec["association"] = "OBJECT"
                else:
                    spec.update(type="referenced", values=R.randint(0, 3, n).astype("uint32"), value_map={1: "a", 2: "b"})
                sh = self.ent(op["share_type"]) if op.get("share_type") is not None else None
                if sh is not None and dt == "float" and getattr(sh.entity_type, "primitive_type", None) is not None and sh.entity_type.primitive_type.name == "FLOAT":
                    spec["entity_type"] = sh.entity_type
                if op.get("type_uid") and dt in ("float", "int") and "entity_type" not in spec:
                    import uuid

                    tu = uuid.UUID(int=0xABC000 + op["type_uid"])
                    prim = {"float": "FLOAT", "int": "INTEGER"}[dt]
                    live = ob.workspace.find_type(tu, __import__("geoh5py").data.DataType)
                    if live is not None and live.primitive_type.name != prim:
                        return "skipped", info  # the identifier is in use by a live type of another kind
                    spec["entity_type"] = {"uid": tu, "primitive_type": prim, "name": f"t{op['type_uid']}{prim}"}
                d = ob.add_data({f"d{op['id']}": spec})
                self.uid[op["id"]] = (self.uid[op["obj"]][0], d.uid)
                info.update(target=d.uid, parents=[ob.uid])
            elif o == "bad_add":
                ob = self.ent(op["obj"])
                if ob is None or not self.in_tree(ob):
                    return "skipped", info
                n = ob.n_vertices or 1
                spec = {"empty_text": {"values": np.array([], dtype=str), "association": "VERTEX", "type": "text"},
                        "too_long": {"values": np.arange(n + 3).astype(float), "association": "VERTEX"},
                        "bad_assoc": {"values": np.arange(n).astype(float), "association": "NOWHERE"},
                        "bad_type": {"values": np.arange(n).astype(float), "type": "no-such-type"},
                        "ref_bad_map": {"values": np.arange(n).astype("uint32"), "type": "referenced", "value_map": {1.5: "x"}},
                        "ref_map_str": {"values": np.arange(n).astype("uint32"), "type": "referenced", "value_map": "notadict"},
                        "int_overflow": {"values": np.array([2**40] * n), "association": "VERTEX", "type": "integer"}}[op["how"]]
                info.update(target=ob.uid, parents=[ob.uid], may_create=True)
                try:
                    ob.add_data({f"bad{op['seed']}": spec})
                    info["raised"] = None
                except Exception as e:  # noqa: BLE001  (the refusal itself is not judged here; what it leaves behind is)
                    info["raised"] = type(e).__name__
                    del e
            elif o == "pg":
                ob = self.ent(op["obj"])
                if ob is None or not self.in_tree(ob):
                    return "skipped", info
                data = [c for c in ob.children if hasattr(c, "values") and getattr(c.association, "name", "") == "VERTEX" and not isinstance(c.values, str)]
                if not data:
                    return "skipped", info
                sel = [data[i] for i in sorted(set(R.randint(0, len(data), op["k"]).tolist()))]
                kw = {"name": f"pg{op['id']}"} if op["named"] else {}
                pg = PropertyGroup(ob, properties=[d.uid for d in sel], **kw) if not op["named"] else ob.add_data_to_group(sel, f"pg{op['id']}")
                self.uid[op["id"]] = (self.uid[op["obj"]][0], pg.uid)
                info.update(target=ob.uid, parents=[])
            elif o == "rm_children":
                ob = self.ent(op["obj"])
                if ob is None or not self.in_tree(ob) or not ob.children:
                    return "skipped", info
                ch = list(ob.children)
                sel = [ch[i] for i in sorted(set(R.randint(0, len(ch), op["k"]).tolist()))]
                if op.get("all"):
                    sel = [c for c in ch if not isinstance(c, PropertyGroup)]
                if op.get("pg_first"):  # a property group listed before the data sets it does not contain
                    pgs = [c for c in ch if isinstance(c, PropertyGroup)]
                    if pgs:
                        members = set(pgs[0].properties or [])
                        sel = [pgs[0]] + [c for c in sel if c is not pgs[0] and getattr(c, "uid", None) not in members]
                if any(c is ws.root for c in sel):
                    return "skipped", info
                def sub(e):
                    out = [e.uid]
                    for c in getattr(e, "children", []) or []:
                        out += sub(c)
                    return out

                info.update(target=ob.uid, parents=[ob.uid], detached=[u for c in sel for u in sub(c)])
                ob.remove_children(sel)
                del ch, sel
            elif o == "rm_ws":
                e = self.ent(op["e"])
                if e is None or not self.in_tree(e):
                    return "skipped", info
                info.update(target=e.uid, parents=[e.parent.uid], removed_subtree=True)
                (e.workspace if hasattr(e, "workspace") else e.parent.workspace).remove_entity(e)
                del e
            elif o == "move":
                e, q = self.ent(op["e"]), self.ent(op["q"])
                if e is None or q is None or not self.in_tree(e) or not self.in_tree(q):
                    return "skipped", info
                x = q
                while x is not None and x is not ws.root:
                    if x is e:
                        return "skipped", info
                    x = x.parent
                if isinstance(q, DrillholeGroup) or isinstance(e.parent, DrillholeGroup) or e.workspace is not q.workspace:
                    return "skipped", info
                info.update(target=e.uid, parents=[e.parent.uid, q.uid])
                e.parent = q
                del e, q
            elif o == "copy":
                e = self.ent(op["e"])
                if e is None or not self.in_tree(e) or self.uid[op["e"]][0] != 0:
                    return "skipped", info
                if op["other_ws"]:
                    tgt = self.ws[1].root
                    info["touch_ws"] = [1]
                else:
                    tgt = self.ent(op["to"]) if op["to"] is not None else None
                    if tgt is not None and (not self.in_tree(tgt) or self.uid[op["to"]][0] != 0):
                        tgt = None
                from geoh5py.data import Data

                x = tgt
                while x is not None and x is not ws.root and x is not self.ws[1].root:
                    if x is e:
                        return "skipped", info  # copying a group into itself recurses forever: not an operand we generate
                    x = x.parent
                if isinstance(e, Data):
                    if tgt is None or not hasattr(tgt, "n_vertices") or tgt.n_vertices != e.parent.n_vertices or tgt.n_cells != e.parent.n_cells:
                        return "skipped", info
                    c = e.copy(parent=tgt)
                elif tgt is not None and not isinstance(tgt, (ContainerGroup, type(ws.root))):
                    return "skipped", info
                elif isinstance(e.parent, DrillholeGroup):
                    return "skipped", info
                else:
                    c = e.copy(parent=tgt, copy_children=op["children"])
                if c is None:
                    return "skipped", info
                self.uid[op["id"]] = (1 if op["other_ws"] else 0, c.uid)
                info.update(target=c.uid, parents=[c.parent.uid], created_subtree=True)
                del c, e
            elif o == "rename":
                e = self.ent(op["e"])
                if e is None or not self.in_tree(e):
                    return "skipped", info
                e.name = op["v"]
                info.update(target=e.uid)
            elif o == "values":
                e = self.ent(op["e"])
                if e is None or not self.in_tree(e) or e.values is None or isinstance(e.values, str):
                    return "skipped", info
                n = len(e.values)
                if e.entity_type.primitive_type.name == "FLOAT":
                    e.values = _special_floats(R, R.randint(-9, 9, n).astype(float))
                elif e.entity_type.primitive_type.name == "INTEGER":
                    e.values = R.randint(-9, 9, n).astype("int32")
                else:
                    return "skipped", info
                info.update(target=e.uid)
            elif o == "geom":
                e = self.ent(op["e"])
                if e is None or not self.in_tree(e):
                    return "skipped", info
                e.vertices = R.randint(-5, 5, e.vertices.shape).astype(float)
                info.update(target=e.uid)
            elif o == "meta":
                e = self.ent(op["e"])
                if e is None or not self.in_tree(e):
                    return "skipped", info
                key = f"k{op['v'] % 3}"
                e.metadata = {key: op["v"]}
                self.meta_shadow.setdefault(op["e"], {})[key] = op["v"]
                info.update(target=e.uid)
            elif o == "listing":
                _ = getattr(ws, op["kind"])
                del _
                info["listing"] = True
            elif o == "reopen":
                md = []
                for i, sh in sorted(self.meta_shadow.items()):
                    e = self.ent(i)
                    if e is not None and self.in_tree(e):
                        live = e.metadata
                        if not isinstance(live, dict) or any(live.get(k) != v for k, v in sh.items()):
                            md.append({"ordinal": i, "uid": str(e.uid), "assigned": dict(sh), "live": repr(live)[:200]})
                    del e
                self.meta_diffs.append(md)
                before = [snapshot(w) for w in self.ws]
                for w in self.ws:
                    w.close()
                self.ws = []
                gc.collect()
                self.validations.append([_validate(p) for p in self.paths])
                # the re-opened tree is read through a separate read-only opening, so that the session that continues starts
                # COLD (nothing fetched lazily yet: metadata, values, children ... are loaded by the operations themselves)
                after = []
                for p in self.paths:
                    with Workspace(p, mode="r") as wr:
                        after.append(snapshot(wr))
                    del wr
                gc.collect()
                self.ws = [Workspace(p) for p in self.paths]
                self.reopen_diffs.append([_diff(b, a) for b, a in zip(before, after)])
                info["reopen"] = True
                info["touch_ws"] = [0, 1]
            elif o == "hole":
                g = self.ent(op["group"])
                if g is None or not self.in_tree(g):
                    return "skipped", info
                h = O.Drillhole.create(g.workspace, parent=g, name=f"h{op['id']}", collar=[float(op["id"]), 0.0, 0.0],
                                       surveys=np.array([[0.0, 0.0, -90.0], [50.0, 0.0, -90.0]]))
                self.uid[op["id"]] = (self.uid[op["group"]][0], h.uid)
                info.update(target=g.uid, parents=[g.uid])
            elif o == "hole_data":
                h = self.ent(op["hole"])
                if h is None or not self.in_tree(h):
                    return "skipped", info
                n = op["n"]
                if op["interval"]:
                    ft = np.c_[np.arange(n) * 2.0, np.arange(n) * 2.0 + 1.0]
                    h.add_data({op["name"] + "_i": {"values": R.randint(0, 9, n).astype(float), "from-to": ft}})
                else:
                    h.add_data({op["name"]: {"values": R.randint(0, 9, n).astype(float), "depth": np.arange(n) * 1.5}})
                info.update(target=h.parent.uid, parents=[])
            else:
                raise ValueError(o)
        except (UserWarning,) as e:
            return f"refused:{type(e).__name__}", info
        finally:
            gc.collect()
        return "done", info

    def close(self):
        for w in self.ws:
            w.close()


def _validate(path):
    from props.wsmodel import validate_geoh5

    return validate_geoh5(path)


def _diff(before, after):
    out = []
    for u in sorted(set(before) | set(after)):
        b, a = before.get(u), after.get(u)
        if b != a:
            if b is None or a is None:
                out.append({"uid": u, "only": "live" if a is None else "reopened", "rec": (b or a)["cls"] + ":" + (b or a)["name"]})
            else:
                out.append({"uid": u, "fields": sorted(k for k in set(b) | set(a) if b.get(k) != a.get(k)),
                            "live": {k: b.get(k) for k in b if b.get(k) != a.get(k)}, "reopened": {k: a.get(k) for k in a if b.get(k) != a.get(k)}})
    return out[:8]


def run_ext_history(ops, work, tag, want_digests=False):
    import os

    im = ExtImpl(work, tag)
    steps = []
    dig = [[file_digests(w.geoh5) for w in im.ws]] if want_digests else []
    for op in ops:
        try:
            outc, info = im.apply(op)
        except Exception as e:  # noqa: BLE001
            import traceback

            outc, info = f"error:{type(e).__name__}:{str(e)[:160]}", {"tb": traceback.format_exc()[-600:]}
        if info.get("touch_ws") == [0]:
            # (default) the workspace the operation addresses = the one its operand lives in: entities copied into the other
            # workspace are operands too; copies into the other workspace and re-opens set the field themselves
            k = op.get("obj", op.get("e", op.get("parent")))
            if k in im.uid:
                info["touch_ws"] = [im.uid[k][0]]
        info = {k: ([str(x) for x in v] if isinstance(v, list) else (str(v) if k == "target" and v is not None else v)) for k, v in info.items()}
        steps.append({"outcome": outc, "info": info})
        if want_digests:
            dig.append([file_digests(w.geoh5) for w in im.ws])
    roots = [str(w.root.uid) for w in im.ws]
    im.close()
    final_validation = [_validate(p) for p in im.paths]
    for p in im.paths:
        os.remove(p)
    return {"ext": True, "steps": steps, "validations": im.validations, "final_validation": final_validation,
            "reopen_diffs": im.reopen_diffs, "meta_diffs": im.meta_diffs, "digests": dig if want_digests else None, "roots": roots}


def oracle_ext_frame(case, obs):
    """C09 on the extended histories: between the digests taken before and after an operation, an EXISTING node (present in
    both) may differ only if it is the operation's target or one of the parents it leaves / joins; nodes may appear (nodes it
    creates, types it introduces) or disappear (nodes it deletes, types it stops using); the project header never changes; a
    file the operation does not address stays identical.  Listing getters and close + open are judged elsewhere (sweeps of
    dead nodes: recorded findings of C02)."""
    fails = []
    dig = obs.get("digests")
    if not dig:
        return fails
    residue = set()   # objects on which an empty-text creation was refused half-way (recorded defect)
    for i, (op, st) in enumerate(zip(case["ops"], obs["steps"])):
        if op["op"] == "bad_add" and op.get("how") == "empty_text" and st["info"].get("raised"):
            residue.add(str(st["info"].get("target")))
        if st["outcome"] != "done" or op["op"] in ("reopen", "listing") or i + 1 >= len(dig):
            continue
        info = st["info"]
        touch = {int(x) for x in (info.get("touch_ws") or [0])}
        if op["op"] == "copy" and op.get("other_ws"):
            touch = {1}
        own = {str(info.get("target"))} | {str(x) for x in (info.get("parents") or [])}
        for fi in (0, 1):
            before, after = dig[i][fi], dig[i + 1][fi]
            mod = sorted(p for p in set(before) & set(after) if before[p] != after[p])
            new_or_gone = sorted(p for p in set(before) ^ set(after))
            if fi not in touch:
                if mod or new_or_gone:
                    fails.append({"key": "ext-other-file-changed", "what": f"op {i} {op} addresses workspace {sorted(touch)}; file {fi} changed: {(mod + new_or_gone)[:4]}"})
                    return fails
                continue
            bad = [p for p in mod if p == "header" or not any(("{%s}" % u) in p for u in own)]
            if bad and "header" not in bad and all(any(("{%s}" % u) in p for u in residue) for p in bad):
                # recorded defect (C07 text-empty-unwritable): the refused creation left a data node that is not linked under
                # its object; a later save of an ancestor (first save of a deferred group, a move) links it: the object's
                # node changes although it is neither target nor parent
                fails.append({"key": "text-empty-unwritable", "what": f"op {i} {op}: residue of a refused empty-text creation is linked late: {bad[:3]}"})
                return fails
            if bad:
                fails.append({"key": "ext-header-changed" if "header" in bad else "ext-collateral-change",
                              "what": f"op {i} {op} (target {info.get('target')}, parents {info.get('parents')}) modified in file {fi}: {bad[:4]}"})
                return fails
    return fails


# ============================================================================= drillhole-group histories (C09 oracle stream)
def gen_dh_history(rng, length):
    """two workspaces; drillhole groups whose names are drawn from a small pool (same-named groups happen), holes, depth data,
    updates, removals, cross-workspace copies, listing getters; every op names its target group by ordinal"""
    ops = []
    groups, holes, data = [], [], []   # ordinals
    n = [0]

    def new():
        n[0] += 1
        return n[0] - 1

    for _ in range(rng.range(1, 2)):
        g = new()
        groups.append(g)
        ops.append({"op": "dh_group", "id": g, "name": f"dh{rng.below(2)}"})
    while len(ops) < length:
        w = rng.weighted([("dh_group", 8), ("hole", 20), ("data", 25), ("update", 12), ("rm_data", 6), ("rm_hole", 5),
                          ("copy_ws", 8), ("listing", 10), ("reopen", 6), ("lookup_miss", 4), ("rm_nonchild", 4)])
        if w == "lookup_miss" and groups:
            # a look-up that finds nothing (no mutation), usually closing the session right away
            ops.append({"op": "dh_lookup_miss", "group": rng.choice(groups), "seed": rng.below(1000)})
            if rng.chance(60):
                ops.insert(len(ops) - 1, {"op": "reopen"})
                ops.append({"op": "reopen"})
        elif w == "rm_nonchild" and groups and (data or len(groups) >= 2 and holes):
            # group.remove_children(x) where x is NOT a child of that group (a data set of one of its holes, or a hole of
            # another group): nothing may change anywhere
            ops.append({"op": "dh_rm_nonchild", "group": rng.choice(groups), "x": rng.choice(data + holes)})
        elif w == "dh_group":
            g = new()
            groups.append(g)
            ops.append({"op": "dh_group", "id": g, "name": f"dh{rng.below(2)}"})
        elif w == "hole" and groups:
            h = new()
            holes.append(h)
            ops.append({"op": "hole", "id": h, "group": rng.choice(groups), "seed": rng.below(1000)})
        elif w == "data" and holes:
            d = new()
            data.append(d)
            ops.append({"op": "hole_data", "id": d, "hole": rng.choice(holes), "name": rng.choice(["au", "cu"]), "n": rng.range(1, 4), "seed": rng.below(1000)})
        elif w == "update" and data:
            ops.append({"op": "dh_update", "data": rng.choice(data), "seed": rng.below(1000)})
        elif w == "rm_data" and data:
            ops.append({"op": "dh_rm", "e": rng.choice(data)})
        elif w == "rm_hole" and holes:
            ops.append({"op": "dh_rm", "e": rng.choice(holes)})
        elif w == "copy_ws" and groups:
            g = new()
            ops.append({"op": "dh_copy", "id": g, "group": rng.choice(groups)})
        elif w == "listing":
            ops.append({"op": "dh_listing", "ws": rng.below(2), "kind": rng.choice(["types", "groups", "objects", "data"])})
        elif w == "reopen":
            ops.append({"op": "reopen"})
    if groups and rng.chance(50):
        # forced pattern: source re-opened (concatenated data not loaded), copied to the other workspace, then a listing
        # getter (or a removal) runs on the SOURCE
        # (self-contained: a fresh group with a hole and data, so that the copy is never skipped and has types to lose)
        gs, h, d = new(), new(), new()
        ops += [{"op": "dh_group", "id": gs, "name": f"dh{rng.below(2)}"}, {"op": "hole", "id": h, "group": gs, "seed": rng.below(1000)},
                {"op": "hole_data", "id": d, "hole": h, "name": rng.choice(["au", "cu"]), "n": rng.range(1, 4), "seed": rng.below(1000)}]
        g = new()
        ops += [{"op": "reopen"}, {"op": "dh_copy", "id": g, "group": gs}]
        ops.append({"op": "dh_listing", "ws": 0, "kind": "types"} if rng.chance(60) or not data else {"op": "dh_rm", "e": rng.choice(data)})
    ops.append({"op": "reopen"})
    return ops


class DhImpl(ExtImpl):
    def apply(self, op):
        import gc

        import numpy as np
        from geoh5py import objects as O
        from geoh5py.groups import DrillholeGroup

        o = op["op"]
        if o == "reopen":
            return super().apply(op)
        R = np.random.RandomState(op.get("seed", 0))
        info = {"target": None, "ws": 0, "kind": o}
        self.gone = getattr(self, "gone", set())          # ordinals removed (with their dependants): never operands again
        self.names = getattr(self, "names", {})           # hole ordinal -> data names in use
        self.copied = getattr(self, "copied", set())      # groups already copied to the other workspace
        self.group_of = getattr(self, "group_of", {})
        self.hole_of = getattr(self, "hole_of", {})
        for k in ("group", "hole", "data", "e"):
            if op.get(k) in self.gone:
                return "skipped", info
        try:
            if o == "dh_group":
                g = DrillholeGroup.create(self.ws[0], name=op["name"])
                self.uid[op["id"]] = (0, g.uid)
                info.update(target=g.uid, created=True)
            elif o == "hole":
                g = self.ent(op["group"])
                if g is None:
                    return "skipped", info
                w = self.uid[op["group"]][0]
                h = O.Drillhole.create(g.workspace, parent=g, name=f"h{op['id']}", collar=[float(op["id"]), 0.0, 0.0],
                                       surveys=np.array([[0.0, 0.0, -90.0], [50.0, 0.0, -90.0]]))
                self.uid[op["id"]] = (w, h.uid)
                self.group_of[op["id"]] = op["group"]
                info.update(target=g.uid, ws=w)
            elif o == "hole_data":
                h = self.ent(op["hole"])
                if h is None:
                    return "skipped", info
                w = self.uid[op["hole"]][0]
                n = op["n"]
                if op["name"] in self.names.setdefault(op["hole"], set()):
                    return "skipped", info
                d = h.add_data({op["name"]: {"values": R.randint(0, 9, n).astype(float), "depth": np.arange(n) * 1.5}})
                self.names[op["hole"]].add(op["name"])
                self.uid[op["id"]] = (w, d.uid)
                self.group_of[op["id"]] = self.group_of[op["hole"]]
                self.hole_of[op["id"]] = op["hole"]
                info.update(target=h.parent.uid, ws=w)
            elif o == "dh_update":
                d = self.ent(op["data"])
                if d is None or d.values is None:
                    return "skipped", info
                w = self.uid[op["data"]][0]
                info.update(target=d.parent.parent.uid, ws=w)
                d.values = R.randint(0, 9, len(d.values)).astype(float)
            elif o == "dh_rm":
                e = self.ent(op["e"])
                if e is None:
                    return "skipped", info
                w = self.uid[op["e"]][0]
                g = e.parent if isinstance(e.parent, DrillholeGroup) else e.parent.parent
                info.update(target=g.uid, ws=w)
                e.workspace.remove_entity(e)
                self.gone.add(op["e"])
                self.gone |= {k for k, h in self.hole_of.items() if h == op["e"]}
                if op["e"] in self.hole_of:
                    self.names.get(self.hole_of[op["e"]], set()).discard(e.name)
                del e, g
            elif o == "dh_copy":
                g = self.ent(op["group"])
                if g is None or self.uid[op["group"]][0] != 0 or op["group"] in self.copied:
                    return "skipped", info
                self.copied.add(op["group"])
                c = g.copy(parent=self.ws[1].root)
                self.uid[op["id"]] = (1, c.uid)
                info.update(target=c.uid, ws=1, created=True, copy=True)
                del c, g
            elif o == "dh_listing":
                _ = getattr(self.ws[op["ws"]], op["kind"])
                del _
                info.update(ws=op["ws"], listing=True)
            elif o == "dh_lookup_miss":
                import uuid as _uuid

                g = self.ent(op["group"])
                if g is None:
                    return "skipped", info
                _ = g.get_concatenated_attributes(_uuid.UUID(int=10**30 + op["seed"]))
                del _, g
                info.update(ws=self.uid[op["group"]][0], lookup=True, no_mutation=True)
            elif o == "dh_rm_nonchild":
                g, x = self.ent(op["group"]), self.ent(op["x"])
                if g is None or x is None or any(c is x for c in g.children) or self.uid[op["group"]][0] != self.uid[op["x"]][0]:
                    return "skipped", info
                info.update(ws=self.uid[op["group"]][0], no_mutation=True)
                try:
                    g.remove_children([x])
                except (ValueError, KeyError, UserWarning) as e:   # refusing loudly is fine as long as nothing changed
                    info["raised"] = type(e).__name__
                del g, x
            else:
                raise ValueError(o)
        finally:
            gc.collect()
        return "done", info


def _type_refs(f):
    """type identifiers referenced by entity Type links or by concatenated attribute records of an open file"""
    import h5py

    refs = set()
    proj = f[list(f)[0]]
    for cont in ("Groups", "Objects", "Data"):
        for us in proj.get(cont, {}):
            node = proj[cont][us]
            if "Type" in node:
                t = node["Type"].attrs.get("ID")
                refs.add((t.decode() if isinstance(t, bytes) else str(t)).strip("{}").lower())
            cd = node.get("Concatenated Data")
            if isinstance(cd, h5py.Group):
                for nm in ("Attributes", "Attributes Jsons"):
                    if nm in cd:
                        raw = cd[nm][()]
                        txt = raw if isinstance(raw, (str, bytes)) else " ".join(x.decode() if isinstance(x, bytes) else str(x) for x in list(getattr(raw, "ravel", lambda: raw)()))
                        txt = txt.decode() if isinstance(txt, bytes) else str(txt)
                        import re

                        # only the fields that name a TYPE: "Object Type ID": "{…}", "Type ID": "{…}"
                        refs.update(m.lower() for m in re.findall(r'Type ID"\s*:\s*"\{?([0-9a-fA-F]{8}-[0-9a-fA-F]{4}-[0-9a-fA-F]{4}-[0-9a-fA-F]{4}-[0-9a-fA-F]{12})', txt))
    return refs


def run_dh_history(ops, work, tag):
    import os

    im = DhImpl(work, tag)
    steps = []
    dig = [[file_digests(w.geoh5) for w in im.ws]]
    refs = []
    for op in ops:
        try:
            outc, info = im.apply(op)
        except Exception as e:  # noqa: BLE001
            import traceback

            outc, info = f"error:{type(e).__name__}:{str(e)[:160]}", {"tb": traceback.format_exc()[-500:]}
        info = {k: (str(v) if k == "target" and v is not None else v) for k, v in info.items()}
        steps.append({"outcome": outc, "info": info})
        if op["op"] == "reopen" and outc.startswith("error"):
            break  # a workspace that cannot be closed / re-opened ends the history (reported by the oracle)
        dig.append([file_digests(w.geoh5) for w in im.ws])
        refs.append([sorted(_type_refs(w.geoh5)) for w in im.ws])
        if op["op"] == "reopen":
            # just after close + open the file is what a later reader sees: every type a stored entity (or a concatenated
            # attribute record) refers to must exist under Types
            miss = []
            for w in im.ws:
                f = w.geoh5
                proj = f[list(f)[0]]
                have = {u.strip("{}").lower() for tc in proj.get("Types", {}) for u in proj["Types"][tc]}
                miss.append(sorted(_type_refs(f) - have))
            steps[-1]["missing_types"] = miss
    try:
        im.close()
    except Exception:  # noqa: BLE001
        pass
    for p in im.paths:
        os.remove(p)
    return {"dh": True, "steps": steps, "digests": dig, "type_refs": refs}


def _polluted_session(ops):
    """some session (ops between two re-opens, the current one included) holds a look-up miss together with a mutating op"""
    sess = []
    for o in ops + [{"op": "reopen"}]:
        if o["op"] == "reopen":
            if "dh_lookup_miss" in sess and any(x not in ("dh_lookup_miss", "dh_listing", "dh_rm_nonchild") for x in sess):
                return True
            sess = []
        else:
            sess.append(o["op"])
    return False


def oracle_dh(case, obs):
    """C09 on drillhole groups: an operation on a hole / its data changes, in its own file, only the node of the group that
    stores them (+ types it introduces, or stops using); the other workspace's file is untouched; a cross-workspace copy
    leaves the source file untouched; a listing getter may only delete types no stored entity refers to."""
    fails = []
    copied = set()       # groups that were copied to the other workspace
    for i, (op, st) in enumerate(zip(case["ops"], obs["steps"])):
        oc = str(st["outcome"])
        if op["op"] == "dh_copy" and oc == "done":
            copied.add(op["group"])
        if oc.startswith("error"):
            key = "dh-unexpected-exception"
            if "KeyError" in oc and _polluted_session(case["ops"][: i + 1]):
                # (any KeyError: thorough run 4 showed the empty record also derailing a later hole removal with KeyError
                # 'Property:DEPTH(1)'; without the look-up miss the same history runs clean)
                # recorded defect (C04 lookup-miss-appends-empty-record): get_concatenated_attributes(unknown uid) appends an
                # empty record in memory; when the SAME session also changes something, the flush writes the empty record and
                # the next open fails.  A session of look-ups only is not explained by it.
                fails.append({"key": "dh-lookup-miss-appends-empty-record", "what": f"op {i} {op}: {oc[:200]}"})
                break
            if op["op"] == "reopen" and copied and any(o["op"] in ("dh_rm", "hole", "hole_data", "dh_update") for o in case["ops"][:i]):
                # recorded defect: a cross-workspace copy of a drillhole group shares its concatenated attribute records with
                # the source; an edit of the source shows through in the copy, whose file is then written inconsistently
                key = "dh-copy-shares-state-with-source"
            fails.append({"key": key, "what": f"op {i} {op}: {oc[:200]}"})
            break
        if op["op"] == "reopen" and oc == "done":
            miss = st.get("missing_types") or [[], []]
            if miss[0]:
                fails.append({"key": "dh-types-missing-after-close", "what": f"op {i}: file 0 refers to types that are not under Types: {miss[0][:3]}"})
                return fails
            if miss[1] and not any(f["key"] == "dh-copy-target-types-swept" for f in fails):
                # the recorded defect concerns the copy-target file only; it must not hide what happens to the SOURCE file later
                # in the same history (file 0 and file 1 are independent), so the scan goes on
                fails.append({"key": "dh-copy-target-types-swept", "what": f"op {i}: the copy-target file refers to types that are not under Types: {miss[1][:3]}"})
        if op["op"] == "reopen" and oc == "done":
            # "Opening and closing a workspace without any mutation changes nothing": a session that only looked things up
            j = i - 1
            while j >= 0 and case["ops"][j]["op"] == "dh_lookup_miss":
                j -= 1
            if j < i - 1 and (j < 0 or case["ops"][j]["op"] == "reopen") and obs["digests"][j + 1] != obs["digests"][i + 1]:
                ch = [sorted(p for p in set(a) | set(b) if a.get(p) != b.get(p))[:3] for a, b in zip(obs["digests"][j + 1], obs["digests"][i + 1])]
                fails.append({"key": "dh-mutation-free-session-changed-file", "what": f"ops {j + 1}..{i}: only look-ups ran, yet the files differ after close + open: {ch}"})
                return fails
        if oc != "done" or op["op"] == "reopen":
            continue
        info = st["info"]
        w = info.get("ws", 0)
        if info.get("no_mutation"):
            for fi in (0, 1):
                before, after = obs["digests"][i][fi], obs["digests"][i + 1][fi]
                ch = sorted(p for p in set(before) | set(after) if before.get(p) != after.get(p))
                if ch:
                    fails.append({"key": "dh-no-op-changed-file", "what": f"op {i} {op} must not change anything; file {fi} changed: {ch[:4]}"})
                    return fails
            continue
        for fi in (0, 1):
            before, after = obs["digests"][i][fi], obs["digests"][i + 1][fi]
            changed = {p for p in set(before) | set(after) if before.get(p) != after.get(p)}
            if not changed:
                continue
            tgt = "Groups/{%s}" % info["target"] if info.get("target") else None
            allowed = set()
            if fi == w and tgt:
                allowed.add(tgt)
                if info.get("created"):
                    # the new group's node and the link under its parent (the root)
                    allowed |= {p for p in changed if p.startswith("Groups/") and before.get(p, {}).get("content") == after.get(p, {}).get("content")}
            bad = set()
            known_target = False
            for p in changed - allowed:
                if p.startswith("Types/") and fi == w and p not in before:
                    continue  # a type it introduces
                if p.startswith("Types/") and p not in after:
                    continue  # judged at the next close + open (missing_types): concatenated attribute records are flushed at close
                bad.add(p)
            if bad:
                fails.append({"key": "dh-collateral-change" if fi == w else "dh-other-file-changed",
                              "what": f"op {i} {op} (target {tgt}, ws {w}) changed in file {fi}: {sorted(bad)[:4]}"})
                return fails
    return fails
