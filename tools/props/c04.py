"""C04 — Concatenated drillhole storage keeps each hole's data intact and separate (shared/concatenation)."""
from __future__ import annotations

import copy
import json
import os

from vlib.common import cbool, clist, cnat, copt, cz

ID = "C04"
PROPERTIES_V = "theories/Properties/C04.v"
CASE_IMPORTS = "From GV Require Import Prelude.Base Model.Concat Model.ConcatAttrs."
ALLOWED_AXIOMS: list = []
REFUTED = [
    "C04_no_stale_entry_refuted (a renamed data set keeps its row under the old label; after re-open + hole removal the row stays with a dead Object ID)",
    "C04_keys_match_names_refuted (renaming a data set leaves the old 'Property:<name>' key)",
    "C04_remove_never_fails_refuted (removing a renamed data set raises KeyError)",
    "C04_append_stored_refuted (an int32 data set sharing its name with float data is kept as float32 on file: 16777217 -> 16777216)",
]
PARTIAL = [
    "C04_rows_live_partial, C04_records_exact_partial, C04_api_isolation_partial, C04_api_isolation_same_hole_partial, "
    "C04_api_table_view_partial, C04_api_read_your_write_add_partial: proved for every history WITHOUT RENAME (a sufficient side "
    "condition, not a necessary one: the three refutations show that a rename can break each of them); C04_api_read_your_write_set, C04_api_tiled, "
    "C04_records_unique and the index-level theorems hold for all histories",
    "C04_append_stored_partial: what is written to the file denotes the values appended, for |integer|, |float| <= 2^24 (hypothesis)",
]
TRUSTED = [
    "Coq 8.16.1 kernel + vm_compute (correspondence evaluation); no axioms (Print Assumptions: closed)",
    "hand-written models coq/theories/Model/Concat.v (fetch_index, fetch_start_index, delete_index_data, update_array_attribute, "
    "fetch_values) and Model/ConcatAttrs.v (attribute records, Property: keys, object ids, add/update/rename/remove cascades); tied to "
    "the code by running both on the same operation sequences and comparing the raw Index/Data datasets row for row after every step",
    "numpy np.where / np.delete / np.hstack / structured-array semantics, h5py dataset round trip (float32 on small integers is exact), "
    "Drillhole.create / add_data validation outside the driven regime",
    "tools/props/c04.py (generator, driver incl. the uuid -> small number map, canonicalisation, oracle and its ledger)",
    "DrillholesGroupTable.depth_table is checked by the oracle only (the Coq theorem C04_table_view is about the index it reads)",
    "cross-workspace group copies are driven (copy, edit the copy, re-read the source; model: the copy starts from the source's state, "
    "the source stays what it was); copies of single holes and masked copies are not",
    "element types of the in-memory arrays (int32 / float / <Uw text) are modelled separately (Model/ConcatDtype.v: hstack promotion "
    "never changes a value); the tie is the correspondence on text, int32 and half-valued float inputs",
]
ASSUMPTIONS = [
    "values are integers or halves with |v| <= 2^24 (exact as float32; the model's domain, hypothesis of C04_append_stored_partial), never "
    "equal to the no-data values 1.17549435e-38 / -2147483648 (the integer no-data value an IntegerData is padded with reads as no-data), lower-case words for text data, or no-data (NaN / ''); cases with larger values are "
    "oracle-only",
    "one value kind per data name: d0, d1 floats, d2 text, d3 int32 or float as handed in by each hole",
    "depth tables only (no from-to intervals); property groups are addressed by name; depth arrays of different groups of one hole "
    "lie on disjoint integer ranges (so collocation matching only ever matches a group with itself or two empty depth arrays)",
    "data names d<j> and DEPTH/DEPTH(k); at most 2^32 values per label",
]
RULE = (
    "operation sequences (8-30 ops) over 1-5 holes of one DrillholeGroup, format version 2.0 or 2.1: add hole (surveys 1-4 rows or "
    "none), add data to a new or existing depth group (names d0-d3 shared between holes, depth lengths from {0,1,1,2,2,3,5}, about one sample in eight is NaN, "
    "values shorter than the depths are padded, 40 % of the cases hand in float32 arrays), set values / depths / surveys (shorter and longer), rename, remove data / group / hole "
    "through the workspace or the parent, explicit empty group, object-associated data (no depth table), text and int32 values, "
    "re-saving a stored hole, group.remove_children of a non-child, re-open, sessions with a single change, sessions of look-ups that "
    "find nothing; 22 % of the cases continue with group.copy(parent=another workspace) (half of them with an attached comment) and 2-6 "
    "operations on the copy while the source is re-read after each; non-trivial = some deletion shifted a later row"
)
LEVEL_TEXT = (
    "Proved in Coq. Index level, for all sequences of update_array_attribute calls (any labels, holes, lengths incl. 0): the index "
    "rows tile the array exactly, no call can fail, the unsigned start shift never underflows; read-your-write, isolation, removal, "
    "group-wide view. API level (model of add hole / add data / set values, depths, surveys / rename / remove data, group, hole "
    "through workspace or parent / explicit group / re-open): every reachable state has tiled tables and at most one record per id; "
    "a successful update reads back the values written (all histories); and, for every history without rename (a sufficient side condition, "
    "via a 16-clause well-formedness invariant relating index rows, Property keys, records, object ids and group lists): add_data "
    "reads back what was written, any operation on one hole leaves every other hole's data and surveys unchanged, the table of a "
    "data name lists exactly the API values of live holes in order, there is exactly one record per live hole / data set / group and "
    "none else, and no index row is stale. With rename the last four are refuted by witnesses (open findings). Model and code are "
    "tied on every run by replaying generated operation sequences on geoh5py and comparing raw Index/Data datasets, attribute "
    "records, object ids and API read-backs with the model inside Coq."
)
TECHNIQUE = "invariant proof (representation theorem: tiled table = encoding of an association list) + model/code correspondence + ledger oracle"
DRIVE_TIMEOUT = 1500

NDV = 1.17549435e-38
UNKNOWN = 4999  # id given to a uuid the driver never saw created


# ----------------------------------------------------------------------------- labels
def label_id(name):
    if name == "Surveys":
        return 0
    if name == "Trace":
        return 1
    if name == "Property Group IDs":
        return 2
    if name == "DEPTH":
        return 10
    if name.startswith("DEPTH(") and name.endswith(")") and name[6:-1].isdigit() and int(name[6:-1]) < 90:
        return 10 + int(name[6:-1])
    if name.startswith("d") and name[1:].isdigit() and int(name[1:]) < 1000:
        return 100 + int(name[1:])
    return None


def label_name(lab):
    if lab == 0:
        return "Surveys"
    if lab == 1:
        return "Trace"
    if lab == 2:
        return "Property Group IDs"
    if 10 <= lab < 100:
        return "DEPTH" if lab == 10 else f"DEPTH({lab - 10})"
    return f"d{lab - 100}"


# ----------------------------------------------------------------------------- ledger (the specification the oracle and the generator use)
class Ledger:
    """What a user who trusts the documentation expects: which holes / data / groups exist and the values last written."""

    def __init__(self):
        self.holes = {}      # h -> {"surv": list|None, "pgs": [pgid...], "removed": False}
        self.data = {}       # did -> {"h", "name", "orig", "vals", "pg", "depth": bool}
        self.pgs = {}        # pgid -> {"h", "name", "members": [did...]}
        self.dead_holes = set()
        self.renamed = {}    # did -> original label
        self.ws_removed = set()   # holes with a data child removed through the workspace since the last re-open
        self.dropped_pg_names = set()  # names of groups removed since the last re-open
        self.dead_renamed = {}    # removed data that had been renamed: did -> original label

    def clone(self):
        return copy.deepcopy(self)

    # helpers
    def hole_data(self, h):
        return [d for d, x in self.data.items() if x["h"] == h]

    def names(self, h):
        return {self.data[d]["name"] for d in self.hole_data(h)}

    def pg_by_name(self, h, name):
        for p in self.holes[h]["pgs"]:
            if self.pgs[p]["name"] == name:
                return p
        return None

    def depth_of(self, pg):
        m = self.pgs[pg]["members"]
        if m and self.data[m[0]]["depth"]:
            return m[0]
        return None

    def expected_error(self, op):
        """The exception a valid-input reader expects (None = must succeed)."""
        k = op["op"]
        if k == "add_data":
            h = op["h"]
            if 100 + op["name"] in self.names(h):
                return "ValueError"
            pg = self.pg_by_name(h, op["pg"])
            dep = self.depth_of(pg) if pg is not None else None
            if op["depth"] is None:
                if dep is None:
                    return "AttributeError"
                n = len(self.data[dep]["vals"])
            else:
                n = len(op["depth"])
            if len(op["vals"]) > n:
                return "ValueError"
        if k == "add_obj":
            if 100 + op["name"] in self.names(op["h"]):
                return "ValueError"
        if k == "set_values":
            d = self.data[op["d"]]
            if not d["depth"] and d["pg"] is not None:
                dep = self.depth_of(d["pg"])
                if dep is not None and len(op["vals"]) > len(self.data[dep]["vals"]):
                    return "ValueError"
        return None

    def apply(self, op):
        """Effect of a successful operation."""
        k = op["op"]
        if k == "add_hole":
            self.holes[op["h"]] = {"surv": op["surv"], "pgs": []}
        elif k == "set_surveys":
            self.holes[op["h"]]["surv"] = op["surv"]
        elif k == "add_pg":
            h = op["h"]
            if self.pg_by_name(h, op["pg"]) is None:
                self.pgs[op["pgid"]] = {"h": h, "name": op["pg"], "members": []}
                self.holes[h]["pgs"].append(op["pgid"])
        elif k == "add_data":
            h = op["h"]
            pg = self.pg_by_name(h, op["pg"])
            if pg is None:
                pg = op["pgid"]
                self.pgs[pg] = {"h": h, "name": op["pg"], "members": []}
                self.holes[h]["pgs"].append(pg)
            dep = self.depth_of(pg)
            if dep is None:
                dep = op["depid"]
                self.data[dep] = {"h": h, "name": None, "vals": list(op["depth"]), "pg": pg, "depth": True}
                self.pgs[pg]["members"].append(dep)
            n = len(self.data[dep]["vals"])
            vals = list(op["vals"]) + [None] * (n - len(op["vals"]))
            self.data[op["did"]] = {"h": h, "name": 100 + op["name"], "vals": vals, "pg": pg, "depth": False, "kind": op.get("kind", "float")}
            self.pgs[pg]["members"].append(op["did"])
        elif k == "add_obj":
            self.data[op["did"]] = {"h": op["h"], "name": 100 + op["name"], "vals": list(op["vals"]), "pg": None, "depth": False,
                                    "kind": op.get("kind", "float")}
        elif k == "set_values":
            d = self.data[op["d"]]
            vals = list(op["vals"])
            if not d["depth"] and d["pg"] is not None and d.get("kind") != "text":   # text values are stored as given
                dep = self.depth_of(d["pg"])
                if dep is not None:
                    vals += [None] * (len(self.data[dep]["vals"]) - len(vals))
            d["vals"] = vals
        elif k == "rename":
            d = self.data[op["d"]]
            self.renamed.setdefault(op["d"], d["name"])
            d["name"] = 100 + op["new"]
        elif k == "remove_data":
            self._remove_data(op["d"])
            if op["ws"]:
                self.ws_removed.add(op["h"])
        elif k == "remove_pg":
            self._remove_pg(op["pg"])
        elif k == "remove_hole":
            h = op["h"]
            for p in list(self.holes[h]["pgs"]):
                self._remove_pg(p)
            for d in self.hole_data(h):
                if d in self.renamed:
                    self.dead_renamed[d] = self.renamed[d]
                del self.data[d]
            del self.holes[h]
            self.dead_holes.add(h)
        elif k == "push":
            for h, did, vals in op["split"]:
                pg = self.pg_by_name(h, op["pg"])
                self.data[did] = {"h": h, "name": 100 + op["name"], "vals": list(vals), "pg": pg, "depth": False, "kind": "float"}
                self.pgs[pg]["members"].append(did)
        elif k in ("reopen", "reopen_lookups", "reopen_cold"):
            self.ws_removed = set()
            self.dropped_pg_names = set()
        # save_hole, remove_via_group: nothing changes

    def _remove_data(self, did):
        d = self.data.pop(did)
        if did in self.renamed:
            self.dead_renamed[did] = self.renamed[did]
        pg = d["pg"]
        if pg is not None and pg in self.pgs:
            m = self.pgs[pg]["members"]
            if did in m:
                m.remove(did)
            # documented: "The property group is removed if only the depth ... data are left"
            if len(m) == 1 and self.data[m[0]]["depth"]:
                del self.data[m[0]]
                m.clear()
            if not m:
                self._drop_pg(pg)

    def _drop_pg(self, pg):
        h = self.pgs[pg]["h"]
        self.dropped_pg_names.add(self.pgs[pg]["name"])
        del self.pgs[pg]
        if h in self.holes and pg in self.holes[h]["pgs"]:
            self.holes[h]["pgs"].remove(pg)

    def _remove_pg(self, pg):
        for d in list(self.pgs[pg]["members"]):
            if d in self.renamed:
                self.dead_renamed[d] = self.renamed[d]
            self.data.pop(d, None)
        self._drop_pg(pg)


# ----------------------------------------------------------------------------- generation
LENS = [0, 1, 1, 2, 2, 3, 5]


WORDS = ["a", "ab", "abc", "clay", "sand", "shale", "granite", "sandstone", "limestone"]


def kind_of_name(j):
    """data names d0, d1 hold floats, d2 text, d3 integers or floats (whatever the hole that writes hands in)"""
    return {0: "float", 1: "float", 2: "text", 3: "mix"}.get(j % 4, "float")


def _vals(rng, n, base, kind="float"):
    if kind == "text":
        return [None if rng.chance(12) else rng.choice(WORDS) for _ in range(n)]
    if kind == "int":
        return [base + rng.below(40) for _ in range(n)]
    # about one sample in eight is a NaN (no-data) given by the user; some are halves
    return [None if rng.chance(12) else base + rng.below(40) + (0.5 if rng.chance(15) else 0) for _ in range(n)]


def gen_case(rng, nops, version):
    led = Ledger()
    ops = []
    nid = [0]
    state = {"reopen_after": 0, "phase": "main"}

    def fresh():
        nid[0] += 1
        return nid[0]

    def emit(op):
        ops.append(op)
        if led.expected_error(op) is None:
            led.apply(op)
        if state["phase"] == "main" and op["op"] not in ("reopen", "reopen_lookups") and state["reopen_after"]:
            # a session whose only change is this operation
            state["reopen_after"] = 0
            ops.append({"op": "reopen"})
            led.apply({"op": "reopen"})

    def pick_kind(j, n, m):
        k = kind_of_name(j)
        if k == "mix":
            return "int" if (rng.chance(45) and m == n and n > 0) else "float"
        return k

    max_holes = rng.range(1, 5)

    def add_hole():
        h = fresh()
        n = rng.choice([None, 1, 1, 2, 3, 4])
        emit({"op": "add_hole", "h": h, "surv": None if n is None else list(range(n))})

    def one_step(nops):
        """emit at most one operation; returns False when the case must end"""
        holes = sorted(led.holes)
        kind = rng.weighted([("add_data", 26), ("set_values", 22), ("set_depth", 5), ("set_surveys", 6), ("add_hole", 8),
                             ("remove_data", 12), ("remove_pg", 4), ("remove_hole", 5), ("rename", 4), ("reopen", 7),
                             ("add_pg", 2), ("add_obj", 6), ("save_hole", 3), ("remove_via_group", 2), ("reopen_lookups", 2)])
        if state["phase"] == "copy" and kind in ("reopen", "rename", "reopen_lookups", "add_hole"):
            return True
        if kind == "add_hole" or not holes:
            if len(led.holes) < max_holes:
                add_hole()
            return True
        h = rng.choice(holes)
        datas = [d for d in led.hole_data(h) if not led.data[d]["depth"]]
        used = led.names(h) | {led.renamed[d] for d in led.hole_data(h) if d in led.renamed}
        free = [j for j in range(4) if 100 + j not in used]
        if kind == "add_data":
            pgname = rng.below(3)
            pg = led.pg_by_name(h, pgname)
            dep = led.depth_of(pg) if pg is not None else None
            name = rng.choice(free) if free and rng.chance(93) else rng.below(4)
            if dep is None:
                n = rng.choice(LENS)
                m = n if rng.chance(70) else (rng.below(n + 1) if rng.chance(90) else n + 1)
                # the library numbers depth names from the count of depth groups, skipping names in use
                k = sum(1 for p in led.holes[h]["pgs"] if led.depth_of(p) is not None)
                while (10 + k) in led.names(h):
                    k += 1
                dk = pick_kind(name, n, m)
                op = {"op": "add_data", "h": h, "pg": pgname, "name": name, "pgid": fresh(), "depid": fresh(), "did": fresh(),
                      "depth": [1000 * (pgname + 1) + i for i in range(n)], "vals": _vals(rng, m, 0, dk), "kind": dk}
                if rng.chance(4):
                    op["depth"] = None  # no depth and nothing to take it from
                emit(op)
                if op["depid"] in led.data and led.data[op["depid"]]["name"] is None:
                    led.data[op["depid"]]["name"] = 10 + k   # the name the library will pick (generator-side prediction only)
            else:
                n = len(led.data[dep]["vals"])
                m = n if rng.chance(65) else (rng.below(n + 1) if rng.chance(85) else n + 1)
                dk = pick_kind(name, n, m)
                emit({"op": "add_data", "h": h, "pg": pgname, "name": name, "pgid": fresh(), "depid": fresh(), "did": fresh(),
                      "depth": None, "vals": _vals(rng, m, 0, dk), "kind": dk})
        elif kind == "add_obj":
            name = rng.choice(free) if free and rng.chance(93) else rng.below(4)
            n = rng.choice(LENS)
            dk = pick_kind(name, n, n)
            emit({"op": "add_obj", "h": h, "name": name, "did": fresh(), "vals": _vals(rng, n, 20, dk), "kind": dk})
        elif kind == "set_values" and datas:
            d = rng.choice(datas)
            dk = led.data[d].get("kind", "float")
            dep = led.depth_of(led.data[d]["pg"]) if led.data[d]["pg"] in led.pgs else None
            n = len(led.data[dep]["vals"]) if dep is not None else len(led.data[d]["vals"])
            m = n if (rng.chance(60) or dk == "int") else (rng.below(n + 1) if rng.chance(85) else n + 1)
            emit({"op": "set_values", "h": h, "d": d, "vals": _vals(rng, m, 50, dk), "kind": dk})
        elif kind == "set_depth":
            deps = [d for d in led.hole_data(h) if led.data[d]["depth"]]
            if deps:
                d = rng.choice(deps)
                pgname = led.pgs[led.data[d]["pg"]]["name"]
                n = len(led.data[d]["vals"]) + rng.choice([0, 1, 1, 2, 3])   # growing only: see notes/C04.md
                emit({"op": "set_values", "h": h, "d": d, "vals": [1000 * (pgname + 1) + 100 + i for i in range(n)], "kind": "float"})
        elif kind == "set_surveys":
            emit({"op": "set_surveys", "h": h, "surv": list(range(rng.range(1, 5)))})
        elif kind == "save_hole":
            emit({"op": "save_hole", "h": h})
        elif kind == "remove_via_group" and datas:
            emit({"op": "remove_via_group", "h": h, "d": rng.choice(datas)})
        elif kind == "remove_data" and datas:
            emit({"op": "remove_data", "h": h, "d": rng.choice(datas), "ws": rng.chance(30)})
        elif kind == "remove_pg" and led.holes[h]["pgs"]:
            emit({"op": "remove_pg", "h": h, "pg": rng.choice(led.holes[h]["pgs"]), "ws": rng.chance(40)})
        elif kind == "remove_hole" and len(holes) > 1:
            emit({"op": "remove_hole", "h": h, "ws": rng.chance(50)})
        elif kind == "rename" and datas and len(ops) * 10 >= nops * 6:
            # a renamed data set degenerates quickly (known findings): at most three follow-up operations, then the case ends
            d = rng.choice(datas)
            dk = led.data[d].get("kind", "float")
            old = led.data[d]["name"] - 100
            state["reopen_after"] = 0
            fam = lambda k: "text" if k == "text" else "number"   # noqa: E731
            sibs = [led.data[x]["name"] - 100 for x in datas if x != d and led.data[x]["name"] != led.data[d]["name"]
                    and fam(led.data[x].get("kind", "float")) == fam(dk)]
            if sibs and rng.chance(35):
                # the name of another data set of the same hole: two data sets under one label, each with its own row;
                # then new values for the renamed one, and the case ends (its removal would take the sibling's key: rename findings)
                emit({"op": "rename", "h": h, "d": d, "new": rng.choice(sibs)})
                dep0 = led.depth_of(led.data[d]["pg"]) if led.data[d]["pg"] in led.pgs else None
                n = len(led.data[dep0]["vals"]) if dep0 is not None else len(led.data[d]["vals"])
                emit({"op": "set_values", "h": h, "d": d, "vals": _vals(rng, n, 50, dk), "kind": dk})
                return False
            emit({"op": "rename", "h": h, "d": d, "new": 4 + rng.below(4)})
            reopened = False
            for _ in range(rng.range(0, 3)):
                f = rng.weighted([("set", 30), ("reopen", 25), ("remove", 25), ("readd", 20)])
                if f == "set":
                    dep0 = led.depth_of(led.data[d]["pg"]) if led.data[d]["pg"] in led.pgs else None
                    n = len(led.data[dep0]["vals"]) if dep0 is not None else len(led.data[d]["vals"])
                    emit({"op": "set_values", "h": h, "d": d, "vals": _vals(rng, n, 50, dk), "kind": dk})
                elif f == "reopen" and not reopened:
                    reopened = True
                    emit({"op": "reopen"})
                elif f == "remove":
                    emit({"op": "remove_data", "h": h, "d": d, "ws": rng.chance(30)})
                    break
                elif f == "readd" and led.data[d]["pg"] in led.pgs:
                    pgn = led.pgs[led.data[d]["pg"]]["name"]
                    emit({"op": "add_data", "h": h, "pg": pgn, "name": old, "pgid": fresh(), "depid": fresh(), "did": fresh(),
                          "depth": None, "vals": [], "kind": kind_of_name(old) if kind_of_name(old) != "mix" else "float"})
                    break
            return False
        elif kind == "add_pg":
            emit({"op": "add_pg", "h": h, "pg": rng.below(3), "pgid": fresh()})
        elif kind in ("reopen", "reopen_lookups"):
            if kind == "reopen" and rng.chance(30) and not led.renamed and not led.dead_renamed:
                # a cold session: the first thing done after the re-open is the removal of a hole or of a property group whose
                # data were never touched in this session
                hh = rng.choice(holes)
                pgs = led.holes[hh]["pgs"]
                if pgs and rng.chance(50):
                    emit({"op": "reopen_cold"})
                    emit({"op": "remove_pg", "h": hh, "pg": rng.choice(pgs), "ws": rng.chance(50)})
                    emit({"op": "reopen"})
                    return True
                if len(holes) > 1:
                    emit({"op": "reopen_cold"})
                    emit({"op": "remove_hole", "h": hh, "ws": rng.chance(50)})
                    emit({"op": "reopen"})
                    return True
            emit({"op": kind})
            if rng.chance(35):
                state["reopen_after"] = 1
        return True

    add_hole()
    renamed = False
    while len(ops) < nops:
        if not one_step(nops):
            renamed = True
            break
    case = {"version": version, "f32": rng.chance(40)}
    if not renamed and rng.chance(60):
        ops.append({"op": "reopen"})
        led.apply({"op": "reopen"})
    case["ops"] = list(ops)
    if not renamed and led.holes and rng.chance(22):
        # group.copy(parent=another workspace), then operations on the COPY while the source is re-read
        state["phase"] = "copy"
        state["reopen_after"] = 0
        start = len(ops)
        target = start + rng.range(2, 7)
        guard = 0
        while len(ops) < target and guard < 60:
            guard += 1
            one_step(10**6)
        case["copy_ops"] = ops[start:]
        case["comment"] = rng.chance(50)
    return case


def gen_table_case(rng, version):
    """the group-wide table: holes sharing one depth group, columns pushed through DrillholesGroupTable.add_values_to_property_group
    with names sorting before / between / after the existing ones, the table read from the SAME object and from a fresh one"""
    nid = [0]

    def fresh():
        nid[0] += 1
        return nid[0]

    ops, groups = [], {}
    nh = rng.range(1, 4)
    for _ in range(nh):
        h = fresh()
        ops.append({"op": "add_hole", "h": h, "surv": list(range(rng.range(1, 3)))})
        n = rng.range(1, 4)
        names = rng.sample([0, 1, 3], rng.range(1, 3))
        first = True
        for nm in names:
            m = n if rng.chance(70) else rng.range(0, n)
            ops.append({"op": "add_data", "h": h, "pg": 0, "name": nm, "pgid": fresh(), "depid": fresh(), "did": fresh(),
                        "depth": [1000 + i for i in range(n)] if first else None, "vals": _vals(rng, m, 10 * h, "float"), "kind": "float"})
            first = False
        groups[h] = n
    if rng.chance(50):
        ops.append({"op": "reopen"})
    pool = rng.shuffle([8, 9, 12, 13])      # as strings: d12 < d13 < d2 < d3 < d8 < d9, and d0 < d1 < d12
    for j in range(rng.range(1, 3)):
        total = sum(groups.values())
        ops.append({"op": "push", "pg": 0, "name": pool[j], "vals": [500 * (j + 1) + i + (0.5 if rng.chance(20) else 0) for i in range(total)],
                    "ids": {str(h): fresh() for h in groups}})
        if rng.chance(30):
            hh = rng.choice(sorted(groups))
            ops.append({"op": "set_surveys", "h": hh, "surv": list(range(rng.range(1, 4)))})
    ops.append({"op": "reopen"})
    return {"version": version, "f32": rng.chance(40), "ops": ops}


def generate(rng, tier):
    n = 150 if tier == "quick" else 3000
    cases = []
    for i in range(n):
        if i % 9 == 4:
            cases.append(gen_table_case(rng, 2.0 if i % 2 == 0 else 2.1))
        else:
            cases.append(gen_case(rng, rng.range(8, 30), 2.0 if i % 2 == 0 else 2.1))
    return cases


# ----------------------------------------------------------------------------- implementation driver
ERRS = {"ValueError": "ValueError", "AttributeError": "AttributeError", "KeyError": "KeyError", "IndexError": "IndexError"}


def _num(x, api=False):
    """canonical form of one stored value: int, half (k + 0.5), text, None for no-data; anything else is kept as {"float": x}.
    Raw datasets store numeric no-data as FLOAT_NDV and text no-data as ''; through the API no-data must come back as NaN / ''."""
    if isinstance(x, bytes):
        x = x.decode("utf-8", "replace")
    if isinstance(x, str):
        return None if x == "" else x
    x = float(x)
    if x != x or (not api and abs(x - NDV) < 1e-44) or x == -2147483648.0:
        return None      # NaN, the float no-data value on file, the integer no-data value (padding of an IntegerData)
    if abs(x) < 10**9 and (2 * x).is_integer():
        return int(x) if x.is_integer() else x
    return {"float": x}


def _arr_vals(arr, api):
    import numpy as np

    arr = np.asarray(arr)
    if arr.dtype.kind in "OSU":
        return [_num(x, api) for x in arr.tolist()]
    return [_num(x, api) for x in arr.astype(float).tolist()]


class _NoEntity(Exception):
    pass


class _Drv:
    def __init__(self, case, work):
        self.case = case
        self.path = f"{work}/c04.geoh5"
        self.id_of = {}   # uuid str -> number
        self.uid_of = {}  # number -> uuid
        self.ws = None
        self.g = None
        self.guid = None
        self.ftype = "float32" if case.get("f32") else "float64"   # users hand in either; float32 is never promoted by np.hstack
        self.tables = {}

    # ---- id map
    def num(self, u):
        import uuid as _uuid

        if isinstance(u, bytes):
            u = u.decode()
        if isinstance(u, _uuid.UUID):
            u = str(u)
        u = str(u).strip("{}")
        if u == "00000000-0000-0000-0000-000000000000":
            return 0
        return self.id_of.get(u, UNKNOWN)

    def reg(self, entity, n):
        self.id_of[str(entity.uid)] = n
        self.uid_of[n] = entity.uid

    # ---- entity lookup
    def hole(self, h):
        for c in self.g.children:
            if c.uid == self.uid_of.get(h):
                return c
        raise _NoEntity(f"hole {h}")

    def data(self, h, d):
        hole = self.hole(h)
        for c in hole.children:
            if c.uid == self.uid_of.get(d) and not hasattr(c, "properties"):
                return c
        if d in self.uid_of:        # not loaded yet in this session
            c = hole.get_entity(self.uid_of[d])[0]
            if c is not None:
                return c
        raise _NoEntity(f"data {d}")

    def pg(self, h, p):
        for c in self.hole(h).property_groups or []:
            if c.uid == self.uid_of.get(p):
                return c
        raise _NoEntity(f"group {p}")

    def load_all(self):
        from geoh5py.objects import Drillhole

        for hole in self.g.children:
            if isinstance(hole, Drillhole):
                for nm in hole.get_data_list():
                    hole.get_data(nm)
                _ = hole.property_groups

    # ---- snapshots
    def raw_tables(self, h5):
        import numpy as np

        name = list(h5)[0]
        grp = h5[name]["Groups"]["{%s}" % self.guid]
        cd = grp["Concatenated Data"]
        tabs = {}
        if "Index" in cd:
            for lab in cd["Index"]:
                rows = [[int(r[0]), int(r[1]), self.num(r[2]), self.num(r[3])] for r in cd["Index"][lab][:].tolist()]
                ds = cd["Data"].get(lab) if "Data" in cd else None
                if ds is None:
                    ds = cd.get(lab)
                if ds is None:
                    data = None
                else:
                    arr = ds[:]
                    if arr.dtype.names:  # Surveys
                        data = [_num(x) for x in arr["Depth"].tolist()]
                    elif lab == "Property Group IDs":
                        data = [self.num(x) for x in arr.tolist()]
                    else:
                        data = _arr_vals(arr, api=False)
                tabs[lab.replace("⁄", "/")] = {"rows": rows, "data": data}
        objs = [self.num(x) for x in grp["Concatenated object IDs"][:].tolist()] if "Concatenated object IDs" in grp else []
        return tabs, objs, cd

    def raw_attrs(self, cd):
        import numpy as np

        if "Attributes Jsons" in cd:
            return "Attributes Jsons", [json.loads(x) for x in cd["Attributes Jsons"][()]]
        if "Attributes" in cd:
            a = cd["Attributes"][()]
            if isinstance(a, np.ndarray):
                a = a[0]
            return "Attributes", json.loads(a)["Attributes"]
        return None, []

    def recs(self, attrs):
        out = []
        for r in attrs:
            rid = self.num(r.get("ID", "")) if r.get("ID") else UNKNOWN
            if "Properties" in r or "Property Group Type" in r:
                kind = "pg"
            elif "Object Type ID" in r:
                kind = "hole"
            elif "Type ID" in r:
                kind = "data"
            else:
                kind = "?"
            out.append({
                "id": rid, "kind": kind, "name": r.get("Group Name") if kind == "pg" else r.get("Name"),
                "props": [[k[len("Property:"):].replace("⁄", "/"), self.num(v)] for k, v in r.items() if k.startswith("Property:")],
                "members": [self.num(x) for x in r.get("Properties", [])] if kind == "pg" else [],
            })
        return out

    def snapshot(self, tables=True):
        import numpy as np
        from geoh5py.data import Data
        from geoh5py.objects import Drillhole

        g = self.g
        tabs, objs, _ = self.raw_tables(self.ws.geoh5)
        mem = {}
        for lab in g.index:
            rows = [[int(r[0]), int(r[1]), self.num(r[2]), self.num(r[3])] for r in g.index[lab].tolist()]
            arr = np.asarray(g.data[lab]) if lab in g.data else None
            if arr is None:
                data = None
            elif arr.dtype.names:
                data = [_num(x) for x in arr["Depth"].tolist()]
            elif lab == "Property Group IDs":
                data = [self.num(x) for x in arr.tolist()]
            else:
                data = _arr_vals(arr, api=True)
            mem[lab] = {"rows": rows, "data": data}
        vals = []
        live = set(self.num(x) for x in (g.concatenated_object_ids or []))
        for hole in g.children:
            if not isinstance(hole, Drillhole) or self.num(hole.uid) not in live:
                continue
            hn = self.num(hole.uid)
            sv = g.fetch_values(hole, "surveys")
            vals.append(["Surveys", hn, 0, None if sv is None else [_num(x) for x in sv["Depth"].tolist()]])
            for c in hole.children:
                if isinstance(c, Data):
                    v = self.ws.fetch_values(c)
                    vals.append([c.name, hn, self.num(c.uid), None if v is None else _arr_vals(v, api=True)])
        attrs = g.concatenated_attributes["Attributes"] if g.concatenated_attributes else []
        return {
            "tabs": tabs, "mem": mem, "objs": objs, "mem_objs": [self.num(x) for x in (g.concatenated_object_ids or [])],
            "recs": self.recs(attrs), "keys": [self.num(k) for k in (g.attributes_keys or [])], "vals": vals,
            "children": {str(self.num(h.uid)): [self.num(c.uid) for c in h.children] for h in g.children if isinstance(h, Drillhole)},
        }

    def tables_view(self):
        """DrillholesGroupTable.depth_table for every group name, as {name: [[hole, [col values...]], ...]}"""
        out = {}
        try:
            tables = self.g.drillholes_tables
        except Exception as e:  # noqa: BLE001
            return {"error": type(e).__name__ + ": " + str(e)[:120]}
        for name, tab in tables.items():
            try:
                dt = tab.depth_table
                cols = list(dt.dtype.names)
                rows = []
                for r in dt.tolist():
                    # text cells stay text; an integer column shows no-data as the integer no-data value
                    rows.append([self.num(r[0])] + [None if x == -2147483648 else _num(x, api=True) for x in r[1:]])
                out[name] = {"cols": cols, "rows": rows}
            except Exception as e:  # noqa: BLE001
                out[name] = {"error": type(e).__name__ + ": " + str(e)[:120]}
        return out

    # ---- operations
    def assign_new(self, h, op):
        """give numbers to entities created under hole h by this operation"""
        hole = self.hole(h)
        for c in list(hole.children) + list(hole.property_groups or []):
            if str(c.uid) in self.id_of:
                continue
            if hasattr(c, "properties"):
                self.reg(c, op.get("pgid", UNKNOWN))
            elif c.name.startswith("DEPTH"):
                self.reg(c, op.get("depid", UNKNOWN))
            else:
                self.reg(c, op.get("did", UNKNOWN))

    def spec(self, op):
        """the array a user hands in: float64 / float32 with NaN, int32, or text"""
        import numpy as np

        kind = op.get("kind", "float")
        if kind == "text":
            return {"values": np.array(["" if v is None else v for v in op["vals"]], dtype=str), "type": "TEXT"}
        if kind == "int":
            return {"values": np.array(op["vals"], dtype=np.int32)}
        return {"values": np.array([np.nan if v is None else float(v) for v in op["vals"]], dtype=self.ftype)}

    def run_op(self, op):
        import numpy as np
        from geoh5py.objects import Drillhole

        k = op["op"]
        ws, g = self.ws, self.g
        if k == "add_hole":
            kw = {"parent": g, "name": f"h{op['h']}", "collar": np.r_[float(op["h"]), 0.0, 0.0]}
            if op["surv"] is not None:
                n = len(op["surv"])
                kw["surveys"] = np.c_[np.array(op["surv"], dtype=float), np.zeros(n), np.zeros(n) - 90.0]
            hole = Drillhole.create(ws, **kw)
            self.reg(hole, op["h"])
        elif k == "set_surveys":
            n = len(op["surv"])
            self.hole(op["h"]).surveys = np.c_[np.array(op["surv"], dtype=float), np.zeros(n), np.zeros(n) - 90.0]
        elif k == "add_pg":
            try:
                self.hole(op["h"]).find_or_create_property_group(name=f"pg{op['pg']}", property_group_type="Depth table", association="DEPTH")
            finally:
                self.assign_new(op["h"], op)
        elif k == "add_data":
            spec = self.spec(op)
            if op["depth"] is not None:
                spec["depth"] = np.array(op["depth"], dtype=float)
            try:
                self.hole(op["h"]).add_data({f"d{op['name']}": spec}, property_group=f"pg{op['pg']}")
            finally:
                self.assign_new(op["h"], op)
        elif k == "add_obj":
            spec = self.spec(op)
            spec["association"] = "OBJECT"
            try:
                self.hole(op["h"]).add_data({f"d{op['name']}": spec})
            finally:
                self.assign_new(op["h"], op)
        elif k == "lookup":
            import uuid as _uuid

            g.get_concatenated_attributes(_uuid.uuid4())
        elif k == "save_hole":
            ws.save_entity(self.hole(op["h"]))
        elif k == "remove_via_group":
            g.remove_children(self.data(op["h"], op["d"]))
        elif k == "set_values":
            self.data(op["h"], op["d"]).values = self.spec(op)["values"]
        elif k == "rename":
            self.data(op["h"], op["d"]).name = f"d{op['new']}"
        elif k == "remove_data":
            d = self.data(op["h"], op["d"])
            if op["ws"]:
                ws.remove_entity(d)
            else:
                self.hole(op["h"]).remove_children(d)
        elif k == "remove_pg":
            p = self.pg(op["h"], op["pg"])
            if op["ws"]:
                ws.remove_entity(p)
            else:
                self.hole(op["h"]).remove_children(p)
        elif k == "remove_hole":
            hole = self.hole(op["h"])
            if op["ws"]:
                ws.remove_entity(hole)
            else:
                g.remove_children(hole)
        else:
            raise ValueError(k)

    def table_rows(self, dt):
        return {"cols": list(dt.dtype.names),
                "rows": [[self.num(r[0])] + [None if x == -2147483648 else _num(x, api=True) for x in r[1:]] for r in dt.tolist()]}

    def push(self, op, step):
        """DrillholesGroupTable.add_values_to_property_group on a kept table object, then the table read from the same object"""
        import numpy as np

        name = f"pg{op['pg']}"
        tab = self.tables.get(name)
        if tab is None:
            tab = self.g.drillholes_tables[name]
            self.tables[name] = tab
        before = {h: set(c.uid for c in hole.children) for h, hole in ((h, self.hole(int(h))) for h in op["ids"])}
        tab.add_values_to_property_group(f"d{op['name']}", np.array([float(v) for v in op["vals"]], dtype=self.ftype))
        for h, did in op["ids"].items():
            for c in self.hole(int(h)).children:
                if c.uid not in before[h] and str(c.uid) not in self.id_of:
                    self.reg(c, did)
        same = {}
        try:
            same["table"] = self.table_rows(tab.depth_table)
            props = tuple(tab.properties)
            same["by_name"] = self.table_rows(tab.depth_table_by_name(props, spatial_index=True))
        except Exception as e:  # noqa: BLE001
            same["error"] = type(e).__name__ + ": " + str(e)[:160]
        step["same"] = {name: same}

    def reopen(self, step, lookups=False, cold=False):
        import uuid as _uuid
        import h5py
        from geoh5py import Workspace
        from geoh5py.objects import Drillhole

        self.ws.close()
        if lookups:
            # a session without any change: only look-ups that find nothing
            self.ws = Workspace(self.path, mode="r+")
            self.g = self.ws.get_entity("G")[0]
            self.g.get_concatenated_attributes(_uuid.uuid4())
            self.ws.get_entity(_uuid.uuid4())
            for hole in self.g.children:
                if isinstance(hole, Drillhole):
                    hole.get_data("no such data")
                    break
            self.ws.close()
        with h5py.File(self.path, "r") as f:
            tabs, objs, cd = self.raw_tables(f)
            enc, attrs = self.raw_attrs(cd)
            step["closed"] = {"tabs": tabs, "objs": objs, "recs": self.recs(attrs), "encoding": enc}
        self.ws = Workspace(self.path, mode="r+")
        self.g = self.ws.get_entity("G")[0]
        self.tables = {}
        if cold:
            step["snap"] = self.snapshot()      # nothing of the holes is touched: children and values stay unloaded
            return
        self.load_all()
        step["snap"] = self.snapshot()
        step["view"] = self.tables_view()

    def do_ops(self, ops, extra=None):
        """run the operations; returns the list of steps (the last one may be a hard error)"""
        steps = []
        for op in ops:
            step = {}
            if op["op"] in ("reopen", "reopen_lookups", "reopen_cold"):
                try:
                    self.reopen(step, lookups=op["op"] == "reopen_lookups", cold=op["op"] == "reopen_cold")
                except Exception as e:  # noqa: BLE001
                    step["hard"] = type(e).__name__
                    step["msg"] = str(e)[:200]
                    steps.append(step)
                    break
                steps.append(step)
                continue
            try:
                if op["op"] == "push":
                    self.push(op, step)
                else:
                    self.run_op(op)
            except _NoEntity as e:
                step["hard"] = "NoEntity"
                step["msg"] = str(e)[:200]
                steps.append(step)
                break
            except Exception as e:  # noqa: BLE001
                name = type(e).__name__
                step["msg"] = str(e)[:200]
                soft = (op["op"] in ("add_data", "add_obj", "set_values") and name in ("ValueError", "AttributeError"))
                if not soft:
                    step["hard"] = name
                    try:
                        step["snap"] = self.snapshot()
                    except Exception as e2:  # noqa: BLE001
                        step["snap_error"] = type(e2).__name__
                    steps.append(step)
                    break
                step["soft"] = name
            step["snap"] = self.snapshot()
            if op["op"] == "push":
                step["view"] = self.tables_view()       # fresh table objects
            if extra is not None:
                extra(step)
            steps.append(step)
        return steps

    def run(self):
        from geoh5py import Workspace
        from geoh5py.groups import DrillholeGroup

        path2 = self.path.replace(".geoh5", "_copy.geoh5")
        for p in (self.path, path2):
            if os.path.exists(p):
                os.remove(p)
        out = {}
        ws2 = None
        self.ws = Workspace.create(self.path, version=self.case["version"])
        try:
            self.g = DrillholeGroup.create(self.ws, name="G")
            self.guid = str(self.g.uid)
            steps = self.do_ops(self.case["ops"])
            out["steps"] = steps
            crashed = bool(steps and "hard" in steps[-1])
            out["final"] = {} if crashed else {"view": self.tables_view()}
            if not crashed and self.case.get("copy_ops") is not None:
                src = (self.ws, self.g, self.guid)

                def src_snap():
                    cur = (self.ws, self.g, self.guid)
                    self.ws, self.g, self.guid = src
                    try:
                        return self.snapshot()
                    finally:
                        self.ws, self.g, self.guid = cur

                cp = {}
                out["copy"] = cp
                try:
                    if self.case.get("comment"):
                        self.g.add_comment("kept with the group")
                    ws2 = Workspace.create(path2, version=self.case["version"])
                    g2 = self.g.copy(parent=ws2)
                    self.ws, self.g, self.guid = ws2, g2, str(g2.uid)
                    self.load_all()
                    cp["start"] = {"snap": self.snapshot(), "src": src_snap()}
                    cp["steps"] = self.do_ops(self.case["copy_ops"], extra=lambda st: st.__setitem__("src", src_snap()))
                    if not (cp["steps"] and "hard" in cp["steps"][-1]):
                        cp["view"] = self.tables_view()
                except Exception as e:  # noqa: BLE001
                    cp["error"] = type(e).__name__ + ": " + str(e)[:200]
                finally:
                    self.ws, self.g, self.guid = src
        finally:
            for w in (ws2, self.ws):
                try:
                    if w is not None:
                        w.close()
                except Exception:  # noqa: BLE001
                    pass
        for p in (self.path, path2):
            if os.path.exists(p):
                os.remove(p)
        return out


def drive_one(case, work):
    os.makedirs(work, exist_ok=True)
    return _Drv(case, work).run()


# ----------------------------------------------------------------------------- Coq case terms
def push_split(op, prev_snap, led_names):
    """add_values_to_property_group hands hole by hole (in the order of the depth rows) the slice of `values` that lies at the
    hole's depth rows; returns [(hole, data id, values)]"""
    assoc = led_names
    rows = sorted(prev_snap["tabs"].get(assoc, {"rows": []})["rows"], key=lambda r: r[0])
    out = []
    for r in rows:
        h = r[2]
        if str(h) in op["ids"]:
            out.append([h, op["ids"][str(h)], op["vals"][r[0]: r[0] + r[1]]])
    return out


def _zenc(v):
    """values as integers for the Coq terms: numbers doubled (halves are exact), text as a base-27 number above 10^6"""
    if isinstance(v, str):
        n = 0
        for ch in v:
            if not ("a" <= ch <= "z"):
                raise _Inexpressible("text outside a-z")
            n = n * 27 + (ord(ch) - 96)
        return 1_000_000 + n
    if isinstance(v, dict):
        raise _Inexpressible("non-dyadic value")
    return int(round(2 * v))


def _val(v):
    return "None" if v is None else "(Some %s)" % cz(_zenc(v))


def _vlist(vs):
    return clist(_val(v) for v in vs)


def _op_term(op):
    k = op["op"]
    if k == "add_hole":
        return "AddHole %s %s" % (cnat(op["h"]), "None" if op["surv"] is None else "(Some %s)" % _vlist(op["surv"]))
    if k == "set_surveys":
        return "SetSurveys %s %s" % (cnat(op["h"]), _vlist(op["surv"]))
    if k == "add_pg":
        return "AddPG %s %s %s" % (cnat(op["h"]), cnat(op["pg"]), cnat(op["pgid"]))
    if k == "add_data":
        return "AddData %s %s %s %s %s %s %s %s" % (
            cnat(op["h"]), cnat(op["pg"]), cnat(100 + op["name"]), cnat(op["pgid"]), cnat(op["depid"]), cnat(op["did"]),
            "None" if op["depth"] is None else "(Some %s)" % _vlist(op["depth"]), _vlist(op["vals"]))
    if k == "add_obj":
        return "AddObjData %s %s %s %s" % (cnat(op["h"]), cnat(100 + op["name"]), cnat(op["did"]), _vlist(op["vals"]))
    if k == "save_hole":
        return "SaveHole %s" % cnat(op["h"])
    if k == "remove_via_group":
        return "RemoveViaGroup %s %s" % (cnat(op["h"]), cnat(op["d"]))
    if k == "set_values":
        return "%s %s %s %s" % ("SetText" if op.get("kind") == "text" else "SetValues", cnat(op["h"]), cnat(op["d"]), _vlist(op["vals"]))
    if k == "rename":
        return "Rename %s %s %s" % (cnat(op["h"]), cnat(op["d"]), cnat(100 + op["new"]))
    if k == "remove_data":
        return "RemoveData %s %s %s" % (cnat(op["h"]), cnat(op["d"]), cbool(op["ws"]))
    if k == "remove_pg":
        return "RemovePG %s %s %s" % (cnat(op["h"]), cnat(op["pg"]), cbool(op["ws"]))
    if k == "remove_hole":
        return "RemoveHole %s %s" % (cnat(op["h"]), cbool(op["ws"]))
    if k in ("reopen", "reopen_lookups", "reopen_cold"):
        return "Reopen"     # a session of look-ups that find nothing changes nothing; a cold session starts from the same state
    raise _Inexpressible("operation " + k)


class _Inexpressible(Exception):
    pass


def _table_term(lab, t):
    if t["data"] is None:
        raise _Inexpressible(f"label {lab} without data")
    if any(not (0 <= x < 5000) for r in t["rows"] for x in r) or len(t["data"]) >= 5000:
        raise _Inexpressible("number too large (wrapped start index?)")
    rows = clist("mkrow %s %s %s %s" % (cnat(r[0]), cnat(r[1]), cnat(r[2]), cnat(r[3])) for r in t["rows"])
    if lab == "Property Group IDs":     # identifiers, as the model writes them (ids_val)
        return "mktab %s %s" % (rows, clist("(Some %s)" % cz(v) for v in t["data"]))
    return "mktab %s %s" % (rows, _vlist(t["data"]))


def _rec_term(r):
    if r["kind"] == "hole":
        nm = r["name"]
        if not (isinstance(nm, str) and nm.startswith("h") and nm[1:].isdigit()):
            raise _Inexpressible("hole name")
        name, kind = int(nm[1:]), "KHole"
    elif r["kind"] == "data":
        name, kind = label_id(r["name"] or ""), "KData"
        if name is None:
            raise _Inexpressible("data name")
    elif r["kind"] == "pg":
        nm = r["name"]
        if not (isinstance(nm, str) and nm.startswith("pg") and nm[2:].isdigit()):
            raise _Inexpressible("group name")
        name, kind = int(nm[2:]), "KPG"
    else:
        raise _Inexpressible("record kind")
    props = []
    for k, v in r["props"]:
        lid = label_id(k)
        if lid is None:
            raise _Inexpressible("property key")
        props.append("(%s, %s)" % (cnat(lid), cnat(v)))
    return "mkrec %s %s %s %s %s" % (cnat(r["id"]), kind, cnat(name), clist(props), clist(cnat(m) for m in r["members"]))


def _snap_term(sn):
    tabs = []
    for lab, t in sorted(sn["tabs"].items()):
        lid = label_id(lab)
        if lid is None:
            raise _Inexpressible("label " + lab)
        tabs.append("(%s, %s)" % (cnat(lid), _table_term(lab, t)))
    vals = []
    for lab, h, d, v in sn["vals"]:
        lid = label_id(lab)
        if lid is None:
            raise _Inexpressible("label " + lab)
        vals.append("(%s, %s, %s, %s)" % (cnat(lid), cnat(h), cnat(d), "None" if v is None else "(Some %s)" % _vlist(v)))
    return "mksnap %s %s %s %s" % (clist(tabs), clist(_rec_term(r) for r in sn["recs"]), clist(cnat(o) for o in sn["objs"]), clist(vals))


def _obs_terms(steps):
    evs = []
    for stp in steps:
        if "hard" in stp:
            e = ERRS.get(stp["hard"])
            if e is None:
                raise _Inexpressible("exception " + stp["hard"])
            evs.append("OHard %s" % e)
        else:
            soft = "None" if "soft" not in stp else "(Some %s)" % ERRS[stp["soft"]]
            evs.append("OSnap %s (%s)" % (soft, _snap_term(stp["snap"])))
    return evs


def _op_terms(ops, steps):
    """Coq terms of the operations; a column push is the sequence of add_data calls the table makes, hole by hole"""
    out = []
    for i, op in enumerate(ops[: len(steps)]):
        if op["op"] != "push":
            out.append(_op_term(op))
            continue
        if i == 0 or "snap" not in steps[i - 1]:
            raise _Inexpressible("push without a previous snapshot")
        for h, did, vals in push_split(op, steps[i - 1]["snap"], "DEPTH"):
            out.append(_op_term({"op": "add_data", "h": h, "pg": op["pg"], "name": op["name"], "pgid": 4990, "depid": 4991, "did": did,
                                 "depth": None, "vals": vals}))
    return out


def _complete(ops, steps):
    return len(steps) == len(ops) or (steps and "hard" in steps[-1])


def case_term(case, obs):
    if "steps" not in obs:
        return "false"
    if any(o["op"] == "lookup" for o in case["ops"]):
        return None     # a look-up miss inside a changing session (recorded finding): oracle only
    if any(isinstance(v, (int, float)) and abs(v) > 2 ** 24 for o in case["ops"] + (case.get("copy_ops") or []) for v in (o.get("vals") or [])):
        return None     # outside the domain of the model (float32 storage is exact up to 2^24): oracle only
    try:
        if not _complete(case["ops"], obs["steps"]):
            return "false"
        evs = _obs_terms(obs["steps"])
        if any(o["op"] == "push" for o in case["ops"]):
            # the per-hole add_data calls of one push are observed together: only the last one has a snapshot
            return _push_case_term(case, obs)
        ops = clist(_op_term(o) for o in case["ops"][: len(obs["steps"])])
        if case.get("copy_ops") is None or "copy" not in obs:
            return "agree %s %s" % (ops, clist(evs))
        cp = obs["copy"]
        if "error" in cp or not _complete(case["copy_ops"], cp["steps"]):
            return "false"
        cevs = _obs_terms(cp["steps"])
        cops = clist(_op_term(o) for o in case["copy_ops"][: len(cp["steps"])])
        ssnaps = [cp["start"]["snap"], cp["start"]["src"]] + [st["src"] for st in cp["steps"] if "src" in st]
        return "agree_copy %s %s %s %s %s" % (ops, clist(evs), cops, clist(cevs), clist("(%s)" % _snap_term(x) for x in ssnaps))
    except _Inexpressible:
        return "false"


def _push_case_term(case, obs):
    """cases with column pushes: one observed step per push, several model steps; compare at the observed steps only"""
    steps = obs["steps"]
    segs = []
    for i, op in enumerate(case["ops"][: len(steps)]):
        stp = steps[i]
        if "hard" in stp or "soft" in stp:
            return "false"
        if op["op"] == "push":
            if i == 0:
                return "false"
            terms = [_op_term({"op": "add_data", "h": h, "pg": op["pg"], "name": op["name"], "pgid": 4990, "depid": 4991, "did": did,
                               "depth": None, "vals": vals}) for h, did, vals in push_split(op, steps[i - 1]["snap"], "DEPTH")]
        else:
            terms = [_op_term(op)]
        segs.append("(%s, %s)" % (clist(terms), _snap_term(stp["snap"])))
    return "agree_segments %s" % clist(segs)


def model_term(case):
    try:
        return "arun init %s" % clist(_op_term(o) for o in case["ops"] + (case.get("copy_ops") or []))
    except _Inexpressible:
        return None


# ----------------------------------------------------------------------------- oracle (property text + ledger; independent of the model)
def _tiling_failures(lab, t):
    fails = []
    rows = t["rows"]
    if t["data"] is None:
        return [{"key": "index-without-data", "what": f"label {lab!r} has an Index dataset but no Data"}]
    order = sorted(range(len(rows)), key=lambda i: (rows[i][0], rows[i][1]))
    pos = 0
    for i in order:
        s, n = rows[i][0], rows[i][1]
        if s > pos:
            fails.append({"key": "tiling-gap", "what": f"label {lab!r}: values {pos}..{s - 1} belong to no index row ({rows})"})
            break
        if s < pos:
            fails.append({"key": "tiling-overlap", "what": f"label {lab!r}: row {rows[i]} starts inside the previous slice ({rows})"})
            break
        pos = s + n
    else:
        if pos != len(t["data"]):
            fails.append({"key": "tiling-cover", "what": f"label {lab!r}: rows cover {pos} values, array has {len(t['data'])}"})
    lid = label_id(lab)
    col = 2 if (lid is not None and lid < 10) else 3
    keys = [r[col] for r in rows]
    if len(set(keys)) != len(keys):
        fails.append({"key": "tiling-duplicate-key", "what": f"label {lab!r}: duplicate {'Object' if col == 2 else 'Data'} ID in {rows}"})
    return fails


def _only_big(a, b):
    """a and b (nested lists / dicts of values) differ only where the number on one side is beyond 2^24 (float32 storage)"""
    if isinstance(a, dict) and isinstance(b, dict):
        return a.keys() == b.keys() and all(_only_big(a[k], b[k]) for k in a)
    if isinstance(a, list) and isinstance(b, list):
        return len(a) == len(b) and all(_only_big(x, y) for x, y in zip(a, b))
    if a == b:
        return True
    return any(isinstance(x, (int, float)) and not isinstance(x, bool) and abs(x) > 2 ** 24 for x in (a, b))


def _check_snapshot(led, sn, where, fails, readback=True):
    def add(key, what):
        fails.append({"key": key, "what": f"{where}: {what}"})

    # A. raw tiling
    for lab, t in sn["tabs"].items():
        for f in _tiling_failures(lab, t):
            add(f["key"], f["what"])
    # file and memory agree
    if "mem" in sn and sn["mem"] != sn["tabs"] and _only_big(sn["mem"], sn["tabs"]):
        add("int-values-altered-in-float-label", f"the file holds float32 roundings of values beyond 2^24: {sn['tabs']} vs memory {sn['mem']}")
    elif "mem" in sn and sn["mem"] != sn["tabs"]:
        add("file-differs-from-memory", f"raw datasets {sn['tabs']} differ from Concatenator.index/data {sn['mem']}")
    # B. stale rows
    for lab, t in sn["tabs"].items():
        lid = label_id(lab)
        for r in t["rows"]:
            s, n, o, d = r
            if d in led.dead_renamed and led.dead_renamed[d] == lid:
                add("rename-leaves-old-label-row", f"label {lab!r} row {r}: data {d} was renamed, then removed")
                continue
            if o in led.dead_holes:
                if lid == 0:
                    add("hole-removal-leaves-surveys-rows", f"Surveys row {r} of removed hole {o}")
                elif lid == 2 and n == 0:
                    add("hole-removal-leaves-zero-size-pg-row", f"Property Group IDs row {r} of removed hole {o}")
                else:
                    add("stale-row-of-removed-hole", f"label {lab!r} row {r} of removed hole {o}")
                continue
            if o not in led.holes:
                add("row-of-unknown-hole", f"label {lab!r} row {r}")
                continue
            if lid is not None and lid < 10:
                continue
            if d in led.dead_renamed and led.dead_renamed[d] == lid:
                add("rename-leaves-old-label-row", f"label {lab!r} row {r}: data {d} was renamed, then removed")
            elif d not in led.data or led.data[d]["h"] != o:
                add("stale-data-row", f"label {lab!r} row {r}: data {d} is not a live data set of hole {o}")
            elif led.data[d]["name"] != lid:
                if led.renamed.get(d) == lid:
                    add("rename-leaves-old-label-row", f"label {lab!r} row {r}: data {d} is now named {label_name(led.data[d]['name'])!r}")
                else:
                    add("row-under-wrong-label", f"label {lab!r} row {r}: data {d} is named {label_name(led.data[d]['name'])!r}")
    # every live data / survey has its row
    # C. read-back through the API
    got = {(h, d): (lab, v) for lab, h, d, v in sn["vals"]}
    for h, x in (led.holes.items() if readback else []):
        lab_v = got.get((h, 0))
        if x["surv"] is not None:
            if lab_v is None or lab_v[1] != x["surv"]:
                add("surveys-read-back", f"hole {h}: surveys depths {None if lab_v is None else lab_v[1]} != last written {x['surv']}")
    for d, x in (led.data.items() if readback else []):
        lab_v = got.get((x["h"], d))
        if lab_v is None:
            add("data-not-listed", f"data {d} of hole {x['h']} is not among the hole's children")
            continue
        lab, v = lab_v
        if v != x["vals"]:
            big = (v is not None and len(v) == len(x["vals"]) and x.get("kind") == "int"
                   and any(led.data[o]["name"] == x["name"] and led.data[o].get("kind") == "float" for o in led.data if o != d)
                   and all(a == b or (isinstance(b, (int, float)) and abs(b) > 2 ** 24) for a, b in zip(v, x["vals"])))
            if big:
                add("int-values-altered-in-float-label", f"data {d} ({lab!r}, int32) of hole {x['h']} reads {v}, last written {x['vals']}: "
                    "the label is shared with float data and kept as float32 on file")
            elif d in led.renamed and v is None:
                add("rename-loses-values", f"data {d} (renamed from {label_name(led.renamed[d])!r} to {lab!r}) reads None, last written {x['vals']}")
            else:
                add("read-back", f"data {d} ({lab!r}) of hole {x['h']} reads {v}, last written {x['vals']}")
    # D. attribute records
    for recs, tag in ((sn["recs"], "attributes"),):
        ids = [r["id"] for r in recs]
        want = sorted(list(led.holes) + list(led.data) + list(led.pgs))
        if sorted(ids) != want and getattr(led, "lookup_miss", False) and sorted(i for i in ids if i != UNKNOWN) == want:
            add("lookup-miss-appends-empty-record", f"{tag}: an empty record was appended by a look-up that found nothing: {ids}")
        elif sorted(ids) != want:
            extra = sorted(set(ids) - set(want))
            missing = sorted(set(want) - set(ids))
            dup = sorted({i for i in ids if ids.count(i) > 1})
            add("attribute-records", f"{tag}: records {sorted(ids)} != live entities {want} (extra {extra}, missing {missing}, duplicate {dup})")
        for r in recs:
            if r["kind"] == "hole" and r["id"] in led.holes:
                wantk = sorted((label_name(led.data[d]["name"]), d) for d in led.hole_data(r["id"]))
                gotk = sorted((k, v) for k, v in r["props"])
                if gotk != wantk:
                    ren = {d for d in led.hole_data(r["id"]) if d in led.renamed}
                    stale = [kv for kv in gotk if kv not in wantk]
                    ren |= set(led.dead_renamed)
                    if ren and all(v in ren for _, v in stale) and all(d in ren for _, d in wantk if (_, d) not in gotk):
                        add("rename-leaves-old-property-key", f"{tag}: hole {r['id']} keys {gotk} != {wantk}")
                    else:
                        add("property-keys", f"{tag}: hole {r['id']} keys {gotk} != {wantk}")
            if r["kind"] == "pg" and r["id"] in led.pgs:
                if r["members"] != led.pgs[r["id"]]["members"]:
                    add("group-properties", f"{tag}: group {r['id']} lists {r['members']}, expected {led.pgs[r['id']]['members']}")
    # E. object ids
    if sorted(sn["objs"]) != sorted(led.holes) or len(set(sn["objs"])) != len(sn["objs"]):
        add("object-ids", f"Concatenated object IDs {sn['objs']} != live holes {sorted(led.holes)}")


def _check_view(led, view, sn, where, fails, stats=None, only=None):
    """Specification: the table of group name P lists, hole after hole (in the order of the depth rows), the depths of the
    hole's group P and, for every data name occurring in a group P, the hole's values (no-data where the hole lacks it)."""
    if not isinstance(view, dict):
        return
    if "error" in view:
        fails.append({"key": "table-view-raises", "what": f"{where}: drillholes_tables raised {view['error']}"})
        return
    # states in which depth_table is known to give up (one recorded finding): an empty group, an empty depth array, a renamed
    # member, a group removed since the last re-open, a depth array resized without rewriting the other members
    degenerate = []
    if any(led.depth_of(p) is None for p in led.pgs):
        degenerate.append("empty group")
    if any(r[1] == 0 for lab, t in sn["tabs"].items() if (label_id(lab) or 0) in range(10, 100) for r in t["rows"]):
        degenerate.append("empty depth array")
    if led.renamed or led.dead_renamed:
        degenerate.append("renamed data")
    if led.dropped_pg_names:
        degenerate.append("group removed since re-open")
    if any(len(led.data[d]["vals"]) != len(led.data[led.depth_of(p)]["vals"]) for p in led.pgs if led.depth_of(p) is not None
           for d in led.pgs[p]["members"]):
        degenerate.append("resized depth")
    for pname in sorted({x["name"] for x in led.pgs.values()}):
        if only is not None and f"pg{pname}" != only:
            continue
        full = [p for p in led.pgs if led.pgs[p]["name"] == pname and led.depth_of(p) is not None]
        tab = view.get(f"pg{pname}")
        if tab is None:
            if not degenerate:
                fails.append({"key": "table-view-missing", "what": f"{where}: no table for group name pg{pname}"})
            continue
        labels = {led.data[led.depth_of(p)]["name"] for p in full}
        holes_p = {led.pgs[p]["h"]: p for p in full}
        all_names = {led.data[d]["name"] for p in full for d in led.pgs[p]["members"]}
        # the implementation finds a hole's column by data name + Object ID: a data set of that name in ANOTHER group of the hole
        # (or a depth name shared with another group) is picked up
        by_name_clash = (len(labels) > 1
                         or any(x["name"] in all_names and x["pg"] != holes_p.get(x["h"]) for x in led.data.values()))
        if "error" in tab:
            typ = tab["error"].split(":")[0]
            key = ("table-view-raises-in-degenerate-state" if degenerate
                   else "table-view-looks-up-by-name-not-by-group" if by_name_clash else "table-view-raises:" + typ)
            fails.append({"key": key, "what": f"{where}: depth_table of pg{pname} raised {tab['error']} (state: {degenerate})"})
            continue
        if degenerate:
            continue
        cols = tab["cols"][1:]
        assoc = cols[0] if cols else None
        listed = [r[2] for r in sorted(sn["tabs"].get(assoc, {"rows": []})["rows"], key=lambda r: r[0])] if assoc else []
        names = sorted({label_name(led.data[d]["name"]) for p in full for d in led.pgs[p]["members"]} - {assoc})
        mixed = by_name_clash or {label_name(x) for x in labels} != {assoc} or any(h not in holes_p for h in listed)
        exp = []
        for h in listed:
            if h not in holes_p:
                continue
            p = holes_p[h]
            by_name = {label_name(led.data[d]["name"]): led.data[d]["vals"] for d in led.pgs[p]["members"]}
            for i in range(len(by_name.get(assoc, []))):
                # in the order in which THIS table lists its columns: each column name must come with that data set's values
                exp.append([h] + [(by_name[c][i] if c in by_name else None) for c in (cols if sorted(cols[1:]) == names else [assoc] + names)])
        if sorted(cols[1:]) == names and cols[:1] == [assoc]:
            cols = [assoc] + names          # same columns, another order
        if stats is not None:
            stats["tables_compared"] = stats.get("tables_compared", 0) + 1
            if cols == [assoc] + names and tab["rows"] == exp:
                stats["tables_equal"] = stats.get("tables_equal", 0) + 1
                stats["table_rows"] = stats.get("table_rows", 0) + len(exp)
        if cols != [assoc] + names or tab["rows"] != exp:
            key = ("table-view-looks-up-by-name-not-by-group" if mixed
                   else "int-values-altered-in-float-label" if cols == [assoc] + names and _only_big(tab["rows"], exp) else "table-view")
            fails.append({"key": key, "what": f"{where}: depth_table pg{pname} columns {cols} rows {tab['rows']}; the holes' groups pg{pname} give columns {[assoc] + names} rows {exp}"})


def _walk(case, led, ops, steps, prefix, fails, stats, src_led=None):
    """follow the operations with the ledger and check every snapshot; returns False when the run stopped early"""
    for i, op in enumerate(ops):
        if i >= len(steps):
            return False
        stp = steps[i]
        where = f"{prefix}step {i} {op['op']}"
        if op["op"] == "push" and "hard" not in stp:
            pgs = [p for p in led.pgs if led.pgs[p]["name"] == op["pg"] and led.depth_of(p) is not None]
            assoc = label_name(led.data[led.depth_of(pgs[0])]["name"]) if pgs else "DEPTH"
            op = dict(op, split=push_split(op, steps[i - 1]["snap"], assoc) if i > 0 and "snap" in steps[i - 1] else [])
        exp = led.expected_error(op)
        if op["op"] == "lookup":
            led.lookup_miss = True
        if "hard" in stp:
            k = op["op"]
            if stp["hard"] == "KeyError" and k in ("remove_data", "remove_pg", "remove_hole") and "Property:" in stp.get("msg", ""):
                hd = led.hole_data(op["h"]) if op.get("h") in led.holes else []
                if any(d in led.renamed for d in hd):
                    key = "remove-after-rename-keyerror"
                elif op["h"] in led.ws_removed:
                    key = "hole-removal-after-workspace-data-removal-keyerror"
                else:
                    key = "remove-keyerror"
            elif stp["hard"] == "KeyError" and k in ("reopen", "reopen_lookups") and "'ID'" in stp.get("msg", "") and getattr(led, "lookup_miss", False):
                key = "lookup-miss-appends-empty-record"
            else:
                key = "operation-crashed:" + stp["hard"]
            fails.append({"key": key, "what": f"{where} raised {stp['hard']}: {stp.get('msg')}"})
            return False
        got = stp.get("soft")
        if got != exp:
            if got is not None and exp is None and op["op"] == "add_data" and "already present" in stp.get("msg", "") and "DEPTH" in stp.get("msg", ""):
                fails.append({"key": "add-refused-depth-name-taken", "what": f"{where} {op} raised {got}: {stp.get('msg')}"})
            elif (got == "ValueError" and exp is None and op["op"] in ("add_data", "add_obj") and "already present" in stp.get("msg", "")
                  and any(led.renamed.get(d) == 100 + op["name"] for d in led.hole_data(op["h"]))):
                fails.append({"key": "rename-leaves-old-property-key", "what": f"{where} {op} raised {got}: {stp.get('msg')} (the name was freed by a rename)"})
            elif got is not None and exp is None:
                fails.append({"key": "valid-operation-refused", "what": f"{where} {op} raised {got}: {stp.get('msg')}"})
            else:
                fails.append({"key": "invalid-operation-accepted", "what": f"{where} {op}: expected {exp}, got {got}"})
            return False
        before = led.clone()
        if exp is None and op["op"] == "add_data" and op["depth"] is None:
            pg = led.pg_by_name(op["h"], op["pg"])
            dep = led.depth_of(pg)
            earlier = led.holes[op["h"]]["pgs"][: led.holes[op["h"]]["pgs"].index(pg)]
            twins = [p for p in earlier if led.depth_of(p) is not None and led.data[led.depth_of(p)]["vals"] == led.data[dep]["vals"]]
            landed = [r["id"] for r in stp["snap"]["recs"] if r["kind"] == "pg" and op["did"] in r["members"]]
            if twins and landed == [twins[0]]:
                fails.append({"key": "add-to-group-lands-in-collocated-group",
                              "what": f"{where} {op}: the data was added to group {twins[0]} (same depths) instead of the requested group {pg}"})
                return False
        if exp is None:
            led.apply(op)
            if op["op"] == "add_data" and op["depid"] in led.data and led.data[op["depid"]]["name"] is None:
                # the name the library gives the depth data is not part of the specification: take it from the record
                for r in stp["snap"]["recs"]:
                    if r["id"] == op["depid"] and r["kind"] == "data":
                        led.data[op["depid"]]["name"] = label_id(r["name"] or "")
        if "closed" in stp:
            want_enc = "Attributes Jsons" if case["version"] > 2.0 else "Attributes"
            if stp["closed"]["encoding"] not in (want_enc, None):
                fails.append({"key": "attribute-encoding", "what": f"{where}: attributes stored as {stp['closed']['encoding']} for version {case['version']}"})
            if stp["closed"]["tabs"] != stp["snap"]["tabs"]:
                fails.append({"key": "reopen-changes-tables", "what": f"{where}: tables on file {stp['closed']['tabs']} != after re-open {stp['snap']['tabs']}"})
            _check_snapshot(before, {"tabs": stp["closed"]["tabs"], "objs": stp["closed"]["objs"], "recs": stp["closed"]["recs"],
                                     "vals": []}, where + " (file after close)", fails, readback=False)
        if op["op"] == "reopen_cold":
            led.cold = True
        elif op["op"] in ("reopen", "reopen_lookups"):
            led.cold = False
        # in a cold session the data sets are not loaded: nothing to read through the API yet
        _check_snapshot(led, stp["snap"], where, fails, readback=not getattr(led, "cold", False))
        if src_led is not None and "src" in stp:
            # the SOURCE group, re-read after the operation on the copy, must be what it was
            _check_snapshot(src_led, stp["src"], where + " (source re-read)", fails)
        if "view" in stp:
            _check_view(led, stp["view"], stp["snap"], where, fails, stats)
        for pgn, same in (stp.get("same") or {}).items():
            # the table object that pushed the column, read again
            if "error" in same:
                _check_view(led, {pgn: {"error": same["error"]}}, stp["snap"], where + " (same table object)", fails, stats)
            else:
                _check_view(led, {pgn: same["table"]}, stp["snap"], where + " (same table object)", fails, stats, only=pgn)
                _check_view(led, {pgn: same["by_name"]}, stp["snap"], where + " (same table object, depth_table_by_name)", fails, stats, only=pgn)
    return True


def oracle(case, obs, stats=None):
    if "crash" in obs:
        return [{"key": "driver-crash", "what": obs["crash"][:300] + " " + obs.get("tb", "")[-400:]}]
    fails = []
    led = Ledger()
    steps = obs["steps"]
    done = _walk(case, led, case["ops"], steps, "", fails, stats)
    if done and obs.get("final", {}).get("view") is not None and steps:
        _check_view(led, obs["final"]["view"], steps[-1]["snap"], "end", fails, stats)
    if done and case.get("copy_ops") is not None and not any(f["key"] in ("valid-operation-refused", "invalid-operation-accepted") for f in fails):
        cp = obs.get("copy")
        if cp is None or "error" in cp:
            fails.append({"key": "copy-failed", "what": f"group.copy(parent=other workspace) raised {None if cp is None else cp['error']}"})
        else:
            cled = led.clone()
            cled.dropped_pg_names = set()
            _check_snapshot(cled, cp["start"]["snap"], "copy", fails)
            _check_snapshot(led, cp["start"]["src"], "copy (source re-read)", fails)
            cdone = _walk(case, cled, case["copy_ops"], cp["steps"], "copy ", fails, stats, src_led=led)
            if cdone and cp.get("view") is not None and cp["steps"]:
                _check_view(cled, cp["view"], cp["steps"][-1]["snap"], "copy end", fails, stats)
    # one report per key
    seen, out = set(), []
    for f in fails:
        if f["key"] not in seen:
            seen.add(f["key"])
            out.append(f)
    return out


# ----------------------------------------------------------------------------- evidence helpers
def _shifted(obs):
    prev = {}
    for stp in obs.get("steps", []):
        sn = stp.get("snap")
        if not sn:
            continue
        for lab, t in sn["tabs"].items():
            lid = label_id(lab)
            col = 2 if (lid is not None and lid < 10) else 3
            cur = {r[col]: r[0] for r in t["rows"]}
            old = prev.get(lab, {})
            gone = set(old) - set(cur)
            if any(k in old and cur[k] < old[k] for k in cur) and True:
                return True
            prev[lab] = cur
    return False


def nontrivial(case, obs):
    return isinstance(obs, dict) and _shifted(obs)


def histogram(cases, obs):
    h = {"version": {}, "n_ops": {}, "op_kinds": {}, "holes": {}, "soft_errors": {}, "hard_errors": {}, "zero_length_rows": 0,
         "shifting_deletions": 0, "reopens": 0, "steps_compared": 0, "table_view": {}}
    for c, o in zip(cases, obs):
        h["version"][str(c["version"])] = h["version"].get(str(c["version"]), 0) + 1
        b = str(len(c["ops"]) // 5 * 5)
        h["n_ops"][b] = h["n_ops"].get(b, 0) + 1
        nh = str(sum(1 for op in c["ops"] if op["op"] == "add_hole"))
        h["holes"][nh] = h["holes"].get(nh, 0) + 1
        if c.get("copy_ops") is not None:
            h["copy_cases"] = h.get("copy_cases", 0) + 1
        for op in c["ops"] + (c.get("copy_ops") or []):
            if "kind" in op:
                h.setdefault("value_kinds", {})[op["kind"]] = h.setdefault("value_kinds", {}).get(op["kind"], 0) + 1
        for op in c["ops"] + (c.get("copy_ops") or []):
            h["op_kinds"][op["op"]] = h["op_kinds"].get(op["op"], 0) + 1
            if op["op"] == "reopen":
                h["reopens"] += 1
        if isinstance(o, dict) and "steps" in o:
            h["steps_compared"] += len(o["steps"])
            try:
                oracle(c, o, h["table_view"])
            except Exception:  # noqa: BLE001
                pass
        if isinstance(o, dict):
            for stp in o.get("steps", []):
                if "soft" in stp:
                    h["soft_errors"][stp["soft"]] = h["soft_errors"].get(stp["soft"], 0) + 1
                if "hard" in stp:
                    h["hard_errors"][stp["hard"]] = h["hard_errors"].get(stp["hard"], 0) + 1
            if any(r[1] == 0 for stp in o.get("steps", []) if "snap" in stp for t in stp["snap"]["tabs"].values() for r in t["rows"]):
                h["zero_length_rows"] += 1
            if _shifted(o):
                h["shifting_deletions"] += 1
    return h
