"""C06 — Identifiers are unique within a workspace and stable across copies.

Histories over two workspaces (create with fresh or deliberately colliding identifiers, add data, property groups,
copies within and across workspaces, removals, deaths of unreferenced instances, listing getters, look-ups) are run on
real workspaces.  The driver numbers every entity / property group / group-or-object type instance by the order in which
its constructor is entered (wrappers installed around Entity.__init__, PropertyGroup.__init__, EntityType.__init__ for
the duration of a case), holds strong references only in an explicit table and drops them + gc.collect() where the
history says so.  After every operation it records every instance (identifier, liveness, children, property groups,
members, type), the five registries of both workspaces in dictionary order, and the flat containers of both files.
"""
from __future__ import annotations

import json

from vlib import common as C
from vlib.common import clist

ID = "C06"
PROPERTIES_V = "theories/Properties/C06.v"
CASE_IMPORTS = "From GV Require Import Prelude.Base Model.Registry.\nFrom GVgen Require Import C06Cfg."
ALLOWED_AXIOMS: list = []
REFUTED = [
    "C06_cross_kind_unique_refuted (a group may be created under the identifier of a live object: the registries are per kind)",
    "C06_refused_creation_no_side_effect_refuted (parent assignment precedes registration: the refused object stays in its parent's children)",
]
PARTIAL = [
    "C06_lookup_returns_owner (side condition: no live entity of a kind looked up earlier shares the identifier)",
    "C06_copy_end_to_end (property groups are only checked against the property-group registry: nohold for KPG; Group.copy "
    "modelled without children)",
    "C06_refused_create_unchanged (stated for OCreate; data / property-group refusals: C06_refused_creation_rolled_back at constructor level)",
]
TRUSTED = [
    "Coq 8.16.1 kernel + vm_compute (correspondence evaluation, refutation witnesses); no axioms",
    "hand-written model coq/theories/Model/Registry.v (weakref_utils.insert_once/get_clean_ref/remove_none_referents, "
    "Workspace.register/find_*/get_entity/copy_to_parent/copy_property_groups, EntityType.find_or_create, constructor order); "
    "tied to the code by running both on the same histories and comparing every instance, the five registries of both "
    "workspaces in dictionary order, and the flat containers, after every operation (digest) and after close",
    "uuid4 never collides (fresh counter); CPython weak references die when the last strong reference goes and gc.collect() ran "
    "(liveness flags are part of the compared observation); types die with the last instance referencing them",
    "tools/props/c06.py (generator, driver with constructor-order instrumentation, oracle)",
]
ASSUMPTIONS = [
    "classes: RootGroup, ContainerGroup, Points, float Data, PropertyGroup, GroupType/ObjectType; data types are not in the Coq model (checked by an oracle-only block: identifiers of types carried between workspaces)",
    "removals are of childless entities; Group.copy is exercised with copy_children=False; no moves",
]
RULE = (
    "8-22 operations over two workspaces; about a third of the creations reuse the identifier of an existing instance "
    "(same kind, other kind, dead, removed, other workspace); copies within and across workspaces of data / objects with "
    "children and property groups / groups; non-trivial = a forced identifier collision or a copy happens"
)
LEVEL_TEXT = (
    "Proved in Coq for all histories over two workspaces: the registry invariant, per-kind uniqueness of identifiers among live "
    "registered instances, look-up returns the owner (when no earlier-kind live instance shares the identifier), one type per class "
    "as an invariant (every live group/object holds the live registered type of its class), children lists only name existing "
    "instances, the copy rule END TO END for OCopy (entity, data children, property groups: every registered new instance carries a "
    "brand-new identifier or a source identifier that nobody held in the target workspace; all fresh when the sources hold theirs "
    "there), and refusal at operation level (OCreate under a live same-kind identifier: Refused, records/registries/file/liveness "
    "unchanged, with the rollback repair). Refuted with witnesses replayed on the code: cross-kind uniqueness (open), refused "
    "creation without side effects for the pinned constructor order (repaired). Tie: correspondence of all instances, registries "
    "(dictionary order) and flat containers after every operation on generated histories with forced collisions; behavioural probe."
)
TECHNIQUE = "Coq model of the weak-reference registries + invariant over all histories + differential histories with forced collisions"

KINDS = ["group", "object", "data", "pg", "type"]
KCOQ = {"group": "KGroup", "object": "KObject", "data": "KData", "pg": "KPG", "type": "KType"}
REG_ATTR = {"group": "_groups", "object": "_objects", "data": "_data", "pg": "_property_groups", "type": "_types"}
# the spellings of an identifier the public API accepts (uid: str | uuid.UUID)
SPELLINGS = ["UUID object", "str", "str in braces", "upper-case str", "hex str without hyphens"]


def spell(uid, sp):
    return [uid, str(uid), "{" + str(uid) + "}", str(uid).upper(), uid.hex][sp]


def _norm(u):
    """The identifier a stored value denotes (uuid.UUID), or the value itself when it cannot be read as one."""
    import uuid

    if isinstance(u, uuid.UUID) or u is None:
        return u
    try:
        return uuid.UUID(u.decode() if isinstance(u, bytes) else str(u))
    except ValueError:
        return u


LISTING = {"group": "groups", "object": "objects", "data": "data", "type": "types"}


# ----------------------------------------------------------------------------- regeneration: behavioural probe -> cfg
GEN = C.COQ / "generated" / "C06Cfg.v"
PROBE = r"""
import os, tempfile, warnings
warnings.simplefilter("ignore")
import numpy as np
from geoh5py import Workspace
from geoh5py.objects import Points
d = tempfile.mkdtemp()
ws = Workspace.create(os.path.join(d, "p.geoh5"))
o = Points.create(ws, vertices=np.zeros((2, 3)))
try:
    Points.create(ws, vertices=np.zeros((2, 3)), uid=o.uid)
    print("PROBE accepted")
except RuntimeError:
    print("PROBE rollback" if len(ws.root.children) == 1 else "PROBE leftover")
ws.close()
"""


def regenerate(repo):
    import subprocess

    env = dict(C.impl_env())
    env["PYTHONPATH"] = f"{repo}:{C.VERIF / 'tools'}"
    p = subprocess.run([C.PY, "-c", PROBE], capture_output=True, text=True, env=env, timeout=120)
    if "PROBE rollback" in p.stdout:
        rb = True
    elif "PROBE leftover" in p.stdout:
        rb = False
    else:
        raise RuntimeError("refused-creation probe: unrecognised behaviour: " + (p.stdout + p.stderr)[-400:])
    text = (
        "(* generated by tools/props/c06.py from a behavioural probe of the checked tree (is the parent assignment undone when\n"
        "   registration is refused?); do not edit *)\n"
        "From GV Require Import Model.Registry.\n"
        "Definition cur : cfg := {| rollback := %s |}.\n" % ("true" if rb else "false")
    )
    GEN.parent.mkdir(exist_ok=True)
    if not GEN.exists() or GEN.read_text() != text:
        GEN.write_text(text)
    return {"tables": {"probe": {"rollback": rb}}}


# ----------------------------------------------------------------------------- shadow used by the generator (what exists, roughly)
class Shadow:
    def __init__(self):
        # ordinal -> dict(kind, ws, parent, children, removed, dead, uid_of(ordinal whose uid it has), ok)
        self.e = {}
        for k, (kind, ws) in enumerate([("type", 0), ("group", 0), ("type", 1), ("group", 1)]):
            self.e[k] = {"kind": kind, "ws": ws, "parent": None, "children": [], "att": kind != "type", "dead": False, "ok": True, "pgs": [], "inpg": False}
        self.n = 4
        self.types = {(0, 0): 0, (1, 0): 2}  # (ws, cls) -> ordinal if believed alive

    def new(self, kind, ws, parent, ok=True):
        k = self.n
        self.n += 1
        self.e[k] = {"kind": kind, "ws": ws, "parent": parent, "children": [], "att": True, "dead": False, "ok": ok, "pgs": [], "inpg": False}
        if parent is not None:
            self.e[parent]["children"].append(k)
        return k

    def live(self, kind=None, ws=None):
        return [k for k, r in self.e.items() if r["att"] and not r["dead"] and r["ok"] and (kind is None or r["kind"] == kind) and (ws is None or r["ws"] == ws)]


def scripted():
    """Deterministic scenarios (instance numbers are fixed by the constructor order)."""
    out = []
    # an object with data and a property group copied to the other workspace, that copy removed and dropped, copied again:
    # the identifiers of the object, the data AND the property group are free again and must be kept
    base = [{"op": "create", "ws": 0, "obj": True, "parent": 1, "u": None}, {"op": "data", "o": 5, "u": None},
            {"op": "pg", "o": 5, "ds": [6], "u": None}, {"op": "copy", "e": 5, "t": 3}]
    for mid in ([], [{"op": "list", "ws": 1, "k": "object"}], [{"op": "list", "ws": 1, "k": "data"}, {"op": "lookup", "ws": 1, "e": 9}]):
        out.append({"ops": base + [{"op": "remove", "e": 9}, {"op": "die", "es": [9, 10, 11]}] + mid + [{"op": "copy", "e": 5, "t": 3}]})
    out.append({"ops": base + [{"op": "remove", "e": 9}, {"op": "copy", "e": 5, "t": 3}]})  # not dropped: identifiers still in use
    # a caller-supplied property-group identifier that collides with a live group of another object: refused, nothing written
    two = [{"op": "create", "ws": 0, "obj": True, "parent": 1, "u": None}, {"op": "create", "ws": 0, "obj": True, "parent": 1, "u": None},
           {"op": "data", "o": 5, "u": None}, {"op": "data", "o": 6, "u": None}, {"op": "pg", "o": 6, "ds": [8], "u": None}]
    out.append({"ops": two + [{"op": "pg", "o": 5, "ds": [7], "u": {"same": 9}}, {"op": "lookup", "ws": 0, "e": 9}]})
    out.append({"ops": two + [{"op": "pg", "o": 5, "ds": [7], "u": {"same": 9}}, {"op": "pg", "o": 5, "ds": [7], "u": None},
                              {"op": "copy", "e": 5, "t": 3}]})
    out.append({"ops": two + [{"op": "copy", "e": 6, "t": 3}, {"op": "pg", "o": 5, "ds": [7], "u": {"same": 9}}]})
    # the public API takes identifiers as uuid.UUID or str: every accepted spelling of an identifier denotes the same identifier,
    # on every creation route that takes one (group, object, data, property group)
    for sp in range(1, len(SPELLINGS)):
        u = {"same": 9, "sp": sp}
        out.append({"ops": two + [{"op": "pg", "o": 5, "ds": [7], "u": u}, {"op": "lookup", "ws": 0, "e": 9},
                                  {"op": "data", "o": 5, "u": {"same": 8, "sp": sp}},
                                  {"op": "create", "ws": 0, "obj": True, "parent": 1, "u": {"same": 6, "sp": sp}},
                                  {"op": "create", "ws": 0, "obj": False, "parent": 1, "u": {"same": 1, "sp": sp}},
                                  {"op": "pg", "o": 5, "ds": [7], "u": {"fresh": True, "sp": sp}},
                                  {"op": "data", "o": 5, "u": {"fresh": True, "sp": sp}},
                                  {"op": "create", "ws": 1, "obj": True, "parent": 3, "u": {"same": 9, "sp": sp}}]})
    return out


def dtype_cases(rng, count):
    """Data types carried between workspaces (oracle only; data types are not in the Coq model): steps over two workspaces
    with one or two objects each: plain add_data (own new type), add_data with the DataType of an existing data set of
    either workspace as entity_type (DataType.validate_data_type -> EntityType.copy), and object copies (find_or_create)."""
    cases = [{"dtype": {"objs": [0, 1], "steps": [{"t": "data", "o": 0}, {"t": "typed", "o": 1, "d": 0}, {"t": "typed", "o": 1, "d": 0},
                                                   {"t": "copy", "o": 0, "ws": 1}]}},
             {"dtype": {"objs": [0, 1], "steps": [{"t": "data", "o": 0}] + [{"t": "byuid", "o": o, "d": 0, "sp": sp} for sp in range(5) for o in (1, 0)]}},
             {"dtype": {"objs": [0, 0], "steps": [{"t": "data", "o": 0}, {"t": "typed", "o": 1, "d": 0}, {"t": "copy", "o": 0, "ws": 0}]}}]
    for _ in range(count):
        objs = [rng.below(2) for _ in range(rng.range(2, 3))]
        steps, ndata = [], 0
        for _ in range(rng.range(2, 6)):
            r = rng.below(100)
            if ndata == 0 or r < 35:
                steps.append({"t": "data", "o": rng.below(len(objs))})
                ndata += 1
            elif r < 65:
                steps.append({"t": "typed", "o": rng.below(len(objs)), "d": rng.below(ndata)})
                ndata += 1
            elif r < 80:  # the type named by its identifier, in any accepted spelling (DataType.find_or_create)
                steps.append({"t": "byuid", "o": rng.below(len(objs)), "d": rng.below(ndata), "sp": rng.below(len(SPELLINGS))})
                ndata += 1
            else:
                steps.append({"t": "copy", "o": rng.below(len(objs)), "ws": rng.below(2)})
        cases.append({"dtype": {"objs": objs, "steps": steps}})
    return cases


def generate(rng, tier):
    n = 220 if tier == "quick" else 5000
    return scripted() + [random_history(rng) for _ in range(n)] + dtype_cases(rng, 18 if tier == "quick" else 400)


def random_history(rng):
    """The generator does not predict outcomes; it only needs plausible operands.  Instance numbers are predicted with a
    simple shadow that assumes every creation succeeds unless it reuses the identifier of a live instance of the same
    kind and workspace; when the shadow is wrong the model answers BadOp for the same reason on both sides."""
    ops = []
    sh = Shadow()
    uid_owner = {k: k for k in sh.e}  # ordinal -> representative ordinal of its uid

    def pick(xs):
        return xs[rng.below(len(xs))]

    def type_for(ws, cls):
        # a type instance is created when none is believed alive
        key = (ws, cls)
        t = sh.types.get(key)
        if t is None or sh.e[t]["dead"]:
            t = sh.new("type", ws, None)
            sh.e[t]["att"] = False
            sh.types[key] = t
            uid_owner[t] = t
        return t

    def clash(kind, ws, rep):
        return any(uid_owner.get(k) == rep and not r["dead"] and r["ok"] and r["kind"] == kind and r["ws"] == ws for k, r in sh.e.items())

    def uspec(kind, ws):
        if rng.chance(35):
            cands = [k for k, r in sh.e.items() if r["kind"] != "type"]
            same = [k for k in cands if sh.e[k]["kind"] == kind]
            if same and rng.chance(50):  # a collision inside the same registry (refusal when the owner is alive)
                cands = same
            if cands:
                src = pick(cands)
                return {"same": src, "sp": rng.below(len(SPELLINGS))}, uid_owner[src]
        if rng.chance(20):  # a caller-supplied identifier nobody uses, in any accepted spelling: behaves like a generated one
            return {"fresh": True, "sp": rng.below(len(SPELLINGS))}, None
        return None, None

    length = rng.range(8, 22)
    for _ in range(length):
        r = rng.below(100)
        if r < 22:
            ws = rng.below(2)
            parents = sh.live("group", ws)
            if not parents:
                continue
            isobj = rng.chance(60)
            kind = "object" if isobj else "group"
            u, rep = uspec(kind, ws)
            type_for(ws, 2 if isobj else 1)
            ok = not (rep is not None and clash(kind, ws, rep))
            p = pick(parents)
            k = sh.new(kind, ws, p, ok)
            uid_owner[k] = rep if rep is not None else k
            ops.append({"op": "create", "ws": ws, "obj": isobj, "parent": p, "u": u})
        elif r < 40:
            objs = sh.live("object")
            if not objs:
                continue
            o = pick(objs)
            u, rep = uspec("data", sh.e[o]["ws"])
            ok = not (rep is not None and clash("data", sh.e[o]["ws"], rep))
            k = sh.new("data", sh.e[o]["ws"], o, ok)
            uid_owner[k] = rep if rep is not None else k
            ops.append({"op": "data", "o": o, "u": u})
        elif r < 50:
            objs = [o for o in sh.live("object") if any(sh.e[c]["kind"] == "data" and sh.e[c]["ok"] for c in sh.e[o]["children"])]
            if not objs:
                continue
            o = pick(objs)
            ds = [c for c in sh.e[o]["children"] if sh.e[c]["kind"] == "data" and sh.e[c]["ok"] and sh.e[c]["att"]]
            if not ds:
                continue
            sel = rng.sample(ds, min(len(ds), rng.range(1, 2)))
            u, rep = uspec("pg", sh.e[o]["ws"])
            ok = not (rep is not None and clash("pg", sh.e[o]["ws"], rep))
            k = sh.new("pg", sh.e[o]["ws"], o, ok)
            uid_owner[k] = rep if rep is not None else k
            if ok:
                for d in sel:
                    sh.e[d]["inpg"] = True
            ops.append({"op": "pg", "o": o, "ds": sel, "u": u})
        elif r < 68:
            srcs = [k for k in sh.live() if sh.e[k]["kind"] in ("data", "object", "group") and k not in (1, 3)]
            if not srcs:
                continue
            e = pick(srcs)
            kind = sh.e[e]["kind"]
            tws = rng.below(2)
            targets = sh.live("object" if kind == "data" else "group", tws)
            targets = [t for t in targets if t != e]
            if not targets:
                continue
            t = pick(targets)
            # shadow of the instances a copy creates (types, the copy, data children, property groups)
            if kind != "data":
                type_for(tws, 2 if kind == "object" else 1)
            k = sh.new(kind, tws, t)
            uid_owner[k] = k
            if kind == "object":
                for c in list(sh.e[e]["children"]):
                    if sh.e[c]["kind"] == "data" and sh.e[c]["att"]:
                        kk = sh.new("data", tws, k)
                        uid_owner[kk] = kk
                        sh.e[kk]["inpg"] = sh.e[c]["inpg"]
                for c in list(sh.e[e]["children"]):
                    if sh.e[c]["kind"] == "pg" and sh.e[c]["att"] and sh.e[c]["ok"]:
                        kk = sh.new("pg", tws, k)
                        uid_owner[kk] = kk
            ops.append({"op": "copy", "e": e, "t": t})
        elif r < 80:
            leaves = [k for k in sh.live() if k not in (1, 3) and sh.e[k]["kind"] in ("data", "object", "group")
                      and (sh.e[k]["kind"] == "object" or not [c for c in sh.e[k]["children"] if sh.e[c]["att"]])
                      and not sh.e[k]["inpg"]]
            if not leaves:
                continue
            e = pick(leaves)
            sh.e[e]["att"] = False
            for c in sh.e[e]["children"]:  # an object goes with its data and property groups
                sh.e[c]["att"] = False
            ops.append({"op": "remove", "e": e})
        elif r < 90:
            gone = [k for k, rr in sh.e.items() if not rr["att"] and not rr["dead"] and rr["kind"] != "type"]
            if not gone:
                continue
            es = rng.sample(gone, rng.range(1, len(gone)))
            # whatever still points to a dying instance (a removed child keeps its _parent) has to go with it
            grew = True
            while grew:
                grew = False
                for k, rr in sh.e.items():
                    if k not in es and not rr["dead"] and rr["kind"] != "type" and rr["parent"] in es:
                        es.append(k)
                        grew = True
            for k in es:
                sh.e[k]["dead"] = True
            for key, t in list(sh.types.items()):
                if not any(not rr["dead"] and rr["kind"] in ("group", "object") and rr["ws"] == key[0]
                           and (2 if rr["kind"] == "object" else (0 if k in (1, 3) else 1)) == key[1] for k, rr in sh.e.items()):
                    sh.e[t]["dead"] = True
            ops.append({"op": "die", "es": sorted(es)})
        elif r < 95:
            ops.append({"op": "list", "ws": rng.below(2), "k": pick(["group", "object", "data", "type"])})
        else:
            cands = [k for k, rr in sh.e.items() if rr["kind"] != "type"]
            ops.append({"op": "lookup", "ws": rng.below(2), "e": pick(cands)})
    return {"ops": ops}


# ----------------------------------------------------------------------------- implementation driver
class _Rec:
    """Numbers instances by constructor entry; keeps weak references only."""

    def __init__(self):
        import weakref

        self.weakref = weakref
        self.refs = []  # ordinal -> weakref
        self.uid = []  # ordinal -> uuid (filled when the constructor returns or raises)
        self.kind = []
        self.ws = []
        self.orig = {}
        self.spelling = []  # identifiers found in another form than uuid.UUID (memory) / "{lower-case}" (file)
        self.ordmap = weakref.WeakKeyDictionary()  # instance -> ordinal (nothing is written on the instances)

    def setuid(self, k, raw):
        import uuid

        self.uid[k] = _norm(raw)
        if raw is not None and not isinstance(raw, uuid.UUID):
            self.spelling.append(f"instance {k} ({self.kind[k]}) carries its identifier as {type(raw).__name__} {raw!r}")

    def ordof(self, obj):
        try:
            return self.ordmap.get(obj, 998)
        except TypeError:
            return 998

    def add(self, obj, kind, ws):
        k = len(self.refs)
        self.refs.append(self.weakref.ref(obj))
        self.uid.append(None)
        self.kind.append(kind)
        self.ws.append(ws)
        self.ordmap[obj] = k
        return k

    def install(self, wss):
        from geoh5py.data import Data
        from geoh5py.data.data_type import DataType
        from geoh5py.groups import Group, PropertyGroup
        from geoh5py.shared.entity import Entity
        from geoh5py.shared.entity_type import EntityType

        rec = self

        def ws_index(w):
            for i, x in enumerate(wss):
                if x is w:
                    return i
            return 9

        e_init, p_init, t_init = Entity.__init__, PropertyGroup.__init__, EntityType.__init__
        self.orig = {Entity: e_init, PropertyGroup: p_init, EntityType: t_init}

        def entity_init(self, *a, **kw):
            kind = "data" if isinstance(self, Data) else ("group" if isinstance(self, Group) else "object")
            k = rec.add(self, kind, ws_index(self.entity_type.workspace))
            try:
                e_init(self, *a, **kw)
            finally:
                rec.setuid(k, getattr(self, "_uid", None))

        def pg_init(self, parent, *a, **kw):
            k = rec.add(self, "pg", ws_index(parent.workspace))
            try:
                p_init(self, parent, *a, **kw)
            finally:
                rec.setuid(k, getattr(self, "_uid", None))

        def type_init(self, workspace, *a, **kw):
            if isinstance(self, DataType):
                return t_init(self, workspace, *a, **kw)
            k = rec.add(self, "type", ws_index(workspace))
            try:
                t_init(self, workspace, *a, **kw)
            finally:
                rec.setuid(k, getattr(self, "_uid", None))

        Entity.__init__, PropertyGroup.__init__, EntityType.__init__ = entity_init, pg_init, type_init

    def uninstall(self):
        for cls, f in self.orig.items():
            cls.__init__ = f


def _observe(rec, wss, out):
    import h5py
    from geoh5py.data.data_type import DataType

    n = len(rec.refs)
    rep = {}
    for k in range(n):
        rep.setdefault(rec.uid[k], k)

    ordof = rec.ordof

    ser = [out, n]
    for k in range(n):
        x = rec.refs[k]()
        ser += [rep[rec.uid[k]], 1 if x is not None else 0, KINDS.index(rec.kind[k]), rec.ws[k]]
        if x is None:
            ser += [0, 0, 0, 0]
        else:
            ch = [ordof(c) for c in getattr(x, "_children", [])] if rec.kind[k] in ("group", "object") else []
            pgs = [ordof(g) for g in (getattr(x, "_property_groups", None) or [])] if rec.kind[k] == "object" else []
            props = [rep.get(u, 997) for u in (getattr(x, "_properties", None) or [])] if rec.kind[k] == "pg" else []
            ty = ordof(x.entity_type) if rec.kind[k] in ("group", "object") else 0
            ser += [len(ch)] + ch + [len(pgs)] + pgs + [len(props)] + props + [ty]
        del x
    for ws in wss:
        for kind in KINDS:
            d = getattr(ws, REG_ATTR[kind])
            rows = []
            for raw, ref in d.items():
                uid = _norm(raw)
                if uid is not raw:
                    rec.spelling.append(f"registry {REG_ATTR[kind]} of workspace {wss.index(ws)} has the key {raw!r} ({type(raw).__name__})")
                x = ref()
                if kind == "type" and (isinstance(x, DataType) or (x is None and uid not in rep)):
                    del x
                    continue
                rows += [rep.get(uid, 996), 1 if x is not None else 0, ordof(x) if x is not None else 0]
                del x
            ser += [len(rows) // 3] + rows
    for ws in wss:
        ser += _flat(ws.geoh5, rep)
    for ws in wss:
        ser += _links(ws.geoh5, rep)
    return ser


def _file_spellings(h5):
    """Node names of the file that are not the canonical "{lower-case uuid}" form."""
    import uuid

    import h5py

    base = h5[list(h5)[0]]
    bad = []

    def check(where, key):
        try:
            ok = key == "{" + str(uuid.UUID(key)) + "}"
        except ValueError:
            ok = False
        if not ok:
            bad.append(f"{where} has the key {key!r}")

    for cont in ("Groups", "Objects", "Data"):
        if cont not in base:
            continue
        for u, node in base[cont].items():
            check(cont, u)
            for sub in ("Groups", "Objects", "Data", "PropertyGroups"):
                if sub in node and isinstance(node[sub], h5py.Group):
                    for cu in node[sub].keys():
                        check(f"{cont}/{u}/{sub}", cu)
    if "Types" in base:
        for fam in base["Types"].keys():
            for u in base["Types"][fam].keys():
                check(f"Types/{fam}", u)
    return bad


def _links(h5, rep):
    """Child links of the nodes the flat containers reach, keyed like Registry.obs_links."""
    import uuid

    import h5py

    base = h5[list(h5)[0]]
    keys = []
    for pk, cont in enumerate(("Groups", "Objects", "Data")):
        if cont not in base:
            continue
        for pu, node in base[cont].items():
            for ck, sub in enumerate(("Groups", "Objects", "Data")):
                if sub in node and isinstance(node[sub], h5py.Group):
                    for cu in node[sub].keys():
                        a, b = rep.get(uuid.UUID(pu.strip("{}")), 995), rep.get(uuid.UUID(cu.strip("{}")), 995)
                        keys.append((((pk * 1000 + a) * 10 + ck) * 1000 + b, [pk, a, ck, b]))
    out = [len(keys)]
    for _, row in sorted(keys):
        out += row
    return out


def _stored_groups(h5, rep):
    """(object, property group) pairs of the PropertyGroups entries stored under the object nodes (oracle only)."""
    import uuid

    base = h5[list(h5)[0]]
    out = []
    if "Objects" in base:
        for u, node in base["Objects"].items():
            if "PropertyGroups" in node:
                for g in node["PropertyGroups"].keys():
                    out.append([rep.get(uuid.UUID(u.strip("{}")), 995), rep.get(uuid.UUID(g.strip("{}")), 995)])
    return sorted(out)


def _flat(h5, rep):
    import uuid

    base = h5[list(h5)[0]]
    ser = []
    for cont in ("Groups", "Objects", "Data"):
        ks = sorted(rep.get(uuid.UUID(u.strip("{}")), 995) for u in base[cont].keys()) if cont in base else []
        ser += [len(ks)] + ks
    return ser


def _drive_dtype(spec, work):
    import os

    import numpy as np
    from geoh5py import Workspace
    from geoh5py.data import Data
    from geoh5py.objects import Points

    paths = [os.path.join(work, f"c06_t{i}.geoh5") for i in (0, 1)]
    for p in paths:
        if os.path.exists(p):
            os.remove(p)
    wss = [Workspace.create(p) for p in paths]
    res = {"steps": []}
    try:
        objs = [Points.create(wss[w], vertices=np.zeros((2, 3)), name=f"o{k}") for k, w in enumerate(spec["objs"])]
        datas = []  # (data, workspace index)

        raw = []

        def live_types(i):
            import uuid

            for key, ref in list(wss[i]._types.items()):
                t = ref()
                for v in (key, getattr(t, "_uid", key)):
                    if not isinstance(v, uuid.UUID):
                        raw.append(f"workspace {i}: type identifier kept as {type(v).__name__} {v!r}")
                del t
            return sorted(str(_norm(t.uid)) for t in wss[i].types if type(t).__name__ == "DataType")

        def widx(w):
            return 0 if w is wss[0] else 1

        for st in spec["steps"]:
            before = [live_types(0), live_types(1)]
            rec = {"before": before}
            try:
                if st["t"] == "data":
                    d = objs[st["o"]].add_data({f"d{len(datas)}": {"values": np.array([0.0, 1.0])}})
                    datas.append(d)
                    rec.update({"new": [[widx(d.workspace), str(d.entity_type.uid), widx(d.entity_type.workspace)]]})
                elif st["t"] == "typed":
                    src = datas[st["d"]]
                    d = objs[st["o"]].add_data({f"d{len(datas)}": {"values": np.array([0.0, 1.0]), "entity_type": src.entity_type}})
                    datas.append(d)
                    rec.update({"src": [widx(src.entity_type.workspace), str(src.entity_type.uid)],
                                "same_instance": d.entity_type is src.entity_type,
                                "new": [[widx(d.workspace), str(d.entity_type.uid), widx(d.entity_type.workspace)]]})
                elif st["t"] == "byuid":
                    src = datas[st["d"]]
                    suid, sws = src.entity_type.uid, widx(src.entity_type.workspace)
                    tgt = objs[st["o"]]
                    holder = [t for t in tgt.workspace.types if type(t).__name__ == "DataType" and _norm(t.uid) == suid]
                    d = tgt.add_data({f"d{len(datas)}": {"values": np.array([0.0, 1.0]),
                                                         "entity_type": {"primitive_type": "FLOAT", "uid": spell(suid, st["sp"])}}})
                    datas.append(d)
                    rec.update({"src": [sws, str(suid)], "same_instance": bool(holder) and d.entity_type is holder[0],
                                "new": [[widx(d.workspace), str(_norm(d.entity_type.uid)), widx(d.entity_type.workspace)]]})
                    del holder
                else:
                    o = objs[st["o"]]
                    cp = o.copy(parent=wss[st["ws"]])
                    pairs = []
                    for a, b in zip([c for c in o.children if isinstance(c, Data)], [c for c in cp.children if isinstance(c, Data)]):
                        pairs.append([widx(a.workspace), str(a.entity_type.uid), widx(b.workspace), str(b.entity_type.uid), widx(b.entity_type.workspace)])
                    rec.update({"pairs": pairs})
                rec["out"] = "ok"
            except Exception as e:  # noqa: BLE001
                rec["out"] = f"{type(e).__name__}: {str(e)[:80]}"
            rec["after"] = [live_types(0), live_types(1)]
            res["steps"].append(rec)
        mem = [[widx(d.workspace), str(d.uid), str(d.entity_type.uid)] for d in datas]
        for w in wss:
            w.close()
        on_file = []
        for i, p in enumerate(paths):
            w2 = Workspace(p)
            for _, uid, _t in [m for m in mem if m[0] == i]:
                import uuid

                e = w2.get_entity(uuid.UUID(uid))[0]
                on_file.append([i, uid, None if e is None else str(e.entity_type.uid)])
            w2.close()
        res["mem"] = mem
        res["file"] = on_file
        res["spelling"] = sorted(set(raw))[:10]
    finally:
        for w in wss:
            try:
                w.close()
            except Exception:  # noqa: BLE001
                pass
        for p in paths:
            if os.path.exists(p):
                os.remove(p)
    return res


def _oracle_dtype(spec, obs):
    fails, seen = [], set()

    def add(key, what):
        if key not in seen:
            seen.add(key)
            fails.append({"key": key, "what": what[:400]})

    if "steps" not in obs:
        return [{"key": "driver-incomplete", "what": json.dumps(obs)[:300]}]
    for i, (st, r) in enumerate(zip(spec["steps"], obs["steps"])):
        if r["out"] != "ok":
            add("type-op-raised", f"step {i} {st}: {r['out']}")
            continue
        for ws in (0, 1):
            if len(set(r["after"][ws])) != len(r["after"][ws]):
                add("types-share-identifier", f"step {i}: two live data types of workspace {ws} share an identifier")
        if st["t"] == "typed":
            sws, suid = r["src"]
            (dws, tuid_, tws), = r["new"]
            if tws != dws:
                add("type-in-wrong-workspace", f"step {i}: the new data's type belongs to workspace {tws}, the data to {dws}")
            if sws == dws:
                if not r["same_instance"]:
                    add("same-ws-type-not-shared", f"step {i}: a type of the same workspace was not used as it is")
            else:
                free = suid not in r["before"][dws]
                if free and tuid_ != suid:
                    add("type-identifier-dropped-although-free", f"step {i} {st}: type identifier {suid[:8]} was free in workspace {dws} but the new type got {tuid_[:8]}")
                if not free and tuid_ == suid and r["after"][dws].count(suid) > 1:
                    add("types-share-identifier", f"step {i}: identifier in use was reused")
        if st["t"] == "byuid":
            _sws, suid = r["src"]
            (dws, tuid_, tws), = r["new"]
            if tws != dws:
                add("type-in-wrong-workspace", f"step {i}: the new data's type belongs to workspace {tws}, the data to {dws}")
            if tuid_ != suid:
                add("type-named-by-identifier-got-another", f"step {i} {st}: asked for type {suid[:8]} ({SPELLINGS[st['sp']]}), got {tuid_[:8]}")
            if suid in r["before"][dws] and not r["same_instance"]:
                add("type-named-by-identifier-not-found", f"step {i} {st}: a live type of workspace {dws} has this identifier; another instance was made")
        if st["t"] == "copy":
            for aws, auid, bws, buid, tws in r["pairs"]:
                if tws != bws:
                    add("type-in-wrong-workspace", f"step {i}: copied data's type belongs to workspace {tws}")
                free = auid not in r["before"][bws]
                if aws != bws and free and buid != auid:
                    add("type-identifier-dropped-although-free", f"step {i} {st}: object copy did not keep the data type identifier {auid[:8]}")
    if obs.get("spelling"):
        add("identifier-not-normalised", "; ".join(obs["spelling"][:3]))
    mem = {(m[0], m[1]): m[2] for m in obs.get("mem", [])}
    for ws, uid, t in obs.get("file", []):
        if t != mem.get((ws, uid)):
            add("type-identifier-differs-on-file", f"data {uid[:8]} of workspace {ws}: type {t} on file, {mem.get((ws, uid))} in memory")
    return fails


def drive_one(case, work):
    if "dtype" in case:
        return _drive_dtype(case["dtype"], work)
    import gc
    import os

    import h5py
    import numpy as np
    from geoh5py import Workspace
    from geoh5py.groups import ContainerGroup
    from geoh5py.objects import Points

    paths = [os.path.join(work, f"c06_{i}.geoh5") for i in (0, 1)]
    for p in paths:
        if os.path.exists(p):
            os.remove(p)
    wss = [Workspace.create(p) for p in paths]
    gc.collect()
    rec = _Rec()
    tab = {}
    for i, ws in enumerate(wss):
        t = rec.add(ws.root.entity_type, "type", i)
        rec.uid[t] = ws.root.entity_type.uid
        r = rec.add(ws.root, "group", i)
        rec.uid[r] = ws.root.uid
        tab[r] = ws.root
    rec.install(wss)
    res = {"per_op": [], "errors": [], "digests": []}

    def inst(k):
        x = tab.get(k)
        if x is None:
            raise LookupError(f"instance {k} is not held")
        return x

    def hold_new(n0):
        # every instance created by the operation is held by the driver until a `die` (types are held by their entities)
        for k in range(n0, len(rec.refs)):
            x = rec.refs[k]()
            if x is not None and rec.kind[k] != "type":
                tab[k] = x
            del x

    def need(cond):
        if not cond:
            raise LookupError("operation not applicable (the model answers BadOp)")

    def given(u):
        import uuid

        base = uuid.uuid4() if u.get("fresh") else rec.uid[u["same"]]
        return spell(base, u.get("sp", 0))

    def apply(op):
        t = op["op"]
        if t == "create":
            need(rec.kind[op["parent"]] == "group" and rec.ws[op["parent"]] == op["ws"])
        if t in ("data", "pg"):
            need(rec.kind[op["o"]] == "object")
        if t == "copy":
            need(op["e"] in tab and op["t"] in tab)
            ke, kt = rec.kind[op["e"]], rec.kind[op["t"]]
            need((ke == "data" and kt == "object") or (ke in ("group", "object") and kt == "group"))
        if t == "remove":
            need(op["e"] in tab and rec.kind[op["e"]] in ("group", "object", "data") and op["e"] not in (1, 3)
                 and (rec.kind[op["e"]] == "object" or not getattr(tab[op["e"]], "children", [])))
        if t == "die":
            es = op["es"]
            need(all(k < len(rec.refs) and rec.kind[k] != "type" for k in es))

            def is_attached(x):
                for _ in range(100):
                    if any(x is w.root for w in wss):
                        return True
                    p = getattr(x, "parent", None)
                    if p is None or not any(c is x for c in getattr(p, "children", [])):
                        return False
                    x = p
                return False

            need(not any(k in tab and is_attached(tab[k]) for k in es))
            need(not any(k not in es and rec.ordof(getattr(x, "parent", None)) in es for k, x in tab.items()))
        if t == "create":
            kw = {"parent": inst(op["parent"]), "name": f"n{len(rec.refs)}"}
            if op["u"]:
                kw["uid"] = given(op["u"])
            if op["obj"]:
                Points.create(wss[op["ws"]], vertices=np.zeros((2, 3)), **kw)
            else:
                ContainerGroup.create(wss[op["ws"]], **kw)
        elif t == "data":
            spec = {"values": np.array([0.0, 1.0])}
            if op["u"]:
                spec["uid"] = given(op["u"])
            inst(op["o"]).add_data({f"n{len(rec.refs)}": spec})
        elif t == "pg":
            o = inst(op["o"])
            kw = {"name": f"n{len(rec.refs)}"}
            if op["u"]:
                kw["uid"] = given(op["u"])
            pg = o.create_property_group(**kw)
            pg.add_properties([tab[d] for d in op["ds"] if d in tab])  # add_properties keeps the data children only
        elif t == "copy":
            e, tg = inst(op["e"]), inst(op["t"])
            if rec.kind[op["e"]] == "group":
                e.copy(parent=tg, copy_children=False)
            else:
                e.copy(parent=tg)
        elif t == "remove":
            e = inst(op["e"])
            e.workspace.remove_entity(e)
        elif t == "die":
            for k in op["es"]:
                tab.pop(k, None)
            gc.collect()
        elif t == "list":
            len(getattr(wss[op["ws"]], LISTING[op["k"]]))
        elif t == "lookup":
            r = wss[op["ws"]].get_entity(rec.uid[op["e"]])[0]
            return 2 if r is None else 10 + rec.ordof(r)
        return 0

    try:
        for op in case["ops"]:
            n0 = len(rec.refs)
            try:
                out = apply(op)
            except RuntimeError as e:
                out = 1 if "already used" in str(e) else 9
                if out == 9:
                    res["errors"].append(f"RuntimeError: {e}"[:200])
            except KeyError:
                out = 3
            except LookupError:
                out = 8
            except Exception as e:  # noqa: BLE001
                out = 9
                res["errors"].append(f"{type(e).__name__}: {e}"[:200])
            hold_new(n0)
            ser = _observe(rec, wss, out)
            res["per_op"].append(ser)
            rep_now = {}
            for k in range(len(rec.refs)):
                rep_now.setdefault(rec.uid[k], k)
            res.setdefault("stored_groups", []).append([_stored_groups(ws.geoh5, rep_now) for ws in wss])
        # the oracle's view (by instance number)
        res["uid_rep"] = []
        rep = {}
        for k in range(len(rec.refs)):
            rep.setdefault(rec.uid[k], k)
            res["uid_rep"].append(rep[rec.uid[k]])
        res["kinds"] = list(rec.kind)
        for i, ws in enumerate(wss):
            rec.spelling += [f"file of workspace {i}: {x}" for x in _file_spellings(ws.geoh5)]
        res["spelling"] = sorted(set(rec.spelling))[:20]
        res["wsof"] = list(rec.ws)
        for ws in wss:
            ws.close()
        fin = []
        for p in paths:
            with h5py.File(p, "r") as h5:
                fin += _flat(h5, rep)
        res["final"] = fin
        reopen = []
        for p in paths:
            try:
                w2 = Workspace(p)
                reopen.append(["ok", len(w2.groups) + len(w2.objects) + len(w2.data)])
                w2.close()
            except Exception as e:  # noqa: BLE001
                reopen.append([type(e).__name__, 0])
        res["reopen"] = reopen
    finally:
        rec.uninstall()
        for ws in wss:
            try:
                ws.close()
            except Exception:  # noqa: BLE001
                pass
        tab.clear()
        for p in paths:
            if os.path.exists(p):
                os.remove(p)
    return res


# ----------------------------------------------------------------------------- Coq case terms
HMASK = (1 << 64) - 1


def _pack(chunk):
    a = 0
    for x in chunk:
        a = (a << 8) | x
    return a


def digest(seq):
    h = 7
    i = 0
    while len(seq) - i >= 8:
        h = (h * 6364136223846793005 + _pack(seq[i:i + 8]) + 1) & HMASK
        i += 8
    return (h * 6364136223846793005 + _pack(seq[i:]) + 1) & HMASK


def _u(u):
    # the model's key is the identifier itself: the spelling the caller used does not exist there, and an identifier nobody
    # uses behaves like a generated one
    return "UFresh" if not u or u.get("fresh") else f"(USame {u['same']})"


def _op_term(op):
    t = op["op"]
    if t == "create":
        return f"OCreate {op['ws']} {'true' if op['obj'] else 'false'} {op['parent']} {_u(op['u'])}"
    if t == "data":
        return f"OData {op['o']} {_u(op['u'])}"
    if t == "pg":
        return f"OPg {op['o']} {clist(str(d) for d in op['ds'])} {_u(op['u'])}"
    if t == "copy":
        return f"OCopy {op['e']} {op['t']}"
    if t == "remove":
        return f"ORemove {op['e']}"
    if t == "die":
        return f"ODie {clist(str(e) for e in op['es'])}"
    if t == "list":
        return f"OList {op['ws']} {KCOQ[op['k']]}"
    if t == "lookup":
        return f"OLookup {op['ws']} {op['e']}"
    raise ValueError(t)


def _hist_term(case):
    return clist(_op_term(op) for op in case["ops"])


def case_term(case, obs):
    if "dtype" in case:
        return None  # data types: oracle only
    if "per_op" not in obs or "final" not in obs:
        return "false"
    if any(not 0 <= x < 4000 for x in obs["final"]):
        return "false"
    return "agree cur %s [%s] [%s]" % (_hist_term(case), ";".join("%d%%N" % digest(s) for s in obs["per_op"]),
                                   ";".join(str(x) for x in obs["final"]))


def model_term(case):
    if "dtype" in case:
        return None
    return "(let (l, w) := run_obs cur init %s in (l, final_trace w))" % _hist_term(case)


# ----------------------------------------------------------------------------- oracle (property text)
def _decode(ser):
    """Parse one per-operation observation back into a structure (inverse of _observe)."""
    it = iter(ser)

    def nx():
        return next(it)

    out, n = nx(), nx()
    insts = []
    for _ in range(n):
        rep, alive, kind, ws = nx(), nx(), nx(), nx()
        ch = [nx() for _ in range(nx())]
        pgs = [nx() for _ in range(nx())]
        props = [nx() for _ in range(nx())]
        ty = nx()
        insts.append({"rep": rep, "alive": bool(alive), "kind": KINDS[kind], "ws": ws, "ch": ch, "pgs": pgs, "props": props, "type": ty})
    regs = []
    for ws in (0, 1):
        d = {}
        for kind in KINDS:
            rows = []
            for _ in range(nx()):
                rows.append((nx(), bool(nx()), nx()))
            d[kind] = rows
        regs.append(d)
    flats = []
    for ws in (0, 1):
        d = {}
        for kind in ("group", "object", "data"):
            d[kind] = [nx() for _ in range(nx())]
        flats.append(d)
    links = []
    for ws in (0, 1):
        links.append([[nx(), nx(), nx(), nx()] for _ in range(nx())])
    return {"out": out, "insts": insts, "regs": regs, "flat": flats, "links": links}


def oracle(case, obs):
    if "crash" in obs:
        return [{"key": "driver-crash", "what": obs["crash"][:300]}]
    if "dtype" in case:
        return _oracle_dtype(case["dtype"], obs)
    if "per_op" not in obs:
        return [{"key": "driver-incomplete", "what": json.dumps(obs)[:300]}]
    fails, seen = [], set()

    def add(key, what):
        if key not in seen:
            seen.add(key)
            fails.append({"key": key, "what": what[:400]})

    prev = None
    registered = set()  # instances whose creation succeeded
    for i, (op, ser) in enumerate(zip(case["ops"], obs["per_op"])):
        o = _decode(ser)
        insts = o["insts"]
        n0 = len(prev["insts"]) if prev else 4
        new = list(range(n0, len(insts)))
        t = op["op"]
        if o["out"] == 9:
            add("op-raised", f"op {i} {op}: {obs.get('errors')}")
        if o["out"] == 0:
            registered |= {k for k in new}
        elif o["out"] in (1, 3):
            # a refused / failed creation: everything created before the failure inside the same call stays registered
            for k in new:
                ws, kind = insts[k]["ws"], insts[k]["kind"]
                if any(a and x == k for _, a, x in o["regs"][ws][kind]):
                    registered.add(k)
        if prev is None:
            registered |= {0, 1, 2, 3}
        # ---- no two live entities of a workspace share an identifier (entities and property groups; types among types)
        for ws in (0, 1):
            by_uid = {}
            for k, r in enumerate(insts):
                if r["alive"] and r["ws"] == ws and k in registered:
                    by_uid.setdefault((r["rep"], r["kind"] == "type"), []).append(k)
            for (rep, _), ks in by_uid.items():
                if len(ks) > 1:
                    kinds = sorted({insts[k]["kind"] for k in ks})
                    if len(kinds) == len(ks):
                        add("cross-kind-identifier-shared", f"op {i}: live instances {ks} of kinds {kinds} share identifier #{rep} in workspace {ws}")
                    else:
                        add("same-kind-identifier-shared", f"op {i}: live instances {ks} share identifier #{rep} in workspace {ws}")
        # ---- a refused request has no side effects
        if o["out"] == 1 and prev is not None:
            def strip(x, upto):
                return {"insts": [(r["alive"], r["ch"], r["pgs"], r["props"]) for r in x["insts"][:upto]], "flat": x["flat"], "links": x["links"]}
            if strip(o, n0) != strip(prev, n0):
                stuck = [k for k in new if any(k in r["ch"] for r in insts)]
                if not stuck and o["links"] != prev["links"]:
                    add("refused-creation-changed-file-links", f"op {i} {op}: refused, yet the child links stored in the file changed")
                add("refused-creation-left-in-parent" if stuck else "refused-changed-state",
                    f"op {i} {op}: refused, yet instances {stuck} stay in a parent's children / state changed")
        # ---- a refused request leaves the file alone (PropertyGroups entries under the object nodes)
        sg = obs.get("stored_groups")
        if o["out"] == 1 and sg and i > 0 and sg[i] != sg[i - 1]:
            add("refused-creation-written-to-file", f"op {i} {op}: refused, yet the stored property groups changed: {sg[i - 1]} -> {sg[i]}")
        # ---- look-up returns the owner
        if t == "lookup" and prev is not None:
            e = op["e"]
            if e < len(insts):
                rep, ws = insts[e]["rep"], op["ws"]
                owners = [k for k, r in enumerate(insts) if r["alive"] and r["ws"] == ws and r["rep"] == rep and r["kind"] != "type" and k in registered]
                if o["out"] >= 10:
                    got = o["out"] - 10
                    if got not in owners:
                        add("lookup-returns-non-owner", f"op {i}: look-up of #{rep} in workspace {ws} returned {got}, owners {owners}")
                    elif len(owners) > 1:
                        add("cross-kind-identifier-shared", f"op {i}: look-up of #{rep} is ambiguous between {owners}")
                elif o["out"] == 2 and owners:
                    add("lookup-misses-owner", f"op {i}: look-up of #{rep} in workspace {ws} found nothing, owners {owners}")
        # ---- copies
        if t == "copy" and o["out"] == 0 and prev is not None:
            e, tg = op["e"], op["t"]
            src_ws, dst_ws = insts[e]["ws"], insts[tg]["ws"]
            created = [k for k in new if insts[k]["kind"] != "type"]
            before_reps = {(r["rep"]) for k, r in enumerate(prev["insts"]) if r["alive"] and r["ws"] == dst_ws and r["kind"] != "type" and k in registered}
            if src_ws == dst_ws:
                for k in created:
                    if insts[k]["rep"] != k:
                        add("same-ws-copy-reuses-identifier", f"op {i}: copy {k} within workspace {dst_ws} carries the identifier of instance {insts[k]['rep']}")
            else:
                # the copy, its data children and its groups correspond in order to the source's
                srcs = [e] + [c for c in prev["insts"][e]["ch"] if prev["insts"][c]["kind"] == "data"] + list(prev["insts"][e]["pgs"])
                if prev["insts"][e]["kind"] == "group":
                    srcs = [e]
                taken = set(before_reps)
                kinds_of = {}
                for kk, r in enumerate(prev["insts"]):
                    if r["alive"] and r["ws"] == dst_ws and r["kind"] != "type" and kk in registered:
                        kinds_of.setdefault(r["rep"], set()).add(r["kind"])
                for s, k in zip(srcs, created):
                    free = prev["insts"][s]["rep"] not in taken  # identifiers taken by the earlier parts of this very copy count
                    taken.add(insts[k]["rep"])
                    kinds_of.setdefault(insts[k]["rep"], set())
                    other_kind_only = insts[k]["kind"] not in kinds_of.get(prev["insts"][s]["rep"], set())
                    kinds_of[insts[k]["rep"]].add(insts[k]["kind"])
                    if not free and insts[k]["rep"] == prev["insts"][s]["rep"] and other_kind_only:
                        # the identifier is held by an instance of ANOTHER kind: each registry only knows its own kind
                        add("cross-kind-identifier-shared", f"op {i}: copy {k} of {s} keeps identifier #{insts[k]['rep']} held by another kind in workspace {dst_ws}")
                        continue
                    if free and insts[k]["rep"] != prev["insts"][s]["rep"]:
                        add("cross-ws-copy-drops-free-identifier", f"op {i}: copy {k} of {s} got a new identifier although #{prev['insts'][s]['rep']} was free in workspace {dst_ws}")
                    if not free and insts[k]["rep"] == prev["insts"][s]["rep"]:
                        add("cross-ws-copy-reuses-identifier", f"op {i}: copy {k} of {s} reuses identifier #{insts[k]['rep']} that is in use in workspace {dst_ws}")
        # ---- one type per class and workspace
        for ws in (0, 1):
            per = {}
            for k, r in enumerate(insts):
                if r["alive"] and r["ws"] == ws and r["kind"] in ("group", "object") and k in registered:
                    cls = "root" if k in (1, 3) else r["kind"]
                    per.setdefault(cls, set()).add(r["type"])
            for cls, ts in per.items():
                if len(ts) > 1:
                    add("several-types-for-one-class", f"op {i}: live {cls}s of workspace {ws} have types {sorted(ts)}")
        prev = o
    if obs.get("spelling"):
        add("identifier-not-normalised", "an identifier supplied in one of the accepted spellings is kept as given instead of as the "
            "identifier it denotes: " + "; ".join(obs["spelling"][:4]))
    for k, (status, _) in enumerate(obs.get("reopen", [])):
        if status != "ok":
            collided = seen & {"cross-kind-identifier-shared", "refused-creation-left-in-parent"}
            add("reopen-fails-after-identifier-collision" if collided else "reopen-fails", f"workspace {k} cannot be re-opened: {status}")
    return fails


def nontrivial(case, obs):
    if "dtype" in case:
        return True
    return any(op["op"] == "copy" or op.get("u") for op in case["ops"])


def histogram(cases, obs):
    h = {"ops": {}, "length": {}, "forced_collisions": 0, "outcomes": {}, "cross_ws_copies": 0}
    h["data_type_cases"] = sum(1 for c in cases if "dtype" in c)
    for c, o in zip(cases, obs):
        if "dtype" in c:
            continue
        L = str(len(c["ops"]) // 5 * 5)
        h["length"][L] = h["length"].get(L, 0) + 1
        for op in c["ops"]:
            h["ops"][op["op"]] = h["ops"].get(op["op"], 0) + 1
            if op.get("u"):
                h["forced_collisions"] += 1
        for ser in (o.get("per_op") or []):
            k = str(ser[0]) if ser[0] < 10 else "found"
            h["outcomes"][k] = h["outcomes"].get(k, 0) + 1
    return h
