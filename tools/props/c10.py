"""C10 — Read-only workspaces never change the file (workspace/workspace.py, shared/utils.py, ui_json/utils.py)."""
from __future__ import annotations

import json
import subprocess

from vlib import common as C
from vlib.common import cbool, clist, cnat, cstr

ID = "C10"
PROPERTIES_V = "theories/Properties/C10.v"
CASE_IMPORTS = ("From GV Require Import Prelude.Base Model.Mode.\nFrom GVgen Require Import Tables_IO.\n"
                "Require Import String.\nOpen Scope string_scope. Open Scope list_scope.\n"
                "Definition IOT : list row := Eval vm_compute in io_rows T_iocalls.")
ALLOWED_AXIOMS: list = []
REFUTED: list = []
PARTIAL = [
    "C10_readonly_no_write: 'the file' is the log of H5Writer routines that ran; that a handle opened 'r' cannot change the "
    "bytes otherwise is h5py's mode enforcement (trusted) and is observed by SHA-256 on every case",
    "C10_helpers_readonly: path2workspace / monitored_directory_copy as transcribed in Model/Mode.v; InputFile.read_ui_json "
    "is covered by the oracle only; the InputFile.data block that relies on fetch_active_workspace's DEFAULT mode is tied by the "
    "extracted default and call table (C10_helper_blocks_request_readonly, C10_default_block_readonly) and by the fetch_default / "
    "input_file_ws helper cases on closed and open workspaces built 'r' and 'r+'",
]
TRUSTED = [
    "Coq 8.16.1 kernel + vm_compute (table theorem, correspondence evaluation); no axioms (Print Assumptions: closed)",
    "tools/vlib/iotable.py: the ast extractor of T_iocalls / T_fetch / T_reader_mut, fetch_active_default and "
    "T_fetch_active_calls (regenerated from $VERIF_REPO on every run); "
    "cross-checked at run time: every traced _io_call must sit at a table row with the same routine and literal mode",
    "hand model coq/theories/Model/Mode.v of Workspace.{geoh5, open, close, __exit__, _io_call, save_as}, "
    "fetch_active_workspace, path2workspace, monitored_directory_copy; tied by running the code and the model on the same cases",
    "h5py/HDF5: a File opened 'r' refuses every modification; File.mode reports 'r' or 'r+'; shutil.copy copies bytes",
    "tools/vlib/{iofix,ioentries,iotrace,iodrive}.py: fixture builder, reflection of entry points, argument recipes, the tracing "
    "wrappers around Workspace._io_call and the H5Writer/H5Reader routines (delegating, installed in the driver process only), "
    "tools/props/c10.py (generator, oracle)",
    "entry points without a fixture instance or an argument recipe are listed in the evidence (histograms.not_driven), not driven",
]
ASSUMPTIONS = [
    "the file exists on disk and is not modified by another process during a case",
    "no operation re-opens the workspace in a writable mode on the caller's explicit request (open('r+'/'a'), "
    "fetch_active_workspace(mode='r+'/'a')); sequences that do are run for the model tie only and are not judged by the oracle",
    "reader routines do not modify the file (T_reader_mut = [] is checked; h5py enforces it for mode 'r')",
]
RULE = (
    "entry: every public setter/method found by reflection on Entity/EntityType/PropertyGroup/Workspace subclasses, called once "
    "on a fixture instance of a workspace opened mode='r' and once on an identical copy opened 'r+' (twin: tells whether the "
    "call writes); seq: 4-10 random operations (entry points, listing getters, close, open, fetch_active_workspace, save_as, "
    "path2workspace, monitored_directory_copy, gc) on one mode='r' workspace, ~25% with an explicit writable re-open or a held "
    "second handle (OSError fallback); helper: path2workspace, InputFile.read_ui_json, monitored_directory_copy, a bare `with fetch_active_workspace(ws):` "
    "(no mode argument) and InputFile(ui_json={geoh5: <Workspace object>}) from r / closed "
    "/ r+ sources, chained exports inside the monitoring directory under a stepped clock; span sequences: explicit writable spans "
    "followed by implicit re-opens, every read-only span hashed; fallback entries: workspace built 'r+' whose open fell back to "
    "'r' under a held handle.  non-trivial = the case reaches Workspace._io_call with a request for a writable mode"
)
LEVEL_TEXT = (
    "Proved in Coq (10 theorems, closed under the global context) for ALL operation sequences without an explicit writable re-open "
    "on a workspace built with mode 'r': the model's file (log of H5Writer routines that ran) is unchanged, the handle stays 'r' "
    "or closed, and every operation that contains a writer routine is refused (read-only error, or closed-file error when "
    "closed). Also: the constructor mode is invariant over any history; a handle of a workspace built 'r' becomes writable only "
    "by an explicit open(writable mode) -- this one under the premise close_fault = false (the final save inside close() does "
    "not itself raise); every step of a read-only span leaves the file unchanged. The hypothesis that the operations' "
    "_io_call's are gated is a theorem over the complete table of call sites extracted by ast from the current source on every "
    "run (vm_compute; row counts of the run are in coverage.tables; H5Reader free of mutating statements). Helpers "
    "path2workspace and monitored_directory_copy are modelled and proved read-only; the helper blocks that rely on the default mode of "
    "fetch_active_workspace resolve to 'r' (default and call table read off the source on every run) and are read-only on closed "
    "workspaces built with any mode. Partial: byte-level immutability rests on "
    "h5py's mode enforcement and is observed (SHA-256 before/after, geoh5.mode, exception kind) for every public mutating entry "
    "point found by reflection (each also run on an r+ twin, and a subset on a workspace whose open fell back to 'r'), random "
    "and span sequences, and helper cases; model and code are compared per case inside Coq, including the static site of every "
    "traced _io_call. Not modelled: the external h5repack step of close(), which file the workspace points at after save_as."
)
TECHNIQUE = "Coq proof (invariant over all op sequences) + vm_compute over an ast-extracted call-site table + differential runs"
DRIVE_TIMEOUT = 900

CONTROL = {"close", "finalize", "open", "save", "save_as", "create"}


# ----------------------------------------------------------------------------- regenerate
def regenerate(repo):
    from vlib import iotable

    info = iotable.regenerate(repo)
    info.pop("_raw", None)
    return info


# ----------------------------------------------------------------------------- generation
_REFLECT = {}


def reflect():
    """entry points and fixture classes of $VERIF_REPO's geoh5py (subprocess with the implementation's PYTHONPATH)"""
    key = str(C.REPO)
    if key not in _REFLECT:
        work = C.fresh_tmp("reflect-c10")
        p = subprocess.run(
            [C.PY, "-c", "import json,sys,warnings; warnings.simplefilter('ignore'); from vlib import iodrive; "
                         f"print('@@'+json.dumps(iodrive.reflect({str(work)!r})))"],
            env=C.impl_env(), cwd=str(C.VERIF / "tools"), capture_output=True, text=True, timeout=300)
        import shutil

        shutil.rmtree(work, ignore_errors=True)
        line = next((l for l in p.stdout.splitlines() if l.startswith("@@")), None)
        if line is None:
            raise RuntimeError("reflection failed: " + (p.stderr or p.stdout)[-800:])
        _REFLECT[key] = json.loads(line[2:])
    return _REFLECT[key]


def entry_cases(rng, tier, kinds=("setter", "method")):
    info = reflect()
    mros = info["mros"]
    labels = list(mros)
    cases = []
    for owner, member, kind in info["entries"]:
        if kind not in kinds:
            continue
        cands = [l for l in labels if owner in mros[l]]
        if not cands:
            cases.append({"kind": "entry", "target": None, "owner": owner, "member": member, "ekind": kind})
            continue
        pick = cands if tier == "thorough" else [cands[0]] + ([rng.choice(cands)] if len(cands) > 1 and rng.chance(12) else [])
        seen = set()
        for l in pick:
            if l in seen:
                continue
            seen.add(l)
            cases.append({"kind": "entry", "target": l, "owner": owner, "member": member, "ekind": kind})
            if member in ("copy", "copy_from_extent") and (tier == "thorough" or rng.chance(40)):
                cases.append({"kind": "entry", "target": l, "owner": owner, "member": member, "ekind": kind, "variant": "to_group"})
    return cases


MUTATORS = [
    ("pts", "Entity", "name", "setter"), ("pts", "Points", "vertices", "setter"), ("curve", "Curve", "cells", "setter"),
    ("pts", "ObjectBase", "add_data", "method"), ("pts", "EntityContainer", "copy", "method"),
    ("pts", "ObjectBase", "remove_children", "method"), ("curve", "ObjectBase", "remove_children", "method"),
    ("container", "Group", "copy", "method"), ("data_float", "NumericData", "values", "setter"),
    ("data_float", "Data", "copy", "method"), ("pts", "Entity", "metadata", "setter"), ("grid2d", "Grid2D", "u_count", "setter"),
    ("workspace", "Workspace", "remove_entity", "method"), ("workspace", "Workspace", "create_entity", "method"),
    ("pg", "PropertyGroup", "add_properties", "method"), ("type_float", "DataType", "units", "setter"),
    ("surf", "CellObject", "remove_cells", "method"), ("drillhole", "Drillhole", "add_data", "method"),
    ("dhgroup", "Entity", "name", "setter"), ("cdh", "Entity", "name", "setter"),   # (no Concatenator.copy here: the model's
    # number of concatenator groups is constant per case; the copy is driven as a single entry point) ("pts", "Entity", "parent", "setter"),
    ("pts", "ObjectBase", "add_comment", "method"), ("geoimage", "GeoImage", "image", "setter"),
]
READERS = [
    ("curve", "Curve", "cells", "getter"), ("pts", "Points", "vertices", "getter"), ("data_float", "NumericData", "values", "getter"),
    ("workspace", "Workspace", "fetch_children", "method"), ("pts", "Entity", "metadata", "getter"),
    ("workspace", "Workspace", "get_entity", "method"),
]


def _entry_op(t):
    return {"op": "entry", "target": t[0], "owner": t[1], "member": t[2], "ekind": t[3]}


def gen_seq(rng, explicit):
    n = rng.range(4, 10)
    ops = []
    for _ in range(n):
        k = rng.weighted([("mut", 38), ("read", 10), ("list", 10), ("close", 7), ("open", 9), ("fa", 8), ("save_as", 3),
                          ("p2w", 3), ("mon", 4), ("gc", 8)])
        if k == "mut":
            ops.append(_entry_op(rng.choice(MUTATORS)))
        elif k == "read":
            ops.append(_entry_op(rng.choice(READERS)))
        elif k == "list":
            ops.append({"op": "list", "kind": rng.choice(["objects", "data", "groups", "types", "property_groups"])})
        elif k == "close":
            ops.append({"op": "close"})
        elif k == "open":
            m = rng.weighted([(None, 60), ("r", 25)] + ([("r+", 40), ("a", 10)] if explicit else []))
            ops.append({"op": "open", "mode": m})
        elif k == "fa":
            m = rng.weighted([("r", 70)] + ([("r+", 40), ("a", 10)] if explicit else []))
            body = rng.choice(MUTATORS if rng.chance(70) else READERS)
            ops.append(dict(_entry_op(body), op="fetch_active", mode=m))
        elif k == "save_as":
            ops.append({"op": "save_as"})
        elif k == "p2w":
            ops.append({"op": "path2workspace"})
        elif k == "mon":
            ops.append({"op": "monitored_copy", "target": rng.choice(["pts", "curve", "container", "grid2d"])})
        else:
            ops.append({"op": "gc"})
    return ops


def gen_span_seq(rng):
    """history of a mode-'r' workspace with one or two explicit writable spans (open('r+'/'a') ... close, or a
    fetch_active_workspace('r+'/'a') block) followed by implicit re-opens and writes that must be refused again"""
    ops = [_entry_op(rng.choice(MUTATORS if rng.chance(50) else READERS)) for _ in range(rng.range(0, 2))]
    for _ in range(rng.range(1, 2)):
        wm = rng.choice(["r+", "r+", "a"])
        if rng.chance(50):
            ops.append(dict(_entry_op(rng.choice(MUTATORS)), op="fetch_active", mode=wm))
        else:
            ops += [{"op": "close"}, {"op": "open", "mode": wm}]
            ops += [_entry_op(rng.choice(MUTATORS)) for _ in range(rng.range(0, 2))]
            if rng.chance(80):
                ops.append({"op": "close"})
        back = rng.weighted([("open", 45), ("open_r", 10), ("fa_r", 15), ("mon", 10), ("save_as", 10), ("p2w", 10)])
        if back == "open":
            ops.append({"op": "open", "mode": None})
        elif back == "open_r":
            ops.append({"op": "open", "mode": "r"})
        elif back == "fa_r":
            ops.append(dict(_entry_op(rng.choice(MUTATORS)), op="fetch_active", mode="r"))
        elif back == "mon":
            ops.append({"op": "monitored_copy", "target": rng.choice(["pts", "curve"])})
        elif back == "save_as":
            ops.append({"op": "save_as"})
        else:
            ops.append({"op": "path2workspace"})
        ops.append(_entry_op(rng.choice(MUTATORS)))
        if rng.chance(50):
            ops.append({"op": "list", "kind": rng.choice(["objects", "data", "types"])})
        if rng.chance(40):
            ops += [{"op": "close"}, {"op": "open", "mode": None}, _entry_op(rng.choice(MUTATORS))]
    return ops


def generate(rng, tier):
    cases = entry_cases(rng, tier)
    # the same entry points on a workspace that asked for "r+" and fell back to "r" (file held open by another handle)
    # (close/open/save_as/create move the workspace to another handle or file: not meaningful under a held handle)
    fb = [dict(c, ctor="fallback") for c in cases if c["target"] is not None and "variant" not in c
          and not (c["owner"] == "Workspace" and c["member"] in CONTROL)
          and (c["owner"] in ("DataType", "EntityType", "Workspace", "PropertyGroup")
               or (c["target"], c["owner"], c["member"], c["ekind"]) in set(MUTATORS))]
    rest = [dict(c, ctor="fallback") for c in cases if c["target"] is not None and "variant" not in c and c["ekind"] == "setter"]
    fb += rng.sample(rest, 15 if tier == "quick" else len(rest))
    seen = set()
    for c in fb:
        k = (c["target"], c["owner"], c["member"], c["ekind"])
        if k not in seen:
            seen.add(k)
            cases.append(c)
    for _ in range(14 if tier == "quick" else 400):
        cases.append({"kind": "seq", "lock": False, "ops": gen_span_seq(rng)})
    cases.append({"kind": "seq", "lock": False, "ops": [
        dict(_entry_op(("pts", "Entity", "name", "setter")), op="fetch_active", mode="r+"), {"op": "open", "mode": None},
        _entry_op(("pts", "Entity", "name", "setter")), {"op": "list", "kind": "objects"}, {"op": "close"}]})
    cases.append({"kind": "seq", "lock": False, "ops": [
        {"op": "close"}, {"op": "open", "mode": "r+"}, _entry_op(("pts", "ObjectBase", "add_data", "method")), {"op": "close"},
        {"op": "open", "mode": None}, _entry_op(("pts", "Points", "vertices", "setter")), {"op": "close"},
        dict(_entry_op(("curve", "Curve", "cells", "setter")), op="fetch_active", mode="a"), {"op": "open", "mode": None},
        _entry_op(("curve", "Curve", "cells", "setter"))]})
    for n in (2, 3):
        cases.append({"kind": "helper", "which": "monitored_chain", "src_state": f"x{n}", "target": "pts", "n": n})
    nseq = 30 if tier == "quick" else 1500
    # fixed sequences: a failed removal leaves a dead referent, the listing getter then has to sweep it (a write)
    cases.append({"kind": "seq", "lock": False, "ops": [
        _entry_op(("type_float", "EntityType", "create", "method")), {"op": "gc"}, {"op": "list", "kind": "types"},
        {"op": "list", "kind": "types"}, {"op": "list", "kind": "objects"}, {"op": "close"}, {"op": "list", "kind": "types"},
        {"op": "open", "mode": None}, {"op": "list", "kind": "types"}]})
    cases.append({"kind": "seq", "lock": False, "ops": [
        _entry_op(("pts", "ObjectBase", "remove_children", "method")), {"op": "gc"}, {"op": "list", "kind": "data"},
        {"op": "list", "kind": "objects"}, {"op": "close"}, {"op": "list", "kind": "data"}, {"op": "open", "mode": None},
        {"op": "list", "kind": "data"}, _entry_op(("pts", "Entity", "name", "setter"))]})
    cases.append({"kind": "seq", "lock": False, "ops": [
        {"op": "close"}, dict(_entry_op(("pts", "Entity", "name", "setter")), op="fetch_active", mode="r"),
        {"op": "monitored_copy", "target": "pts"}, {"op": "open", "mode": None}, {"op": "save_as"},
        _entry_op(("pts", "ObjectBase", "add_data", "method")), {"op": "path2workspace"}]})
    cases.append({"kind": "seq", "lock": True, "ops": [
        {"op": "close"}, {"op": "open", "mode": "r+"}, _entry_op(("pts", "Entity", "name", "setter")),
        dict(_entry_op(("pts", "ObjectBase", "add_data", "method")), op="fetch_active", mode="r+")]})
    for _ in range(nseq):
        explicit = rng.chance(35)
        lock = explicit and rng.chance(40)
        ops = gen_seq(rng, explicit)
        if lock:   # the held handle is on the original file only; after save_as the workspace points at an unlocked copy
            ops = [o for o in ops if o["op"] != "save_as"]
        cases.append({"kind": "seq", "lock": lock, "ops": ops})
    for how in ("ctor", "setter"):
        cases.append({"kind": "helper", "which": "repack_readonly", "src_state": how, "target": "pts"})
    allst = ["r", "closed_rp", "rp", "closed_r"]
    for which, states in (("path2workspace", ["na"]), ("read_ui_json", ["na"]), ("monitored_copy", allst),
                          ("fetch_default", allst), ("input_file_ws", allst)):
        for st in states:
            for tgt in (["pts", "container", "curve"] if which in ("monitored_copy", "fetch_default") else ["pts"]):
                cases.append({"kind": "helper", "which": which, "src_state": st, "target": tgt})
    return cases


# ----------------------------------------------------------------------------- implementation driver
def drive_one(case, work):
    import warnings

    warnings.simplefilter("ignore")
    from vlib import iodrive

    if case["kind"] == "entry":
        if case["target"] is None:
            return {"not_driven": "no fixture instance of " + case["owner"]}
        if case.get("ctor") == "fallback":
            # built with the default mode "r+" while another handle holds the file: open() falls back to "r"
            r = iodrive.run_entry(work, "r+", case, tag="fb", hold=True)
            if "not_driven" in r:
                return {"not_driven": r["not_driven"]}
            r.pop("digest", None)
            if r.get("handle_before") != "r":
                return {"not_driven": f"no fallback: handle {r.get('handle_before')}"}
            return {"r": r, "rw": None}
        rw = iodrive.run_entry(work, "r+", case, tag="tw")
        if "not_driven" in rw:
            return {"not_driven": rw["not_driven"]}
        r = iodrive.run_entry(work, "r", case, tag="ro")
        if "not_driven" in r:
            return {"not_driven": r["not_driven"]}
        rw["changed"] = rw.pop("digest") != iodrive.baseline_digest(work)
        return {"r": r, "rw": rw}
    if case["kind"] == "seq":
        return drive_seq(case, work)
    return drive_helper(case, work)


def drive_seq(case, work):
    import gc
    import os
    import shutil

    import h5py
    from geoh5py.shared.utils import fetch_active_workspace
    from geoh5py.ui_json.utils import monitored_directory_copy, path2workspace
    from vlib import ioentries, iodrive, iofix, iotrace

    path, log = iodrive.fresh_copy(work, "seq")
    tmp = os.path.join(work, f"tmpseq_{os.getpid()}")
    shutil.rmtree(tmp, ignore_errors=True)
    os.makedirs(tmp)
    sha0 = iofix.sha256(path)
    holder = h5py.File(path, "r") if case.get("lock") else None
    ws = iodrive.open_ws(path, "r")
    out = {"fixture_problems": log, "ops": [], "handle0": iotrace.handle_state(ws), "ncat": iodrive.n_concatenators(ws)}
    explicit = False
    n_saved = 0
    try:
        for op in case["ops"]:
            rec = {}
            k = op["op"]
            T = iofix.derived_targets(ws)
            thunk = None
            try:
                if k in ("entry", "fetch_active"):
                    if iotrace.handle_state(ws) == "closed" and k == "entry":
                        # operands cannot be located on a closed workspace through the API; use the cached tree
                        pass
                    try:
                        inner = ioentries.prepare(ws, T, op, tmp)
                    except ioentries.NotDriven as e:
                        rec["not_driven"] = str(e)
                        inner = None
                    except BaseException as e:  # noqa: BLE001
                        rec["not_driven"] = f"prepare raised {type(e).__name__}"
                        inner = None
                    if inner is not None and k == "fetch_active":
                        def thunk(inner=inner, m=op["mode"]):
                            with fetch_active_workspace(ws, mode=m):
                                inner()
                        if op["mode"] != "r":
                            explicit = True
                    elif inner is not None:
                        thunk = inner
                elif k == "list":
                    rec["dead"] = iodrive.dead_count(ws, op["kind"])
                    thunk = lambda kind=op["kind"]: getattr(ws, kind)  # noqa: E731
                elif k == "close":
                    thunk = ws.close
                elif k == "open":
                    if op["mode"] in ("r+", "a"):
                        explicit = True
                    thunk = lambda m=op["mode"]: ws.open(mode=m)  # noqa: E731
                elif k == "save_as":
                    n_saved += 1
                    thunk = lambda n=n_saved: ws.save_as(os.path.join(tmp, f"saved{n}.geoh5"))  # noqa: E731
                elif k == "path2workspace":
                    if iotrace.handle_state(ws) == "r+":
                        # HDF5 shares one file object per process: a second open of a file this process holds writable is
                        # writable too whatever mode is asked -- outside the property (the caller's own writable span)
                        rec["not_driven"] = "file held writable by this process"
                    else:
                        thunk = lambda: path2workspace(str(ws.h5file))  # noqa: E731
                elif k == "monitored_copy":
                    ent = T[op["target"]]()
                    if ent is None:
                        rec["not_driven"] = "target missing"
                    else:
                        thunk = lambda ent=ent: monitored_directory_copy(tmp, ent)  # noqa: E731
                        del ent
                elif k == "gc":
                    thunk = gc.collect
            finally:
                del T
            rec["handle_before"] = iotrace.handle_state(ws)
            rec["explicit_op"] = (k == "open" and op["mode"] in ("r+", "a")) or (k == "fetch_active" and op["mode"] != "r")
            cur = str(ws.h5file)
            # a read-only span: the handle is "r" or closed and the operation is not an explicit writable re-open
            sha_b = iofix.sha256(cur) if rec["handle_before"] in ("r", "closed") and not rec["explicit_op"] else None
            if thunk is not None:
                rec.update(iodrive.call_traced(thunk, ws))
            else:
                rec.update({"exc": None, "msg": "", "calls": [], "entries": []})
            del thunk
            rec["handle_after"] = iotrace.handle_state(ws)
            rec["explicit_so_far"] = explicit
            rec["sha_same"] = (iofix.sha256(cur) == sha_b) if sha_b is not None else None
            out["ops"].append(rec)
    finally:
        final_file = str(ws.h5file)
        try:
            ws.close()
        except BaseException as e:  # noqa: BLE001
            out["close_exc"] = iotrace.exc_kind(e)
        if ws._geoh5:  # noqa: SLF001
            ws._geoh5.close()  # noqa: SLF001
        if holder is not None:
            holder.close()
    out["explicit"] = explicit
    out["sha_same"] = iofix.sha256(path) == sha0
    out["saved_same"] = all(iofix.sha256(os.path.join(tmp, f)) == sha0 for f in os.listdir(tmp) if f.startswith("saved")) \
        if not explicit else None
    out["nfiles"] = iotrace.n_open_files()
    out["final_file_is_copy"] = os.path.realpath(final_file) != os.path.realpath(path)
    del ws
    gc.collect()
    shutil.rmtree(tmp, ignore_errors=True)
    os.remove(path)
    return out


def drive_helper(case, work):
    import gc
    import json as js
    import os
    import shutil
    from copy import deepcopy

    from geoh5py.ui_json import InputFile, templates
    from geoh5py.ui_json.constants import default_ui_json
    from geoh5py.ui_json.utils import monitored_directory_copy, path2workspace
    from vlib import iodrive, iofix, iotrace

    path, log = iodrive.fresh_copy(work, "hlp")
    tmp = os.path.join(work, f"tmphlp_{os.getpid()}")
    shutil.rmtree(tmp, ignore_errors=True)
    os.makedirs(tmp)
    out = {"fixture_problems": log}
    which = case["which"]
    try:
        if which == "path2workspace":
            sha0 = iofix.sha256(path)
            box = {}
            d = iodrive.call_traced(lambda: box.setdefault("ws", path2workspace(path)))
            w = box.get("ws")
            out.update(d)
            out["handle_after"] = iotrace.handle_state(w) if w is not None else None
            out["ctor_mode"] = getattr(w, "_mode", None)
            out["sha_same"] = iofix.sha256(path) == sha0
        elif which == "monitored_chain":
            # exports chained through the monitoring directory: the file exported first is opened read-only and is itself the
            # source of the next exports into the same directory.  The clock the helper sees advances 0.1 s per reading, so the
            # outcome does not depend on how fast this machine is.
            from unittest import mock

            import geoh5py.ui_json.utils as U

            mon = os.path.join(tmp, "mon")
            os.makedirs(mon)
            clock = {"t": 1700000000.0}

            def fake_time():
                clock["t"] += 0.1
                return clock["t"]

            patches = [mock.patch("time.time", fake_time)]
            if hasattr(U, "time") and callable(getattr(U, "time")):
                patches.append(mock.patch.object(U, "time", fake_time))
            ws0 = iodrive.open_ws(path, "r")
            ent0 = iofix.locate(ws0, case["target"])
            for p_ in patches:
                p_.start()
            try:
                first = monitored_directory_copy(mon, ent0)
                ws0.close()
                del ent0
                ws1 = iodrive.open_ws(first, "r")
                ent1 = iofix.locate(ws1, case["target"])
                sha0, ino0 = iofix.sha256(first), os.stat(first).st_ino
                out["handle_before"] = iotrace.handle_state(ws1)
                out["ctor_mode"] = ws1._mode  # noqa: SLF001
                made = [first]

                def chain():
                    for _ in range(case["n"]):
                        made.append(monitored_directory_copy(mon, ent1))

                d = iodrive.call_traced(chain, ws1)
            finally:
                for p_ in patches:
                    p_.stop()
            out.update(d)
            out["handle_after"] = iotrace.handle_state(ws1)
            out["sha_same"] = iofix.sha256(first) == sha0
            out["inode_same"] = os.stat(first).st_ino == ino0
            out["distinct_exports"] = len({os.path.realpath(m) for m in made})
            out["files_in_dir"] = len([f for f in os.listdir(mon) if f.endswith(".geoh5")])
            out["expected_exports"] = case["n"] + 1
            ws1.close()
            del ws1, ent1, ws0
        elif which == "repack_readonly":
            # `repack=True` on a read-only workspace: close() hands the file to the external h5repack tool and replaces it.
            # h5repack is not installed here; a stand-in on PATH makes the call observable (it copies and appends one byte)
            from geoh5py import Workspace

            stub = os.path.join(tmp, "bin")
            os.makedirs(stub)
            with open(os.path.join(stub, "h5repack"), "w") as f:
                f.write('#!/bin/sh\n# stand-in for: h5repack --native SRC DST\ncp "$2" "$3" && printf x >> "$3"\n')
            os.chmod(os.path.join(stub, "h5repack"), 0o755)
            old_path = os.environ.get("PATH", "")
            os.environ["PATH"] = stub + os.pathsep + old_path
            try:
                sha0, ino0 = iofix.sha256(path), os.stat(path).st_ino
                if case["src_state"] == "ctor":
                    ws = Workspace(path, mode="r", repack=True)
                else:
                    ws = Workspace(path, mode="r")
                    ws.repack = True
                out["handle_before"] = iotrace.handle_state(ws)
                d = iodrive.call_traced(ws.close, ws)
                out.update(d)
                out["handle_after"] = iotrace.handle_state(ws)
                out["ctor_mode"] = ws._mode  # noqa: SLF001
                out["sha_same"] = iofix.sha256(path) == sha0
                out["inode_same"] = os.stat(path).st_ino == ino0
                del ws
            finally:
                os.environ["PATH"] = old_path
        elif which == "read_ui_json":
            ws = iodrive.open_ws(path, "r")
            pts = iofix.locate(ws, "pts")
            uid, duid = pts.uid, next(c.uid for c in pts.children if c.name == "f")
            ws.close()
            del ws, pts
            ui = deepcopy(default_ui_json)
            ui["geoh5"] = path
            ui["object"] = templates.object_parameter(value="{" + str(uid) + "}")
            ui["data"] = templates.data_parameter(parent="object", value="{" + str(duid) + "}")
            uj = os.path.join(tmp, "in.ui.json")
            with open(uj, "w") as f:
                js.dump({k: v for k, v in ui.items() if v is not None}, f, default=lambda o: "{" + str(o) + "}")
            sha0 = iofix.sha256(path)
            box = {}
            d = iodrive.call_traced(lambda: box.setdefault("f", InputFile.read_ui_json(uj)))
            out.update(d)
            ifile = box.get("f")
            g = getattr(ifile, "geoh5", None) if ifile is not None else None
            out["handle_after"] = iotrace.handle_state(g) if g is not None else None
            out["ctor_mode"] = getattr(g, "_mode", None)
            out["promoted"] = type(ifile.data["object"]).__name__ if ifile is not None else None
            out["sha_same"] = iofix.sha256(path) == sha0
        else:
            st = case["src_state"]
            mode = "r" if st in ("r", "closed_r") else "r+"
            ws = iodrive.open_ws(path, mode)
            ent = iofix.locate(ws, case["target"])
            if st.startswith("closed"):
                ws.close()
            if mode == "r+":
                ws.geoh5.flush() if not st.startswith("closed") else None
            sha0 = iofix.sha256(path) if st != "rp" else None
            out["handle_before"] = iotrace.handle_state(ws)
            out["ctor_mode"] = ws._mode  # noqa: SLF001
            if which == "fetch_default":
                # `with fetch_active_workspace(ws):` WITHOUT a mode argument around one read: the helper's default must be "r"
                from geoh5py.shared.utils import fetch_active_workspace

                euid = ent.uid

                def thunk():
                    with fetch_active_workspace(ws) as w_:
                        return w_.fetch_metadata(euid)
            elif which == "input_file_ws":
                # a Workspace OBJECT (not a path) handed to InputFile as the ui.json's geoh5 value: the data setter promotes and
                # validates inside `fetch_active_workspace(self._geoh5)` (default mode)
                ui = deepcopy(default_ui_json)
                ui["geoh5"] = ws
                ui["object"] = templates.object_parameter(value=ent.uid)

                def thunk():
                    return InputFile(ui_json=ui).data
            else:
                def thunk():
                    return monitored_directory_copy(tmp, ent)
            d = iodrive.call_traced(thunk, ws)
            out.update(d)
            out["handle_after"] = iotrace.handle_state(ws)
            out["sha_same"] = (iofix.sha256(path) == sha0) if sha0 is not None else None
            out["copied"] = [f for f in os.listdir(tmp) if f.endswith(".geoh5")] != []
            ws.close()
            del ws, ent
    finally:
        gc.collect()
        out["nfiles"] = iotrace.n_open_files()
        shutil.rmtree(tmp, ignore_errors=True)
        if os.path.exists(path):
            os.remove(path)
    return out


# ----------------------------------------------------------------------------- Coq case terms
MODES = {"r": "R", "r+": "RW", "a": "A"}


def c_handle(h):
    return "Closed" if h == "closed" else f"(Open {MODES[h]})"


def c_call(c):
    fn, mode, _file, _line, _h, outc = c[:6]
    fails = outc not in ("ok", "ReadOnly", "Closed")
    return ("{| c_fn := %s; c_writer := %s; c_req := %s; c_fails := %s; c_repack := %s |}"
            % (cstr(fn), cbool(fn.startswith("H5Writer.")), MODES.get(mode, "R"), cbool(fails), cbool(bool(c[6]) if len(c) > 6 else False)))


def c_calls(calls):
    return clist(c_call(c) for c in calls)


RP_MARK = '{| c_fn := "<repack flag set outside _io_call>"; c_writer := false; c_req := R; c_fails := false; c_repack := true |}'


def c_calls_rp(rec, calls=None):
    """the calls of one operation; when the operation set Workspace.repack in Python code outside any _io_call (concatenated
    attributes edited in memory -- also when the write that follows is refused) a pseudo reader call carries the flag into
    the model; it is placed first (the flag only matters to the next close)"""
    calls = rec.get("calls", []) if calls is None else calls
    items = [c_call(c) for c in calls]
    if (rec.get("repack_after") and not rec.get("repack_before") and not any(len(c) > 6 and c[6] for c in calls)
            and rec.get("handle_before") not in (None, "closed")):
        items.insert(0, RP_MARK)
    return clist(items)


def c_body_rp(rec):
    """body of a fetch_active_workspace block (calls not issued by the helper's own close), with the repack marker when the body
    set the flag outside _io_call: seen either in the flag afterwards or in the refresh the helper's closing close() performed"""
    body = _body_calls(rec)
    items = [c_call(c) for c in body]
    refreshed = any(len(c) > 7 and c[7] and c[0] == "H5Writer.update_field" for c in rec.get("calls", []))
    if (not rec.get("repack_before")) and not any(len(c) > 6 and c[6] for c in body) and (rec.get("repack_after") or refreshed):
        items.insert(0, RP_MARK)
    return clist(items)


def c_sites(calls):
    seen, out = set(), []
    for c in calls:                       # every distinct (site, routine, mode) once
        k = (c[2], c[3], c[0], c[1])
        if k not in seen:
            seen.add(k)
            out.append("(%s, %s, %s)" % (cstr(c[2]), C.cN(c[3]), c_call(c)))
    return clist(out)


def c_err(exc, calls):
    if exc is None:
        return "None"
    if exc == "ReadOnly":
        return "(Some EReadOnly)"
    if exc == "Closed":
        return "(Some EClosed)"
    if calls and calls[-1][5] == exc:
        return "(Some EFail)"
    return "None"          # an exception that does not come from the file layer: the model's io part ran to the end


def c_log(entries):
    return clist(cstr(e[0]) for e in entries if e[0].startswith("H5Writer.") and e[2] == "ok")


def op_term(op, rec):
    """model operation for one driven operation + the calls whose sites are checked"""
    calls = rec.get("calls", [])
    k = op.get("op", "entry")
    if k == "entry":
        m = op["member"]
        if op["owner"] == "Workspace" and m in ("close", "finalize"):
            return "Close"
        if op["owner"] == "Workspace" and m == "open":
            return "(OpenM None)"
        if op["owner"] == "Workspace" and m in ("save", "save_as"):
            return "SaveAs"
        return f"(Calls {c_calls_rp(rec, calls)})"
    if k == "list":
        return f"(List_ {cnat(rec.get('dead', 0))})"
    if k == "close":
        return "Close"
    if k == "open":
        return "(OpenM %s)" % ("None" if op["mode"] is None else f"(Some {MODES[op['mode']]})")
    if k == "fetch_active":
        return f"(FetchActive {MODES[op['mode']]} {c_body_rp(rec)})"
    if k == "save_as":
        return "SaveAs"
    if k == "path2workspace":
        return "Path2Workspace"
    if k == "monitored_copy":
        return f"(MonitoredCopy {c_body_rp(rec)})"
    return "(Calls [])"


def _body_calls(rec):
    """calls of the body of a fetch_active_workspace block: the calls issued by the helper's own close() (refresh of concatenator
    groups, final save) belong to the model's close, not to the body (flag recorded by the tracer from the call stack)"""
    return [c for c in rec.get("calls", []) if not (len(c) > 7 and c[7])]


def case_term(case, obs):
    if "not_driven" in obs:
        return None
    if case["kind"] == "entry":
        r = obs["r"]
        op = op_term(case, r)
        if case.get("ctor") == "fallback":
            return ("agree_run (Open R) RW true 1 [%s] [%s] [%s] %s && sites_ok IOT %s"
                    % (op, c_err(r["exc"], r["calls"]), c_handle(r["handle_after"]), c_log(r["entries"]), c_sites(r["calls"])))
        return ("agree_run (Open R) R false 1 [%s] [%s] [%s] %s && sites_ok IOT %s"
                % (op, c_err(r["exc"], r["calls"]), c_handle(r["handle_after"]), c_log(r["entries"]), c_sites(r["calls"])))
    if case["kind"] == "seq":
        ops, outs, hs, log, sites = [], [], [], [], []
        for op, rec in zip(case["ops"], obs["ops"]):
            if (rec.get("repack_after") and not rec.get("repack_before") and rec.get("handle_before") == "closed"
                    and op["op"] == "entry" and not any(len(c) > 6 and c[6] for c in rec["calls"])):
                # the flag was set in memory on a closed workspace (the write that follows is refused): no file access involved
                ops.append("MemRepack")
                outs.append("None")
                hs.append("Closed")
            if "not_driven" in rec:
                ops.append("(Calls [])")
            else:
                ops.append(op_term(op, rec))
            outs.append(c_err(rec["exc"], rec["calls"]))
            hs.append(c_handle(rec["handle_after"]))
            log += [e for e in rec["entries"]]
            sites += rec["calls"]
        return ("agree_run %s R %s %s %s %s %s %s && sites_ok IOT %s"
                % (c_handle(obs["handle0"]), cbool(bool(case.get("lock"))), cnat(obs.get("ncat", 1)), clist(ops), clist(outs), clist(hs), c_log(log), c_sites(sites)))
    # helpers
    which = case["which"]
    if which == "monitored_chain":
        return ("agree_run %s R false 0 [MonitoredCopy %s] [%s] [%s] %s && sites_ok IOT %s"
                % (c_handle(obs["handle_before"]), c_calls(_body_calls(obs)), c_err(obs["exc"], obs["calls"]),
                   c_handle(obs["handle_after"]), c_log(obs["entries"]), c_sites(obs["calls"])))
    if which == "repack_readonly":
        return ("agree_run %s R false 1 [Close] [%s] [%s] %s && sites_ok IOT %s"
                % (c_handle(obs["handle_before"]), c_err(obs["exc"], obs["calls"]), c_handle(obs["handle_after"]),
                   c_log(obs["entries"]), c_sites(obs["calls"])))
    if which in ("path2workspace", "read_ui_json"):
        # a workspace object of its own: built with mode "r" (open + reads), closed; read_ui_json then re-opens it through
        # fetch_active_workspace(mode="r") for the promotion and closes it again
        hs = {c[4] for c in obs["calls"]}
        if obs["exc"] is not None or not hs <= {"r"}:
            return "false"
        return ("agree_run Closed R false 1 [OpenM None; Calls %s; Close] [None; None; None] [Open R; Open R; %s] %s && sites_ok IOT %s"
                % (c_calls(obs["calls"]), c_handle(obs["handle_after"]), c_log(obs["entries"]), c_sites(obs["calls"])))
    dm = MODES[obs["ctor_mode"]]
    # fetch_default / input_file_ws: a fetch_active_workspace block with the DEFAULT mode, which the model takes to be R
    opn = "MonitoredCopy" if which == "monitored_copy" else "FetchActive R"
    return (("agree_run %s %s false 1 [" + opn + " %s] [%s] [%s] %s && sites_ok IOT %s")
            % (c_handle(obs["handle_before"]), dm, c_calls(_body_calls(obs)), c_err(obs["exc"], obs["calls"]),
               c_handle(obs["handle_after"]), c_log(obs["entries"]), c_sites(obs["calls"])))


def model_term(case):
    return None


# ----------------------------------------------------------------------------- oracle (property text, independent of the model)
def _bypass(entries):
    return [e[0] for e in entries if e[0].startswith("H5Writer.") and e[1] == "r"]


def oracle(case, obs):
    if "crash" in obs:
        return [{"key": "driver-crash", "what": obs["crash"][:300]}]
    if "not_driven" in obs:
        return []
    fails = []
    if obs.get("fixture_problems") or (obs.get("r") or {}).get("fixture_problems"):
        fails.append({"key": "fixture-incomplete", "what": str(obs.get("fixture_problems") or obs["r"]["fixture_problems"])[:300]})
    if case["kind"] == "entry":
        name = f"{case['owner']}.{case['member']}" + ("[fallback]" if case.get("ctor") == "fallback" else "")
        r, rw = obs["r"], obs["rw"]
        if not (r["sha_same_open"] and r["sha_same"]):
            fails.append({"key": "file-changed:" + name, "what": f"SHA-256 of the file differs after {name} on a mode='r' workspace"})
        if r["handle_after"] not in ("r", "closed"):
            fails.append({"key": "mode-upgraded:" + name, "what": f"geoh5.mode is {r['handle_after']} after {name}"})
        for fn in _bypass(r["entries"]):
            fails.append({"key": "gate-bypassed:" + fn, "what": f"{fn} was entered with a handle in mode 'r' during {name} "
                                                                f"(the _io_call gate did not refuse; only HDF5 stands in the way)"})
        if rw is None:      # fallback run: no twin; a request for a writable mode that returns normally was not refused
            wrote = [c[0] for c in r["calls"] if c[1] in ("r+", "a")]
        else:
            wrote = [e[0] for e in rw["entries"] if e[0].startswith("H5Writer.")]
        if wrote and r["exc"] is None and not (case["owner"] == "Workspace" and case["member"] in CONTROL):
            fails.append({"key": "write-not-refused:" + name,
                          "what": f"{name} writes ({wrote[:3]}) but returned without error on the read-only workspace"
                                  + (" (handle fell back to 'r' at construction)" if rw is None else "")})
        if r["nfiles"] != 0:
            fails.append({"key": "handle-left-open:" + name, "what": f"{r['nfiles']} HDF5 file handle(s) open after close"})
        return fails
    if case["kind"] == "seq":
        for i, (op, rec) in enumerate(zip(case["ops"], obs["ops"])):
            tag = op.get("member") or op["op"]
            # judged: every operation of a read-only span (handle "r" or closed before it, not an explicit writable re-open),
            # also after earlier explicit writable spans -- the workspace was constructed with mode "r"
            if rec["handle_before"] not in ("r", "closed") or rec.get("explicit_op"):
                continue
            if rec["sha_same"] is False:
                fails.append({"key": "file-changed:seq:" + tag, "what": f"file bytes changed at step {i} ({op})"})
            if rec["handle_after"] not in ("r", "closed"):
                fails.append({"key": "mode-upgraded:seq:" + tag,
                              "what": f"handle mode {rec['handle_after']} after step {i} ({op}) of a workspace constructed with mode 'r' "
                                      f"(history: {[o.get('member') or (o['op'], o.get('mode')) for o in case['ops'][:i + 1]]})"[:600]})
            for fn in _bypass(rec["entries"]):
                fails.append({"key": "gate-bypassed:" + fn, "what": f"{fn} entered on a mode-'r' handle at step {i} ({op})"})
            if any(c[1] in ("r+", "a") for c in rec["calls"]) and rec["exc"] is None:
                fails.append({"key": "write-not-refused:seq:" + tag, "what": f"step {i} ({op}) asked for a writable mode and returned normally"})
        if not obs["explicit"]:
            if not obs["sha_same"]:
                fails.append({"key": "file-changed:seq:end", "what": "file bytes changed by a sequence on a mode='r' workspace"})
            if obs["saved_same"] is False:
                fails.append({"key": "save_as-copy-differs", "what": "the copy written by save_as differs from the read-only source"})
        if obs["nfiles"] != 0:
            fails.append({"key": "handle-left-open:seq", "what": f"{obs['nfiles']} HDF5 file handle(s) open after the final close"})
        return fails
    # helpers
    which = case["which"]
    if which == "monitored_chain":
        if obs.get("exc") is not None:
            fails.append({"key": "helper-raised:monitored_chain", "what": f"chained export raised {obs['exc']}: {obs.get('msg')}"})
        if obs.get("sha_same") is False or obs.get("inode_same") is False:
            fails.append({"key": "helper-replaced-source:monitored_directory_copy",
                          "what": f"exporting from a file of the monitoring directory (open read-only) into that directory replaced the "
                                  f"source file (bytes same: {obs.get('sha_same')}, same inode: {obs.get('inode_same')}; "
                                  f"{obs.get('files_in_dir')} files for {obs.get('expected_exports')} exports, clock step 0.1 s)"})
        elif obs.get("exc") is None and obs.get("files_in_dir") != obs.get("expected_exports"):
            fails.append({"key": "helper-export-overwritten:monitored_directory_copy",
                          "what": f"{obs.get('expected_exports')} exports 0.1 s apart left {obs.get('files_in_dir')} files"})
        for fn in [e[0] for e in obs.get("entries", []) if e[0].startswith("H5Writer.")]:
            fails.append({"key": f"helper-wrote-source:monitored_chain:{fn}", "what": f"export ran {fn} on its read-only source"})
        if obs.get("handle_after") != "r":
            fails.append({"key": "helper-changed-handle:monitored_chain", "what": f"source handle {obs.get('handle_after')} after the exports"})
        if obs.get("nfiles", 0) != 0:
            fails.append({"key": "handle-left-open:monitored_chain", "what": "open HDF5 files afterwards"})
        return fails
    if which == "repack_readonly":
        if obs.get("sha_same") is False or obs.get("inode_same") is False:
            fails.append({"key": "repack-rewrites-readonly-file",
                          "what": f"Workspace(mode='r') with repack=True ({case['src_state']}): close() replaced the file through h5repack "
                                  f"(bytes same: {obs.get('sha_same')}, same inode: {obs.get('inode_same')})"})
        if obs.get("exc") is not None:
            fails.append({"key": "helper-raised:repack_readonly", "what": f"close raised {obs['exc']}: {obs.get('msg')}"})
        if obs.get("handle_after") != "closed":
            fails.append({"key": "close-left-handle-open", "what": f"after close() the handle is still {obs.get('handle_after')} (repack set)"})
        if obs.get("nfiles", 0) != 0:
            fails.append({"key": "handle-left-open:repack_readonly", "what": "open HDF5 file after close"})
        return fails
    if obs.get("exc") is not None:
        fails.append({"key": f"helper-raised:{which}", "what": f"{which} raised {obs['exc']}: {obs.get('msg')}"})
    if obs.get("sha_same") is False:
        fails.append({"key": f"helper-changed-source:{which}:{case['src_state']}", "what": f"{which} changed the source file's bytes"})
    for fn in [e[0] for e in obs.get("entries", []) if e[0].startswith("H5Writer.")]:
        fails.append({"key": f"helper-wrote-source:{which}:{fn}", "what": f"{which} ran {fn} on the source file"})
    if which in ("path2workspace", "read_ui_json") or case["src_state"] != "rp":
        if any(c[4] != "r" for c in obs.get("calls", [])):
            fails.append({"key": f"helper-writable-handle:{which}", "what": f"{which} held the source in a mode other than 'r'"})
    if which in ("path2workspace", "read_ui_json") and obs.get("ctor_mode") != "r":
        fails.append({"key": f"helper-ctor-mode:{which}", "what": f"workspace built with mode {obs.get('ctor_mode')}"})
    if which == "monitored_copy" and not obs.get("copied") and obs.get("exc") is None:
        fails.append({"key": "helper-no-copy", "what": "monitored_directory_copy produced no file"})
    if obs.get("nfiles", 0) != 0:
        fails.append({"key": f"handle-left-open:{which}", "what": f"{obs['nfiles']} HDF5 file handle(s) open afterwards"})
    return fails


def nontrivial(case, obs):
    if "not_driven" in obs or "crash" in obs:
        return False
    if case["kind"] == "entry":
        return any(c[1] in ("r+", "a") for c in obs["r"]["calls"])
    if case["kind"] == "seq":
        return sum(1 for rec in obs["ops"] if any(c[1] in ("r+", "a") for c in rec["calls"])) >= 2
    return len(obs.get("calls", [])) > 0


def histogram(cases, obs):
    h = {"kind": {}, "entry_outcome_r": {}, "entry_twin_writes": 0, "entry_reaches_io_call": 0, "not_driven": [],
         "silent_in_r_but_never_written_through": [], "seq_len": {}, "seq_op": {}, "seq_outcome": {}, "seq_explicit": 0,
         "seq_locked": 0, "helper": {}, "deferred_write_only_at_close": []}
    for c, o in zip(cases, obs):
        h["kind"][c["kind"]] = h["kind"].get(c["kind"], 0) + 1
        if "crash" in o:
            continue
        if c["kind"] == "entry":
            name = f"{c['owner']}.{c['member']}"
            if "not_driven" in o:
                h["not_driven"].append(f"{name} [{c['ekind']}]: {o['not_driven'][:70]}")
                continue
            r, rw = o["r"], o["rw"]
            k = str(r["exc"])
            if rw is None:
                h.setdefault("fallback_entry_outcome", {})
                h["fallback_entry_outcome"][k] = h["fallback_entry_outcome"].get(k, 0) + 1
                continue
            h["entry_outcome_r"][k] = h["entry_outcome_r"].get(k, 0) + 1
            wrote = any(e[0].startswith("H5Writer.") for e in rw["entries"])
            h["entry_twin_writes"] += int(wrote)
            h["entry_reaches_io_call"] += int(bool(r["calls"]))
            if not wrote and rw["changed"] and rw["exc"] is None:
                h["deferred_write_only_at_close"].append(name)
        elif c["kind"] == "seq":
            h["seq_len"][str(len(c["ops"]))] = h["seq_len"].get(str(len(c["ops"])), 0) + 1
            h["seq_explicit"] += int(o.get("explicit", False))
            h["seq_locked"] += int(bool(c.get("lock")))
            for op, rec in zip(c["ops"], o["ops"]):
                h["seq_op"][op["op"]] = h["seq_op"].get(op["op"], 0) + 1
                k = str(rec["exc"])
                h["seq_outcome"][k] = h["seq_outcome"].get(k, 0) + 1
        else:
            k = f"{c['which']}:{c['src_state']}:{o.get('exc')}"
            h["helper"][k] = h["helper"].get(k, 0) + 1
    h["not_driven"] = sorted(set(h["not_driven"]))
    h["deferred_write_only_at_close"] = sorted(set(h["deferred_write_only_at_close"]))
    return h
